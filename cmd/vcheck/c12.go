package main

import (
	"time"

	"verif/internal/core"
	"verif/internal/impl"
)

// C12: slice library functions are pure: no call changes an existing slice value.

func init() { register("C12", checkC12) }

func checkC12(c *core.Ctx) {
	sc, err := impl.New(c.Repo)
	if err != nil {
		panic(err)
	}
	defer sc.Close()
	c.Set("rule", "explicit-state breadth-first search on the real slices: a state is an alias group (the live slice values sharing one backing array, as (offset,len,cap) windows read with unsafe, plus the rank pattern of the cells they cover); transitions apply every slice-package function to every member (binary functions with every other member or a fresh literal, in both positions; Take/Skip with every count), successor = replay of the history on fresh slices + one call; a result with its own array becomes a new singleton group; distinct = distinct canonical states; non-trivial = the transition involved a value sharing its backing array with another live value")
	c.Assumption("reduction: a function reads its operands through ordinary Go slice operations and cannot see what else aliases them, so one backing array per state suffices; operands from other arrays are represented by fresh literals")
	c.Assumption("fresh element values are pairwise distinct and not monotone, so any overwrite is visible and Sort/SortBy have work to do")
	runDriver(c, sc, "c12", nil, 25*time.Minute, c.Tier)
}
