package main

import (
	"fmt"
	"go/ast"
	"go/parser"
	"go/token"
	"go/types"
	"os"
	"path/filepath"
	"strings"
	"sync"
	"time"

	"verif/internal/core"
	"verif/internal/explore"
	"verif/internal/impl"
)

// C15: type expressions map to Go types by the documented grammar.

func init() { register("C15", checkC15) }

// ---- type expression AST (harness side) ----

type tyKind int

const (
	tyLeaf tyKind = iota
	tySlice
	tyTuple // 2 or 3 elems
	tyArrow // kids = args..., result ; unitArg / unitRes flags
	tyGen   // Name<kids>
)

type ty struct {
	kind    tyKind
	name    string // leaf name or generic name
	kids    []*ty
	unitArg bool // arrow: ()->R (no kids for args)
	unitRes bool // arrow: A->()  (no kid for result)
	paren   bool // a redundant pair of parentheses around this node
}

// precedence levels of the Folang type grammar
// 0 TYPE (arrows), 1 ELEM (tuples), 2 TERM ([]), 3 ATOM
func (t *ty) level() int {
	switch t.kind {
	case tyArrow:
		return 0
	case tyTuple:
		return 1
	case tySlice:
		return 2
	}
	return 3
}

// folang prints the expression with minimal parentheses (plus the marked redundant pair).
func (t *ty) folang() string {
	s := ""
	wrap := func(k *ty, min int) string {
		x := k.folang()
		if k.level() < min && !k.paren { // k.paren already wraps
			return "(" + x + ")"
		}
		return x
	}
	switch t.kind {
	case tyLeaf:
		s = t.name
	case tySlice:
		s = "[]" + wrap(t.kids[0], 2)
	case tyTuple:
		parts := []string{}
		for _, k := range t.kids {
			parts = append(parts, wrap(k, 2))
		}
		s = strings.Join(parts, "*")
	case tyArrow:
		parts := []string{}
		if t.unitArg {
			parts = append(parts, "()")
		}
		for _, k := range t.kids {
			parts = append(parts, wrap(k, 1))
		}
		if t.unitRes {
			parts = append(parts, "()")
		}
		s = strings.Join(parts, "->")
	case tyGen:
		parts := []string{}
		for _, k := range t.kids {
			parts = append(parts, k.folang())
		}
		s = t.name + "<" + strings.Join(parts, ", ") + ">"
	}
	if t.paren {
		return "(" + s + ")"
	}
	return s
}

// goType is the reference type printer, written from the prose of the property.
func (t *ty) goType() string {
	switch t.kind {
	case tyLeaf:
		if t.name == "float" {
			return "float64"
		}
		return t.name
	case tySlice:
		return "[]" + t.kids[0].goType()
	case tyTuple:
		parts := []string{}
		for _, k := range t.kids {
			parts = append(parts, k.goType())
		}
		return fmt.Sprintf("frt.Tuple%d[%s]", len(t.kids), strings.Join(parts, ", "))
	case tyArrow:
		kids := t.kids
		res := ""
		if !t.unitRes {
			res = " " + kids[len(kids)-1].goType()
			kids = kids[:len(kids)-1]
		}
		parts := []string{}
		for _, k := range kids {
			parts = append(parts, k.goType())
		}
		return "func(" + strings.Join(parts, ", ") + ")" + res
	case tyGen:
		parts := []string{}
		for _, k := range t.kids {
			parts = append(parts, k.goType())
		}
		return t.name + "[" + strings.Join(parts, ", ") + "]"
	}
	return "?"
}

func (t *ty) nodes(f func(*ty)) {
	f(t)
	for _, k := range t.kids {
		k.nodes(f)
	}
}

// ---- generator ----

var c15Leaves = []string{"int", "string", "bool", "any", "float", "Rec", "T"}

type c15Gen struct {
	c       *explore.Chooser
	leafCtr int
	allowT  bool
	rot     int
}

func (g *c15Gen) leaf() *ty {
	for {
		n := c15Leaves[(g.leafCtr+g.rot)%len(c15Leaves)]
		g.leafCtr++
		if n == "T" && !g.allowT {
			continue
		}
		return &ty{kind: tyLeaf, name: n}
	}
}

// gen builds a type with exactly `fuel` constructors (leaves are free).
func (g *c15Gen) gen(fuel int) *ty {
	if fuel == 0 {
		return g.leaf()
	}
	// constructors: 0 slice, 1 tuple2, 2 tuple3, 3 arrow1, 4 arrow2, 5 unit-arg arrow, 6 unit-res arrow, 7 ext.Box, 8 ext.Pair, 9 G
	cons := g.c.Choose(11)
	arity := []int{1, 2, 3, 2, 3, 1, 1, 1, 2, 1, 3}[cons]
	rest := fuel - 1
	// split rest over the kids in every possible way
	split := make([]int, arity)
	for i := 0; i < arity-1; i++ {
		split[i] = g.c.Choose(rest + 1)
		rest -= split[i]
	}
	split[arity-1] = rest
	kids := make([]*ty, arity)
	for i := range kids {
		kids[i] = g.gen(split[i])
	}
	switch cons {
	case 0:
		return &ty{kind: tySlice, kids: kids}
	case 1, 2:
		return &ty{kind: tyTuple, kids: kids}
	case 3, 4:
		return &ty{kind: tyArrow, kids: kids}
	case 5:
		return &ty{kind: tyArrow, kids: kids, unitArg: true}
	case 6:
		return &ty{kind: tyArrow, kids: kids, unitRes: true}
	case 7:
		return &ty{kind: tyGen, name: "ext.Box", kids: kids}
	case 8:
		return &ty{kind: tyGen, name: "ext.Pair", kids: kids}
	case 10:
		// three type arguments (after seed C15i: the tail of a type argument list reversed - invisible with two)
		return &ty{kind: tyGen, name: "ext.Tri", kids: kids}
	}
	return &ty{kind: tyGen, name: "G", kids: kids}
}

type c15Case struct {
	choices []int
	t       *ty
	pos     int // 0 param, 1 record field, 2 union payload, 3 package_info signature, 4 explicit type argument
	fo      string
	want    string
	cons    int
}

var c15PosNames = []string{"param-annotation", "record-field", "union-payload", "package_info-signature", "explicit-type-argument"}

func c15Driver(minK, maxK int, parensUpTo int, rotUpTo int) func(c *explore.Chooser) *c15Case {
	return func(c *explore.Chooser) *c15Case {
		pos := c.Choose(5)
		k := minK + c.Choose(maxK-minK+1)
		g := &c15Gen{c: c, allowT: pos == 1 || pos == 2, rot: pos * 3}
		// rotation offset of the leaves: a choice for small k, else fixed per position
		if k <= rotUpTo {
			g.rot = c.Choose(len(c15Leaves))
		}
		t := g.gen(k)
		// one optional redundant pair of parentheses
		if k <= parensUpTo {
			var ns []*ty
			t.nodes(func(n *ty) { ns = append(ns, n) })
			p := c.Choose(len(ns) + 1)
			if p > 0 {
				ns[p-1].paren = true
			}
		}
		return &c15Case{t: t, pos: pos, fo: t.folang(), want: c15Canon(t.goType()), cons: k}
	}
}

// c15LongDriver: shapes beyond the completely enumerated sizes.  (a) function types with 3..maxArgs
// arguments, plain or with one argument replaced by a slice, a pair or a (parenthesised) function;
// (b) towers: every sequence of `depth` unary contexts (slice of, left / right component of a pair,
// argument / result of a function, ext.Box of, G of) around a leaf.
func c15LongDriver(maxArgs, depth int) func(c *explore.Chooser) *c15Case {
	return func(c *explore.Chooser) *c15Case {
		pos := c.Choose(5)
		g := &c15Gen{c: c, allowT: pos == 1 || pos == 2, rot: pos * 3}
		var t *ty
		cons := 0
		if c.Choose(2) == 0 {
			n := 3 + c.Choose(maxArgs-2)
			kids := make([]*ty, n+1)
			for i := range kids {
				kids[i] = g.leaf()
			}
			v := c.Choose(1 + 3*n)
			if v > 0 {
				i, form := (v-1)/3, (v-1)%3
				switch form {
				case 0:
					kids[i] = &ty{kind: tySlice, kids: []*ty{kids[i]}}
				case 1:
					kids[i] = &ty{kind: tyTuple, kids: []*ty{kids[i], g.leaf()}}
				case 2:
					kids[i] = &ty{kind: tyArrow, kids: []*ty{kids[i], g.leaf()}}
				}
				cons++
			}
			t = &ty{kind: tyArrow, kids: kids}
			cons++
		} else {
			t = g.leaf()
			for d := 0; d < depth; d++ {
				switch c.Choose(7) {
				case 0:
					t = &ty{kind: tySlice, kids: []*ty{t}}
				case 1:
					t = &ty{kind: tyTuple, kids: []*ty{t, g.leaf()}}
				case 2:
					t = &ty{kind: tyTuple, kids: []*ty{g.leaf(), t}}
				case 3:
					t = &ty{kind: tyArrow, kids: []*ty{t, g.leaf()}}
				case 4:
					t = &ty{kind: tyArrow, kids: []*ty{g.leaf(), t}}
				case 5:
					t = &ty{kind: tyGen, name: "ext.Box", kids: []*ty{t}}
				case 6:
					t = &ty{kind: tyGen, name: "G", kids: []*ty{t}}
				}
			}
			cons = depth
		}
		return &c15Case{t: t, pos: pos, fo: t.folang(), want: c15Canon(t.goType()), cons: cons}
	}
}

func c15Canon(goType string) string {
	e, err := parser.ParseExpr(goType)
	if err != nil {
		return "!unparsable:" + goType
	}
	return types.ExprString(e)
}

const c15Prelude = `package main
import frt

package_info ext =
  type Box<T>
  type Pair<K, V>
  type Tri<A, B, C>

package_info _ =
  let mk<T>: ()->T

type Rec = {A: int}
type G<T> = {V: T}

`

func c15Render(cases []*c15Case) string {
	var sb strings.Builder
	sb.WriteString(c15Prelude)
	for i, cs := range cases {
		switch cs.pos {
		case 0:
			fmt.Fprintf(&sb, "let f%d (p: %s) =\n  0\n\n", i, cs.fo)
		case 1:
			fmt.Fprintf(&sb, "type R%d<T> = {F: %s}\n\n", i, cs.fo)
		case 2:
			fmt.Fprintf(&sb, "type U%d<T> =\n  | C%d of %s\n\n", i, i, cs.fo)
		case 3:
			// a unit / function-typed first parameter would change the arrow structure: wrap in parentheses
			fo := cs.fo
			if cs.t.kind == tyArrow && !cs.t.paren {
				fo = "(" + fo + ")"
			}
			// the declaration before it has type parameters NAMED like the types the signature may mention: they belong
			// to that declaration only (genuine defect 481c6f0: they stayed in scope for the rest of the block)
			fmt.Fprintf(&sb, "package_info _ =\n  let pre%d<Rec, G>: Rec->G->Rec\n  let ext%d: %s->int\n\nlet w%d x =\n  ext%d x\n\n", i, i, fo, i, i)
		case 4:
			fmt.Fprintf(&sb, "let w%d () =\n  mk<%s> ()\n\n", i, cs.fo)
		}
	}
	return sb.String()
}

func c15Extract(path string) (map[string]string, error) {
	fset := token.NewFileSet()
	f, err := parser.ParseFile(fset, path, nil, parser.SkipObjectResolution)
	if err != nil {
		return nil, err
	}
	res := map[string]string{}
	for _, d := range f.Decls {
		switch v := d.(type) {
		case *ast.FuncDecl:
			nm := v.Name.Name
			if strings.HasPrefix(nm, "f") || (strings.HasPrefix(nm, "w") && v.Type.Params != nil && len(v.Type.Params.List) > 0) {
				if v.Type.Params != nil && len(v.Type.Params.List) > 0 {
					res[nm] = types.ExprString(v.Type.Params.List[0].Type)
				}
			} else if strings.HasPrefix(nm, "w") && v.Body != nil && len(v.Body.List) == 1 {
				if rs, ok := v.Body.List[0].(*ast.ReturnStmt); ok && len(rs.Results) == 1 {
					if ce, ok := rs.Results[0].(*ast.CallExpr); ok {
						if ie, ok := ce.Fun.(*ast.IndexExpr); ok {
							res[nm] = types.ExprString(ie.Index)
						}
					}
				}
			}
		case *ast.GenDecl:
			for _, s := range v.Specs {
				ts, ok := s.(*ast.TypeSpec)
				if !ok {
					continue
				}
				st, ok := ts.Type.(*ast.StructType)
				if !ok || st.Fields == nil {
					continue
				}
				for _, fl := range st.Fields.List {
					for _, n := range fl.Names {
						if n.Name == "F" || n.Name == "Value" {
							res[ts.Name.Name] = types.ExprString(fl.Type)
						}
					}
				}
			}
		}
	}
	return res, nil
}

func c15Key(i int, pos int) string {
	switch pos {
	case 0:
		return fmt.Sprintf("f%d", i)
	case 1:
		return fmt.Sprintf("R%d", i)
	case 2:
		return fmt.Sprintf("U%d_C%d", i, i)
	}
	return fmt.Sprintf("w%d", i)
}

func checkC15(c *core.Ctx) {
	sc, err := impl.New(c.Repo)
	if err != nil {
		panic(err)
	}
	defer sc.Close()
	fc, err := sc.BuildFC()
	if err != nil {
		panic(err)
	}
	c.Set("rule", "type expressions are enumerated by the choice-tree explorer: syntactic position (5), number of constructors k, constructor per node (slice, 2-/3-tuple, 1-/2-argument arrow, unit-argument arrow, unit-result arrow, ext.Box<T>, ext.Pair<K,V>, ext.Tri<A,B,C>, user generic G<T>), every split of k over the children, one optional redundant pair of parentheses at any node; leaves rotate over int string bool any float Rec T; distinct = distinct (position, type text); non-trivial = at least 2 constructors or a redundant parenthesis (precedence actually matters)")
	c.Assumption("() only as the sole parameter or the result of a function type; tuples of 2 and 3; the Go type text is normalised through go/parser + go/types.ExprString on both sides")
	if c.ReplayFile != "" {
		c15Replay(c, fc, sc)
		return
	}
	var cases []*c15Case
	var st explore.Stats
	collect := func(drv func(c *explore.Chooser) *c15Case) {
		var cur *c15Case
		s := explore.Explore(-1, func(ch *explore.Chooser) { cur = drv(ch) }, func(ch *explore.Chooser) bool {
			cur.choices = append([]int{}, ch.Choices...)
			cases = append(cases, cur)
			return true
		})
		st.Add(s)
	}
	if c.Thorough() {
		collect(c15Driver(0, 3, 3, 2))
		// k = 4 with one redundant pair of parentheses (k = 5 would be > 10^7 cases held in memory: not attempted)
		collect(c15Driver(4, 4, 4, 0))
		collect(c15LongDriver(14, 6))
	} else {
		collect(c15Driver(0, 3, 3, 2))
		// k = 4 with minimal parenthesisation only
		collect(c15Driver(4, 4, 0, 0))
		collect(c15LongDriver(12, 5))
	}
	c.Count(0, st.States, st.Transitions, 0)
	c.Set("explorer", map[string]any{"executions": st.Executions, "max_depth": st.MaxDepth})
	const per = 400
	var wg sync.WaitGroup
	ch := make(chan []*c15Case)
	for w := 0; w < c.Workers; w++ {
		wg.Add(1)
		go func() {
			defer wg.Done()
			for b := range ch {
				if c.Expired() || c.TooManyViolations() {
					continue
				}
				c15RunBatch(c, fc, sc, b)
			}
		}()
	}
	for i := 0; i < len(cases); i += per {
		j := i + per
		if j > len(cases) {
			j = len(cases)
		}
		ch <- cases[i:j]
	}
	close(ch)
	wg.Wait()
}

func c15RunBatch(c *core.Ctx, fc string, sc *impl.Scratch, cases []*c15Case) {
	dir := sc.TempDir("c15_")
	defer os.RemoveAll(dir)
	src := c15Render(cases)
	os.WriteFile(filepath.Join(dir, "t.fo"), []byte(src), 0o644)
	r := impl.RunWithRetry(dir, 60*time.Second, 180*time.Second, fc, "t.fo")
	var got map[string]string
	var perr error
	if r.Exit == 0 && !r.TimedOut {
		got, perr = c15Extract(filepath.Join(dir, "gen_t.go"))
	}
	if r.Exit != 0 || r.TimedOut || perr != nil {
		if len(cases) > 1 {
			h := len(cases) / 2
			c15RunBatch(c, fc, sc, cases[:h])
			c15RunBatch(c, fc, sc, cases[h:])
			return
		}
		cs := cases[0]
		c.Count(1, 0, 0, 1)
		c.Outcome("rejected")
		obs := fmt.Sprintf("exit=%d %s %v", r.Exit, strings.TrimSpace(r.Out()), perr)
		c.Violation("C15:rejected:"+c15PosNames[cs.pos], fmt.Sprintf("type expression %q in %s position: %s", cs.fo, c15PosNames[cs.pos], obs),
			map[string]any{"choices": cs.choices, "input": map[string]string{"t.fo": src}, "expected": cs.want, "observed": obs})
		return
	}
	for i, cs := range cases {
		c.Count(1, 0, 0, 1)
		c.Hist("by_position", c15PosNames[cs.pos], 1)
		c.Hist("by_constructors", fmt.Sprint(cs.cons), 1)
		c.DistinctNT(fmt.Sprint(cs.pos)+":"+cs.fo, cs.cons >= 2 || strings.Contains(cs.fo, "("))
		c.Sample(map[string]string{"position": c15PosNames[cs.pos], "folang": cs.fo, "go": cs.want})
		g := got[c15Key(i, cs.pos)]
		if g == cs.want {
			c.Outcome("agree")
			continue
		}
		c.Outcome("disagree")
		single := c15Render([]*c15Case{cs})
		c.Violation("C15:type-text:"+c15PosNames[cs.pos], fmt.Sprintf("type expression %q in %s position: expected Go type %q, emitted %q", cs.fo, c15PosNames[cs.pos], cs.want, g),
			map[string]any{"choices": cs.choices, "pos": cs.pos, "input": map[string]string{"t.fo": single}, "expected": cs.want, "observed": g})
	}
}

func c15Replay(c *core.Ctx, fc string, sc *impl.Scratch) {
	rp, err := loadReplay(c.ReplayFile)
	if err != nil {
		panic(err)
	}
	dir := sc.TempDir("c15r_")
	os.WriteFile(filepath.Join(dir, "t.fo"), []byte(rp.Input["t.fo"]), 0o644)
	r := impl.Run(dir, 60*time.Second, "", fc, "t.fo")
	fmt.Printf("fc exit=%d\n%s", r.Exit, r.Out())
	got, _ := c15Extract(filepath.Join(dir, "gen_t.go"))
	pos := 0
	if v, ok := rp.Raw["pos"].(float64); ok {
		pos = int(v)
	}
	g := got[c15Key(0, pos)]
	fmt.Printf("expected: %s\nobserved: %s\n", rp.Expected, g)
	c.Count(1, 1, 1, 1)
	c.Sample(rp.Input["t.fo"])
	if g != rp.Expected {
		c.Violation("C15:replay", "replayed case still disagrees", map[string]any{"input": rp.Input, "expected": rp.Expected, "observed": g})
	}
}
