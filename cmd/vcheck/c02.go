package main

import (
	"fmt"
	"go/ast"
	"go/parser"
	"go/token"
	"go/types"
	"os"
	"regexp"
	"strings"
	"sync"

	"verif/internal/core"
	"verif/internal/explore"
	"verif/internal/fo"
	"verif/internal/gobatch"
	"verif/internal/impl"
)

// C02: inferred Go signatures are the principal Folang types, mapped as documented.

func init() { register("C02", checkC02) }

type c02Variant struct {
	fc      *c02Func
	mask    int // bit i set: annotation of parameter i erased
	name    string
	src     string
	wantSig string
	sameAs  bool // HM says the type equals the fully annotated one
	status  string
	gotSig  string
	gotText string
}

type c02Func struct {
	choices  []int
	fc       *fo.FuncCase
	variants []*c02Variant
	fullSig  string
}

// no lifted functions (their names would differ between variants) and no productions outside the inference alphabet
var c02Exclude = map[string]bool{"lifted-annotated": true, "lifted-unannotated": true, "lifted-result-annotated": true, "us-field-map": true, "interp-first-in-statement": true}

func c02Profile() fo.Profile {
	only := map[string]bool{}
	for _, n := range fo.ProdNames(fo.Profile{}) {
		base := strings.SplitN(n, ":", 2)[0]
		if !c02Exclude[n] && !c02Exclude[base] {
			only[base] = true
		}
	}
	return fo.Profile{Only: only}
}

func c02Inferer(foi string) *fo.Inferer {
	in := fo.NewInferer()
	in.LoadFoi(foi)
	return in
}

// c02Variants builds all annotation subsets of a function and their reference signatures.
func c02Variants(c *core.Ctx, f *c02Func, foi string, seq *int) {
	fd := f.fc.Def
	n := 0
	for _, p := range fd.Params {
		if !p.Unit {
			n++
		}
	}
	roles := fo.ParamRoles(fd.Body)
	// the result annotation is a further annotation: written (": T") for compound result types with every subset
	// of parameter annotations, and for the other types when every parameter annotation is erased - then it is
	// the annotation alone that determines what the body leaves open (let wrap x : []int = [x])
	compound := map[fo.Type]bool{"[]int": true, "int*string": true, "R": true, "U": true, "Opt<int>": true}
	for mask2 := 0; mask2 < 2<<n; mask2++ {
		mask := mask2 & (1<<n - 1)
		retAnnotated := mask2>>n == 1
		if retAnnotated && (f.fc.Ret == "" || f.fc.Ret == "unit" || !(compound[f.fc.Ret] || (n > 0 && mask == 1<<n-1))) {
			continue
		}
		v := &c02Variant{fc: f, mask: mask2}
		d := fd
		if retAnnotated {
			d.Ret = f.fc.Ret
		}
		d.Params = append([]fo.Param{}, fd.Params...)
		skip := ""
		for i := 0; i < n; i++ {
			if mask&(1<<i) != 0 {
				r := roles[d.Params[i].Name]
				switch {
				case r["match-target"] || r["field-target"] || r["string-match-target"]:
					skip = "type needed at parse time (match / field access on an un-annotated parameter)"
				case r["logic-operand"]:
					skip = "&& || not operand must be a comparison or an annotated bool"
				case r["arith-both-variables"]:
					skip = "arithmetic/comparison needs one typed operand"
				case c02AppliedTimes(d.Body, d.Params[i].Name) > 1:
					skip = "a function-typed parameter is applied more than once"
				}
				d.Params[i].Type = ""
			}
		}
		if skip != "" {
			c.Hist("variants_out_of_domain", skip, 1)
			continue
		}
		in := c02Inferer(foi)
		ft, err := in.InferFunc(d)
		if err != nil {
			c.Hist("variants_out_of_domain", "reference inference: "+strings.SplitN(err.Error(), " ", 3)[0], 1)
			continue
		}
		unitParam := len(d.Params) == 1 && d.Params[0].Unit
		v.wantSig = fo.GoSig(ft, unitParam)
		if strings.Contains(v.wantSig, "?") {
			c.Hist("variants_out_of_domain", "unresolved", 1)
			continue
		}
		// inference through the arms of a match is not among the documented promises: the variant is in
		// the domain only if the principal type does not depend on it
		{
			in2 := c02Inferer(foi)
			in2.NoArmUnify = true
			ft2, err2 := in2.InferFunc(d)
			if err2 != nil || fo.GoSig(ft2, unitParam) != v.wantSig {
				c.Hist("variants_out_of_domain", "type determined only through match arms", 1)
				continue
			}
		}
		// library functions whose Go implementation needs a type constraint (Sort, Distinct) on an undetermined type
		if strings.Contains(v.wantSig, " any") && (fo.Uses(d.Body, "slice.Sort") || fo.Uses(d.Body, "slice.Distinct") || fo.Uses(d.Body, "slice.SortBy")) {
			c.Hist("variants_out_of_domain", "Sort/Distinct on an undetermined element type (no type constraints)", 1)
			continue
		}
		// a type variable that occurs only in the body (not in the signature) is ambiguous in any HM system
		if c02BodyOnlyVars(in, d) {
			c.Hist("variants_out_of_domain", "type variable not reachable from the signature", 1)
			continue
		}
		// arithmetic on a type that stays a type variable cannot be expressed in Go (documented limit)
		if in.ArithUndetermined() {
			c.Hist("variants_out_of_domain", "arithmetic/ordering on an undetermined type", 1)
			continue
		}
		*seq++
		v.name = fmt.Sprintf("f_%d", *seq)
		d.Name = v.name
		p := fo.NewPrinter(nil)
		v.src = strings.Join(p.Def(d), "\n") + "\n"
		// a body whose (default) layout has the shape of a recorded parser finding of C01 / C06 (a multi-line
		// if-without-else directly before an outer else / elif; a block beginning with an interpolated string) is
		// rejected or re-associated by fc for that reason: there is no signature to judge
		if sh := c06Shape(nil, v.src); sh != "" {
			c.Hist("variants_out_of_domain", "layout shape of a recorded parser finding (C01/C06): "+sh, 1)
			*seq--
			continue
		}
		if mask2 == 0 {
			f.fullSig = v.wantSig
		}
		if retAnnotated {
			c.Hist("variants_with_result_annotation", string(f.fc.Ret), 1)
		}
		v.sameAs = v.wantSig == f.fullSig && f.fullSig != ""
		f.variants = append(f.variants, v)
	}
}

// re-infer with a recording of all binder types is overkill; approximate the two
// domain rules by re-running inference on sub-expressions.
func c02BodyOnlyVars(in *fo.Inferer, d fo.FuncDef) bool {
	// the signature's free variables
	in2 := fo.NewInferer()
	in2.Globals = in.Globals
	ft, err := in2.InferFunc(d)
	if err != nil {
		return false
	}
	var sigVars []*fo.Ty
	fo.FreeVars(ft, &sigVars)
	// every let-bound right-hand side type must not have other free variables: check by inferring each
	// prefix function that returns the let-bound value
	bad := false
	var visit func(b *fo.Block, pre []fo.Stmt)
	visit = func(b *fo.Block, pre []fo.Stmt) {
		for i, s := range b.Stmts {
			if l, ok := s.(fo.Let); ok {
				d2 := d
				d2.Ret = ""
				d2.Body = &fo.Block{Stmts: append(append([]fo.Stmt{}, pre...), b.Stmts[:i]...), Final: fo.Tuple{Es: []fo.Expr{l.Rhs, paramTuple(d)}}}
				in3 := fo.NewInferer()
				in3.Globals = in.Globals
				t3, err := in3.InferFunc(d2)
				if err == nil {
					var vs []*fo.Ty
					fo.FreeVars(t3, &vs)
					var ps []*fo.Ty
					for _, a := range t3.Args[:len(t3.Args)-1] {
						fo.FreeVars(a, &ps)
					}
					// variables of the rhs type that no parameter mentions are body-only unless the result mentions them
					if len(vs) > len(ps) {
						// does the full function's signature have as many variables? if the full signature has fewer
						// free variables than rhs+params, some variable was neither a parameter's nor the result's
						var full []*fo.Ty
						fo.FreeVars(ft, &full)
						if len(vs) > len(full) {
							bad = true
						}
					}
				}
			}
		}
	}
	visit(d.Body, nil)
	return bad
}

func paramTuple(d fo.FuncDef) fo.Expr {
	var es []fo.Expr
	for _, p := range d.Params {
		if !p.Unit {
			es = append(es, fo.Var{Name: p.Name})
		}
	}
	if len(es) == 0 {
		return fo.IntLit{V: 0}
	}
	if len(es) == 1 {
		return es[0]
	}
	return fo.Tuple{Es: es}
}

func checkC02(c *core.Ctx) {
	sc, err := impl.New(c.Repo)
	if err != nil {
		panic(err)
	}
	defer sc.Close()
	fc, err := sc.BuildFC()
	if err != nil {
		panic(err)
	}
	if b, err := os.ReadFile(sc.PkgAllFoi()); err == nil {
		fo.FoiText = string(b)
	}
	foiB, err := os.ReadFile(sc.PkgAllFoi())
	if err != nil {
		panic(err)
	}
	foi := string(foiB)
	c.Set("rule", "function definitions are enumerated by the choice-tree explorer: 0..n annotated parameters over 9 types, a result type, and every body with exactly k constructs of the inference alphabet that uses every parameter; for every definition every subset of parameter annotations is erased (variants); an independent Hindley-Milner inference (library signatures read from the working tree's pkg/pkg_all.foi) gives each variant's principal type; distinct = distinct variant text; non-trivial = at least one annotation erased")
	c.Assumption("variants outside the documentation's inference promises are skipped and counted: an un-annotated parameter used as match target / field-access target / && || not operand, arithmetic or ordering on a type that stays undetermined, a type variable not reachable from the signature, constructs the reference inference does not model (_.Field)")
	c.Assumption("oracles: (a) the emitted func signature (go/parser, go/types.ExprString) equals the reference principal type with type parameters T0.. numbered by first occurrence in the parameters then the result, constraint any; (b) variants whose principal type equals the fully annotated one are emitted byte-identically (modulo the function name); (c) every variant compiles (go build of the batch, offenders re-built alone)")
	// first the small hand-kept families (a deadline then cuts only the tail of the big enumerations)
	// hand corpus: more than 10 type variables (_T10 sorts before _T9)
	c02Corpus(c, sc, fc, foi)
	c02ExternalGenerics(c, sc, fc, foi)
	c02ResultFirst(c, sc, fc, foi)
	c02FieldAccess(c, sc, fc, foi)
	type plan struct{ k, maxParams int }
	plans := []plan{{0, 2}, {1, 2}}
	if c.Thorough() {
		plans = []plan{{0, 3}, {1, 2}, {2, 1}, {1, 3}}
	}
	maxParams := 0
	prof := c02Profile()
	seq := 0
	var funcs []*c02Func
	flush := func() bool {
		ok := c02RunChunk(c, sc, fc, funcs)
		funcs = nil
		return ok
	}
	var completed []string
	for _, pl := range plans {
		k := pl.k
		if pl.maxParams > maxParams {
			maxParams = pl.maxParams
		}
		if c.Expired() || c.TooManyViolations() {
			c.NotExhaustive(fmt.Sprintf("k=%d params<=%d not started", k, pl.maxParams))
			break
		}
		var cur *fo.FuncCase
		complete := true
		nv := 0
		st := explore.Explore(-1, func(ch *explore.Chooser) {
			g := fo.NewGen(ch, prof, "")
			cur = fo.BuildFuncCase(g, k, pl.maxParams)
		}, func(ch *explore.Chooser) bool {
			f := &c02Func{choices: append([]int{}, ch.Choices...), fc: cur}
			c02Variants(c, f, foi, &seq)
			if len(f.variants) > 0 {
				funcs = append(funcs, f)
				nv += len(f.variants)
			}
			if nv >= 16*350 {
				nv = 0
				if !flush() {
					complete = false
					return false
				}
			}
			return true
		})
		if complete && len(funcs) > 0 {
			complete = flush()
		}
		c.Count(0, st.States, st.Transitions, 0)
		c.AddInt("paths_skipped_by_domain_rules", st.Skipped)
		if !complete {
			c.NotExhaustive(fmt.Sprintf("k=%d params<=%d: stopped early", k, pl.maxParams))
			break
		}
		completed = append(completed, fmt.Sprintf("k=%d params<=%d", k, pl.maxParams))
	}
	c.Set("plans_completed", completed)
	// constraint-graph shapes: the order in which equivalence classes are built, merged and grounded
	if !c.Expired() && !c.TooManyViolations() {
		c02Graphs(c, sc, fc, foi, &seq)
	}
	c.Set("max_params", maxParams)
}

// c02Graphs enumerates functions `let f p0 .. p(n-1) (n:int) = let s0 = R0 ; let s1 = R1 ; let s2 = R2 ; (s0, s1, s2)`
// with un-annotated parameters, where each R is one relation between the parameters: a slice literal of two or
// three of them (puts them into one class), `pi + n` (grounds pi's class), `frt.Fst (pi, n)` (uses pi without
// constraining it), a pair (no constraint).  All sequences are enumerated: classes of 3+ variables that are
// grounded through one member and then touched through another, in every order.
func c02Graphs(c *core.Ctx, sc *impl.Scratch, fc string, foi string, seq *int) {
	var funcs []*c02Func
	V := func(i int) fo.Expr { return fo.Var{Name: fmt.Sprintf("p%d", i)} }
	nStmts := 3
	maxP := 3
	if c.Thorough() {
		maxP = 4
	}
	st := explore.Explore(-1, func(ch *explore.Chooser) {
		np := 3 + ch.Choose(maxP-2)
		var rels []fo.Expr
		for k := 0; k < nStmts; k++ {
			switch ch.Choose(8) {
			case 7: // pi < pj: an ordering between two parameters that something else has to ground (after seed C02i)
				i := ch.Choose(np)
				j := ch.Choose(np)
				if i == j {
					ch.Skip("a parameter compared with itself")
				}
				rels = append(rels, fo.BinOp{Op: "<", L: V(i), R: V(j)})
			case 5: // slice.Length pi: a GENERIC call binds pi to a structured type with a fresh inner variable
				rels = append(rels, fo.App{Fn: "slice.Length", Args: []fo.Expr{V(ch.Choose(np))}})
			case 6: // frt.Snd pi: pi is a pair of two fresh variables
				rels = append(rels, fo.App{Fn: "frt.Snd", Args: []fo.Expr{V(ch.Choose(np))}})
			case 0: // [pi; pj]
				i := ch.Choose(np)
				j := ch.Choose(np)
				rels = append(rels, fo.SliceLit{Es: []fo.Expr{V(i), V(j)}})
			case 1: // [pi; pj; pk]
				i, j, l := ch.Choose(np), ch.Choose(np), ch.Choose(np)
				rels = append(rels, fo.SliceLit{Es: []fo.Expr{V(i), V(j), V(l)}})
			case 2: // pi + n
				rels = append(rels, fo.BinOp{Op: "+", L: V(ch.Choose(np)), R: fo.Var{Name: "n"}})
			case 3: // frt.Fst (pi, n)
				rels = append(rels, fo.App{Fn: "frt.Fst", Args: []fo.Expr{fo.Tuple{Es: []fo.Expr{V(ch.Choose(np)), fo.Var{Name: "n"}}}}})
			case 4: // (pi, pj)
				rels = append(rels, fo.Tuple{Es: []fo.Expr{V(ch.Choose(np)), V(ch.Choose(np))}})
			}
		}
		fd := fo.FuncDef{Name: "f"}
		for i := 0; i < np; i++ {
			fd.Params = append(fd.Params, fo.Param{Name: fmt.Sprintf("p%d", i)})
		}
		fd.Params = append(fd.Params, fo.Param{Name: "n", Type: "int"})
		var stmts []fo.Stmt
		var outs []fo.Expr
		for k, r := range rels {
			stmts = append(stmts, fo.Let{Name: fmt.Sprintf("s%d", k), Rhs: r})
			outs = append(outs, fo.Var{Name: fmt.Sprintf("s%d", k)})
		}
		fd.Body = &fo.Block{Stmts: stmts, Final: fo.Tuple{Es: outs}}
		for i := 0; i < np; i++ {
			if !fo.Uses(fd.Body, fmt.Sprintf("p%d", i)) {
				ch.Skip("unused parameter")
			}
		}
		f := &c02Func{choices: nil, fc: &fo.FuncCase{Def: fd, Used: map[string]int{"constraint-graph": 1}}}
		in := c02Inferer(foi)
		ft, err := in.InferFunc(fd)
		if err != nil || in.ArithUndetermined() || in.ArithNonScalar() {
			ch.Skip("out of domain")
		}
		*seq++
		v := &c02Variant{fc: f, mask: -1, name: fmt.Sprintf("f_%d", *seq), wantSig: fo.GoSig(ft, false)}
		d := fd
		d.Name = v.name
		v.src = strings.Join(fo.NewPrinter(nil).Def(d), "\n") + "\n"
		f.variants = []*c02Variant{v}
		funcs = append(funcs, f)
	}, func(ch *explore.Chooser) bool {
		funcs[len(funcs)-1].choices = append([]int{}, ch.Choices...)
		if len(funcs) >= 16*350 {
			ok := c02RunChunk(c, sc, fc, funcs)
			funcs = nil
			return ok
		}
		return true
	})
	if len(funcs) > 0 {
		c02RunChunk(c, sc, fc, funcs)
	}
	c.Count(0, st.States, st.Transitions, 0)
	c.Set("constraint_graph_functions", st.Executions)
}

var c02FuncName = regexp.MustCompile(`\bf_\d+\b`)

// c02RunChunk transpiles and compiles all variants of the functions; false = stop.
func c02RunChunk(c *core.Ctx, sc *impl.Scratch, fc string, funcs []*c02Func) bool {
	if c.Expired() || c.TooManyViolations() {
		return false
	}
	var all []*c02Variant
	for _, f := range funcs {
		all = append(all, f.variants...)
	}
	const per = 350
	var wg sync.WaitGroup
	sem := make(chan struct{}, c.Workers)
	var mu sync.Mutex
	gens := map[string][2]string{} // name -> (sig, text)
	for i := 0; i < len(all); i += per {
		j := i + per
		if j > len(all) {
			j = len(all)
		}
		part := all[i:j]
		wg.Add(1)
		sem <- struct{}{}
		go func() {
			defer wg.Done()
			defer func() { <-sem }()
			env := &gobatch.Env{Sc: sc, FC: fc, FCArgs: []string{sc.PkgAllFoi()}, Prelude: fo.Prelude, NoRunMain: true}
			env.OnGen = func(gen string) {
				m := c02ExtractFuncs(gen)
				mu.Lock()
				for k, v := range m {
					gens[k] = v
				}
				mu.Unlock()
			}
			progs := make([]gobatch.Prog, len(part))
			for k, v := range part {
				progs[k] = gobatch.Prog{Defs: v.src + fmt.Sprintf("\nlet run_%s () =\n  say \"x\"\n", v.name), Run: "run_" + v.name}
			}
			res := env.Run(progs)
			for k, r := range res {
				part[k].status = r.Status
				if r.Status != "ok" {
					part[k].gotText = r.Detail
				}
			}
		}()
	}
	wg.Wait()
	for _, f := range funcs {
		var full *c02Variant
		for _, v := range f.variants {
			if v.mask == 0 {
				full = v
			}
		}
		for _, v := range f.variants {
			c.Count(1, 0, 0, 1)
			c.DistinctNT(c02FuncName.ReplaceAllString(v.src, "f"), v.mask != 0)
			for n, k := range f.fc.Used {
				c.Hist("by_construct", n, int64(k))
			}
			c.Sample(map[string]any{"definition": v.src, "principal_signature": v.wantSig})
			rep := func(obs string) map[string]any {
				return map[string]any{"choices": f.choices, "mask": v.mask, "input": map[string]string{"t.fo": fo.Prelude + v.src}, "definition": v.src, "expected": v.wantSig, "observed": obs}
			}
			g, haveGen := gens[v.name]
			if v.status != "ok" {
				if v.status == "go-build" && haveGen && g[0] == v.wantSig {
					// the signature is right but the package does not type-check
				}
				e := firstLines(v.gotText, 2)
				cls := c02ErrClass(v.gotText)
				c.Outcome(v.status)
				c.Violation("C02:"+v.status+":"+cls, fmt.Sprintf("%s: %s\n%s", v.status, e, v.src), rep(v.status+": "+trunc(v.gotText, 1200)))
				continue
			}
			if !haveGen {
				c.Violation("C02:no-declaration", "no emitted declaration found for "+v.name, rep("missing"))
				continue
			}
			v.gotSig, v.gotText = g[0], c02Norm(g[1])
			if v.gotSig != v.wantSig {
				c.Outcome("signature-differs")
				c.Violation("C02:signature", fmt.Sprintf("emitted signature %s, principal type %s\n%s", v.gotSig, v.wantSig, v.src), rep(v.gotSig))
				continue
			}
			if v.sameAs && full != nil && full.status == "ok" && v != full {
				fg, ok := gens[full.name]
				if ok && c02Norm(fg[1]) != v.gotText {
					c.Outcome("redundant-annotation-changes-code")
					c.Violation("C02:annotation-changes-code", fmt.Sprintf("erasing a redundant annotation changes the emitted code: %s\n%s", firstDiff(c02Norm(fg[1]), v.gotText), v.src), rep(v.gotText))
					continue
				}
			}
			c.Outcome("agree")
		}
	}
	return !c.TooManyViolations()
}

func c02AppliedTimes(b *fo.Block, name string) int { return fo.CountApps(b, name) }

// c02Norm: the function's own name and the numbering of compiler temporaries (which
// depends on the position in the batch file) do not count.
func c02Norm(text string) string {
	return c07Tmp.ReplaceAllString(c02FuncName.ReplaceAllString(text, "f"), "_v#")
}

func c02ErrClass(detail string) string {
	m := c01GoErr.FindStringSubmatch(detail)
	e := ""
	if m != nil {
		e = m[1]
	} else {
		e = firstLines(detail, 1)
		if i := strings.LastIndex(e, "t.fo:"); i >= 0 {
			e = e[i+5:]
		}
		e = regexp.MustCompile(`\d+:\d+:`).ReplaceAllString(e, "")
	}
	e = regexp.MustCompile(`_\d+\b`).ReplaceAllString(e, "")
	e = regexp.MustCompile(`\bf\b`).ReplaceAllString(e, "f")
	e = strings.TrimSpace(e)
	if len(e) > 60 {
		e = e[:60]
	}
	return e
}

// c02ExtractFuncs returns name -> (canonical signature, source text) of every f_N function.
func c02ExtractFuncs(gen string) map[string][2]string {
	out := map[string][2]string{}
	fset := token.NewFileSet()
	f, err := parser.ParseFile(fset, "gen_t.go", gen, parser.SkipObjectResolution)
	if err != nil {
		return out
	}
	for _, d := range f.Decls {
		fd, ok := d.(*ast.FuncDecl)
		if !ok || !strings.HasPrefix(fd.Name.Name, "f_") {
			continue
		}
		out[fd.Name.Name] = [2]string{c02Sig(fd), gen[fset.Position(fd.Pos()).Offset:fset.Position(fd.End()).Offset]}
	}
	return out
}

func c02Sig(fd *ast.FuncDecl) string {
	s := ""
	if fd.Type.TypeParams != nil {
		var tps []string
		for _, fl := range fd.Type.TypeParams.List {
			for _, n := range fl.Names {
				tps = append(tps, n.Name+" "+types.ExprString(fl.Type))
			}
		}
		s = "[" + strings.Join(tps, ", ") + "]"
	}
	var ps []string
	if fd.Type.Params != nil {
		for _, fl := range fd.Type.Params.List {
			k := len(fl.Names)
			if k == 0 {
				k = 1
			}
			for i := 0; i < k; i++ {
				ps = append(ps, types.ExprString(fl.Type))
			}
		}
	}
	s += "(" + strings.Join(ps, ", ") + ")"
	if fd.Type.Results != nil && len(fd.Type.Results.List) > 0 {
		s += " " + types.ExprString(fd.Type.Results.List[0].Type)
	}
	return s
}

// c02ExternalGenerics: functions whose parameters have an EXTERNAL generic type (dict.Dict<K, V> of
// pkg_all.foi): every dict function wrapped directly, piped into a consumer, and two of them combined, x every
// subset of parameter annotations.  A type variable may then occur ONLY inside the type arguments of the
// external type (has d (k:string) = dict.ContainsKey d k: V) - it still is a type parameter of the function.
// Domain rule: a key type that stays a type variable needs Go's `comparable` constraint, which Folang does not
// express (documented: "type constraints are not supported"); such variants are counted, not judged.
func c02ExternalGenerics(c *core.Ctx, sc *impl.Scratch, fc string, foi string) {
	V := func(n string) fo.Expr { return fo.Var{Name: n} }
	app := func(f string, a ...fo.Expr) fo.Expr { return fo.App{Fn: f, Args: a} }
	pipe := func(l, r fo.Expr) fo.Expr { return fo.BinOp{Op: "|>", L: l, R: r} }
	D := fo.Param{Name: "d", Type: "dict.Dict<string, int>"}
	D2 := fo.Param{Name: "e", Type: "dict.Dict<int, string>"}
	K := fo.Param{Name: "k", Type: "string"}
	Vp := fo.Param{Name: "v", Type: "int"}
	type shape struct {
		ps   []fo.Param
		body *fo.Block
	}
	shapes := []shape{
		{[]fo.Param{D, K, Vp}, fo.B(app("dict.Add", V("d"), V("k"), V("v")))},
		{[]fo.Param{D, K}, fo.B(app("dict.ContainsKey", V("d"), V("k")))},
		{[]fo.Param{D, K}, fo.B(app("dict.TryFind", V("d"), V("k")))},
		{[]fo.Param{D, K}, fo.B(app("dict.Item", V("d"), V("k")))},
		{[]fo.Param{D}, fo.B(app("dict.KVs", V("d")))},
		{[]fo.Param{D}, fo.B(app("dict.Keys", V("d")))},
		{[]fo.Param{D}, fo.B(app("dict.Values", V("d")))},
		{[]fo.Param{D}, fo.B(pipe(app("dict.Keys", V("d")), V("slice.Length")))},
		{[]fo.Param{D}, fo.B(pipe(app("dict.Values", V("d")), V("slice.Length")))},
		{[]fo.Param{D}, fo.B(pipe(app("dict.KVs", V("d")), V("slice.IsEmpty")))},
		{[]fo.Param{D, K}, fo.B(fo.BinOp{Op: "+", L: app("dict.Item", V("d"), V("k")), R: fo.IntLit{V: 1}})},
		{[]fo.Param{D, K}, &fo.Block{Stmts: []fo.Stmt{fo.LetDestr{Names: []string{"x", "_"}, Rhs: app("dict.TryFind", V("d"), V("k"))}}, Final: V("x")}},
		{[]fo.Param{D, K}, &fo.Block{Stmts: []fo.Stmt{fo.LetDestr{Names: []string{"_", "ok"}, Rhs: app("dict.TryFind", V("d"), V("k"))}}, Final: V("ok")}},
		{[]fo.Param{D, D2}, fo.B(fo.Tuple{Es: []fo.Expr{app("dict.Keys", V("d")), app("dict.Values", V("e"))}})},
		{[]fo.Param{D, D2}, fo.B(fo.Tuple{Es: []fo.Expr{pipe(app("dict.Values", V("d")), V("slice.Length")), pipe(app("dict.Keys", V("e")), V("slice.Length"))}})},
		{[]fo.Param{D, D2, K}, fo.B(fo.BinOp{Op: "&&", L: app("dict.ContainsKey", V("d"), V("k")), R: pipe(app("dict.Keys", V("e")), V("slice.IsEmpty"))})},
		{[]fo.Param{{Name: "ps", Type: "[](string*int)"}}, fo.B(app("dict.ToDict", V("ps")))},
		{[]fo.Param{{Name: "ps", Type: "[](string*int)"}, K}, fo.B(app("dict.ContainsKey", app("dict.ToDict", V("ps")), V("k")))},
		{[]fo.Param{D, {Name: "ds", Type: "[]dict.Dict<string, int>"}}, fo.B(pipe(fo.SliceLit{Es: []fo.Expr{V("d"), app("slice.Head", V("ds"))}}, V("slice.Length")))},
	}
	env := &gobatch.Env{Sc: sc, FC: fc, FCArgs: []string{sc.PkgAllFoi()}, Prelude: fo.Prelude, NoRunMain: true}
	gens := map[string][2]string{}
	var gmu sync.Mutex
	env.OnGen = func(gen string) {
		gmu.Lock()
		for k, v := range c02ExtractFuncs(gen) {
			gens[k] = v
		}
		gmu.Unlock()
	}
	type item struct {
		name, src, want  string
		comparableNeeded bool
	}
	var items []item
	var progs []gobatch.Prog
	n := 0
	for _, sh := range shapes {
		for mask := 0; mask < 1<<len(sh.ps); mask++ {
			d := fo.FuncDef{Name: fmt.Sprintf("f_%d", 800000+n), Body: sh.body}
			n++
			for i, p := range sh.ps {
				if mask&(1<<i) != 0 {
					p.Type = ""
				}
				d.Params = append(d.Params, p)
			}
			in := c02Inferer(foi)
			ft, err := in.InferFunc(d)
			if err != nil {
				panic("c02 external generics: " + err.Error())
			}
			src := strings.Join(fo.NewPrinter(nil).Def(d), "\n") + "\n"
			it := item{name: d.Name, src: src, want: fo.GoSig(ft, false)}
			it.comparableNeeded = regexp.MustCompile(`dict\.Dict\[T\d+,`).MatchString(it.want)
			items = append(items, it)
			progs = append(progs, gobatch.Prog{Defs: src + fmt.Sprintf("\nlet run_%s () =\n  say \"x\"\n", d.Name), Run: "run_" + d.Name})
		}
	}
	res := env.Run(progs)
	for i, it := range items {
		c.Count(1, 1, 1, 1)
		c.DistinctNT(it.src, true)
		c.Hist("by_construct", "external-generic-type", 1)
		g := gens[it.name]
		rep := map[string]any{"input": map[string]string{"t.fo": fo.Prelude + it.src}, "definition": it.src, "expected": it.want, "observed": res[i].Status + " " + g[0] + " " + trunc(res[i].Detail, 600)}
		if it.comparableNeeded {
			// the signature is still judged when fc accepted the definition; only the Go build is outside the promises
			c.AddInt("external_generic_key_type_undetermined (needs comparable: build not judged)", 1)
			if res[i].Status == "fc-reject" {
				c.Violation("C02:external-generic:fc-reject", fmt.Sprintf("fc rejects %s\n%s", firstLines(res[i].Detail, 2), it.src), rep)
				continue
			}
			if g[0] != "" && g[0] != it.want {
				c.Violation("C02:external-generic:signature", fmt.Sprintf("emitted signature %s, principal type %s\n%s", g[0], it.want, it.src), rep)
				continue
			}
			c.Outcome("agree")
			continue
		}
		if res[i].Status == "go-build" && strings.Contains(res[i].Detail, "does not satisfy comparable") && (g[0] == "" || g[0] == it.want) {
			// the undetermined key type is hidden inside the body (dict.ToDict ps): same documented limit
			c.AddInt("external_generic_key_type_undetermined (needs comparable: build not judged)", 1)
			c.Outcome("agree")
			continue
		}
		if res[i].Status != "ok" {
			c.Violation("C02:external-generic:"+res[i].Status, fmt.Sprintf("%s %s (principal type %s)\n%s", res[i].Status, firstLines(res[i].Detail, 2), it.want, it.src), rep)
			continue
		}
		if g[0] != it.want {
			c.Violation("C02:external-generic:signature", fmt.Sprintf("emitted signature %s, principal type %s\n%s", g[0], it.want, it.src), rep)
			continue
		}
		c.Outcome("agree")
	}
	c.Set("external_generic_functions", len(items))
}

// c02ResultFirst: type variables that occur in NO parameter and first occur in the result: n = 2..3 identity
// lambdas bound by lets in every order, returned as a tuple in a fixed order, plain or wrapped (Some .., [..],
// a pair with a parameter in front).  "Numbered by first occurrence in the parameter list, then the result" must
// not follow the order in which the body introduced them.
func c02ResultFirst(c *core.Ctx, sc *impl.Scratch, fc string, foi string) {
	V := func(n string) fo.Expr { return fo.Var{Name: n} }
	perms := func(n int) [][]int {
		var out [][]int
		var rec func(cur []int, used []bool)
		rec = func(cur []int, used []bool) {
			if len(cur) == n {
				out = append(out, append([]int{}, cur...))
				return
			}
			for i := 0; i < n; i++ {
				if !used[i] {
					used[i] = true
					rec(append(cur, i), used)
					used[i] = false
				}
			}
		}
		rec(nil, make([]bool, n))
		return out
	}
	// "phantom": a generic union whose type parameter no case mentions stands between the lambdas - its variable
	// occurs in the type arguments only (signature judged; Go cannot infer the constructor's T: build not judged)
	// "record-swapped" / "union-swapped": a generic record / union whose fields / cases mention the type parameters in
	// another order than its parameter list (Pr2<A, B> = {Rr: B; Ll: A}): numbering follows the type as WRITTEN
	wrappers := []string{"plain", "Some", "slice", "pair-with-parameter", "Some-and-plain", "phantom", "record-swapped", "union-swapped"}
	var defs []fo.FuncDef
	k := 0
	for n := 2; n <= 3; n++ {
		for _, pm := range perms(n) {
			for wi, w := range wrappers {
				var stmts []fo.Stmt
				for _, i := range pm {
					stmts = append(stmts, fo.Let{Name: fmt.Sprintf("h%d", i), Rhs: fo.Lambda{Params: []fo.Param{{Name: fmt.Sprintf("x%d", i)}}, Body: fo.B(V(fmt.Sprintf("x%d", i)))}})
				}
				var es []fo.Expr
				for i := 0; i < n; i++ {
					h := V(fmt.Sprintf("h%d", i))
					switch w {
					case "Some":
						es = append(es, fo.Ctor{Case: "Some", Arg: h})
					case "slice":
						es = append(es, fo.SliceLit{Es: []fo.Expr{h}})
					case "Some-and-plain":
						if i%2 == 0 {
							es = append(es, fo.Ctor{Case: "Some", Arg: h})
						} else {
							es = append(es, h)
						}
					default:
						es = append(es, h)
					}
				}
				if w == "record-swapped" || w == "union-swapped" {
					if n == 3 {
						continue
					}
					if w == "record-swapped" {
						es = []fo.Expr{fo.RecordLit{Rec: "Pr2", Fields: []fo.FieldInit{{Name: "Ll", E: es[0]}, {Name: "Rr", E: es[1]}}}, fo.IntLit{V: 1}}
					} else {
						es = []fo.Expr{fo.Ctor{Case: "Ok2", Arg: es[0]}, fo.Ctor{Case: "Er2", Arg: es[1]}}
					}
				}
				if w == "phantom" {
					if n == 3 {
						continue
					}
					es = []fo.Expr{es[0], fo.Ctor{Case: "TagA", UnitCall: true}, es[1]}
				}
				d := fo.FuncDef{Name: fmt.Sprintf("f_%d", 700000+k), Params: []fo.Param{{Unit: true}}}
				k++
				if w == "pair-with-parameter" {
					d.Params = []fo.Param{{Name: "a"}}
					if n == 3 {
						continue // a 4-tuple does not exist
					}
					es = append([]fo.Expr{V("a")}, es...)
				}
				_ = wi
				d.Body = &fo.Block{Stmts: stmts, Final: fo.Tuple{Es: es}}
				defs = append(defs, d)
			}
		}
	}
	env := &gobatch.Env{Sc: sc, FC: fc, FCArgs: []string{sc.PkgAllFoi()}, Prelude: fo.Prelude, NoRunMain: true}
	gens := map[string][2]string{}
	var gmu sync.Mutex
	env.OnGen = func(gen string) {
		gmu.Lock()
		for k, v := range c02ExtractFuncs(gen) {
			gens[k] = v
		}
		gmu.Unlock()
	}
	var progs []gobatch.Prog
	var wants, srcs []string
	for _, d := range defs {
		in := c02Inferer(foi)
		ft, err := in.InferFunc(d)
		if err != nil {
			panic("c02 result-first: " + d.Name + ": " + err.Error())
		}
		unitParam := len(d.Params) == 1 && d.Params[0].Unit
		wants = append(wants, fo.GoSig(ft, unitParam))
		src := strings.Join(fo.NewPrinter(nil).Def(d), "\n") + "\n"
		srcs = append(srcs, src)
		progs = append(progs, gobatch.Prog{Defs: src + fmt.Sprintf("\nlet run_%s () =\n  say \"x\"\n", d.Name), Run: "run_" + d.Name})
	}
	res := env.Run(progs)
	for i, d := range defs {
		c.Count(1, 1, 1, 1)
		c.DistinctNT(srcs[i], true)
		c.Hist("by_construct", "result-first-type-variables", 1)
		g := gens[d.Name]
		rep := map[string]any{"input": map[string]string{"t.fo": fo.Prelude + srcs[i]}, "definition": srcs[i], "expected": wants[i], "observed": res[i].Status + " " + g[0] + " " + trunc(res[i].Detail, 600)}
		if res[i].Status == "go-build" && strings.Contains(res[i].Detail, "cannot infer ") && g[0] == wants[i] {
			// a constructor of a generic union whose other type parameter nothing determines (TagA (), Ok2 h): fc
			// writes it without type arguments and Go cannot infer them - the documented "may be omitted where
			// inference determines them" does not apply; the signature is right, the build is not judged
			c.AddInt("constructor_without_type_arguments (Go cannot infer: build not judged)", 1)
			c.Outcome("agree")
			continue
		}
		if res[i].Status != "ok" {
			c.Violation("C02:result-first:"+res[i].Status, fmt.Sprintf("%s %s (principal type %s)\n%s", res[i].Status, firstLines(res[i].Detail, 2), wants[i], srcs[i]), rep)
			continue
		}
		if g[0] != wants[i] {
			c.Violation("C02:result-first:signature", fmt.Sprintf("emitted signature %s, principal type %s\n%s", g[0], wants[i], srcs[i]), rep)
			continue
		}
		c.Outcome("agree")
	}
	c.Set("result_first_functions", len(defs))
}

// c02Corpus: shapes the fuel bound does not reach.
func c02Corpus(c *core.Ctx, sc *impl.Scratch, fc string, foi string) {
	V := func(n string) fo.Expr { return fo.Var{Name: n} }
	T := func(es ...fo.Expr) fo.Expr { return fo.Tuple{Es: es} }
	var ps []fo.Param
	names := []string{"a", "b", "c", "d", "e", "f", "g", "h", "i", "j", "k", "l"}
	for _, n := range names {
		ps = append(ps, fo.Param{Name: n})
	}
	defs := []fo.FuncDef{
		{Name: "f_900001", Params: ps, Body: fo.B(T(T(V("a"), V("b"), V("c")), T(V("d"), V("e"), V("f")), T(T(V("g"), V("h"), V("i")), T(V("j"), V("k"), V("l")))))},
		// compose / flip / applyPair
		{Name: "f_900002", Params: []fo.Param{{Name: "f"}, {Name: "g"}, {Name: "x"}}, Body: fo.B(fo.App{Fn: "g", Args: []fo.Expr{fo.App{Fn: "f", Args: []fo.Expr{V("x")}}}})},
		{Name: "f_900003", Params: []fo.Param{{Name: "f"}, {Name: "a"}, {Name: "b"}}, Body: fo.B(fo.App{Fn: "f", Args: []fo.Expr{V("b"), V("a")}})},
		{Name: "f_900004", Params: []fo.Param{{Name: "fn"}, {Name: "tup"}}, Body: &fo.Block{Stmts: []fo.Stmt{fo.Let{Name: "nl", Rhs: fo.BinOp{Op: "|>", L: fo.App{Fn: "frt.Fst", Args: []fo.Expr{V("tup")}}, R: V("fn")}}},
			Final: T(V("nl"), fo.App{Fn: "frt.Snd", Args: []fo.Expr{V("tup")}})}},
		// chains of type variables through slices and tuples
		{Name: "f_900005", Params: []fo.Param{{Name: "a"}, {Name: "b"}, {Name: "c"}}, Body: &fo.Block{Stmts: []fo.Stmt{fo.Let{Name: "x", Rhs: fo.SliceLit{Es: []fo.Expr{V("a"), V("b")}}}, fo.Let{Name: "y", Rhs: fo.SliceLit{Es: []fo.Expr{V("b"), V("c")}}}},
			Final: T(V("x"), fo.App{Fn: "slice.Length", Args: []fo.Expr{V("y")}})}},
		{Name: "f_900006", Params: []fo.Param{{Name: "s"}}, Body: fo.B(fo.App{Fn: "slice.Item", Args: []fo.Expr{fo.IntLit{V: 2}, V("s")}})},
		{Name: "f_900007", Params: []fo.Param{{Name: "a"}}, Body: fo.B(fo.BinOp{Op: "+", L: V("a"), R: fo.IntLit{V: 10}})},
		{Name: "f_900008", Params: []fo.Param{{Name: "f"}, {Name: "xs"}}, Body: fo.B(fo.BinOp{Op: "|>", L: fo.App{Fn: "slice.Map", Args: []fo.Expr{V("f"), V("xs")}}, R: V("slice.Length")})},
		// inner binders with the NAME of an un-annotated parameter (after seeds C02j / C03h / C09i: a scope that outlives its
		// construct): the parameter stays as general as the body leaves it, whatever the inner binder is unified with
		{Name: "f_900009", Params: []fo.Param{{Name: "x"}, {Name: "ys"}}, Body: &fo.Block{Stmts: []fo.Stmt{fo.Let{Name: "zs", Rhs: fo.App{Fn: "slice.Map", Args: []fo.Expr{fo.Lambda{Params: []fo.Param{{Name: "x"}}, Body: fo.B(fo.BinOp{Op: "+", L: V("x"), R: fo.IntLit{V: 1}})}, V("ys")}}}},
			Final: T(V("x"), V("zs"))}},
		{Name: "f_900010", Params: []fo.Param{{Name: "x"}, {Name: "u", Type: "U"}}, Body: &fo.Block{Stmts: []fo.Stmt{fo.Let{Name: "m", Rhs: fo.Match{Target: V("u"), Arms: []fo.Arm{{Case: "I", Bind: "x", Body: fo.B(fo.BinOp{Op: "+", L: V("x"), R: fo.IntLit{V: 1}})}, {Case: "S", Bind: "_", Body: fo.B(fo.IntLit{V: 0})}, {Case: "N", Body: fo.B(fo.IntLit{V: 2})}}}}},
			Final: T(V("x"), V("m"))}},
		{Name: "f_900011", Params: []fo.Param{{Name: "x"}, {Name: "y"}}, Body: &fo.Block{Stmts: []fo.Stmt{fo.LetFun{Name: "g", Params: []fo.Param{{Name: "x", Type: "int"}}, Body: fo.B(fo.BinOp{Op: "+", L: V("x"), R: fo.IntLit{V: 1}})}, fo.Let{Name: "m", Rhs: fo.App{Fn: "g", Args: []fo.Expr{fo.IntLit{V: 1}}}}},
			Final: T(V("x"), V("y"), V("m"))}},
		{Name: "f_900012", Params: []fo.Param{{Name: "x"}, {Name: "s", Type: "string"}}, Body: &fo.Block{Stmts: []fo.Stmt{fo.Let{Name: "m", Rhs: fo.SMatch{Target: V("s"), Lits: []fo.SArm{{Lit: "a", Body: fo.B(fo.StrLit{V: "A"})}}, VarName: "x", Last: fo.B(fo.BinOp{Op: "+", L: V("x"), R: fo.StrLit{V: "!"}})}}},
			Final: T(V("x"), V("m"))}},
	}
	env := &gobatch.Env{Sc: sc, FC: fc, FCArgs: []string{sc.PkgAllFoi()}, Prelude: fo.Prelude, NoRunMain: true}
	gens := map[string][2]string{}
	env.OnGen = func(gen string) {
		for k, v := range c02ExtractFuncs(gen) {
			gens[k] = v
		}
	}
	var progs []gobatch.Prog
	var wants []string
	var srcs []string
	for _, d := range defs {
		in := c02Inferer(foi)
		ft, err := in.InferFunc(d)
		if err != nil {
			panic("c02 corpus: " + d.Name + ": " + err.Error())
		}
		wants = append(wants, fo.GoSig(ft, false))
		src := strings.Join(fo.NewPrinter(nil).Def(d), "\n") + "\n"
		srcs = append(srcs, src)
		progs = append(progs, gobatch.Prog{Defs: src + fmt.Sprintf("\nlet run_%s () =\n  say \"x\"\n", d.Name), Run: "run_" + d.Name})
	}
	res := env.Run(progs)
	for i, d := range defs {
		c.Count(1, 1, 1, 1)
		c.DistinctNT(srcs[i], true)
		c.Hist("by_construct", "corpus", 1)
		g := gens[d.Name]
		rep := map[string]any{"input": map[string]string{"t.fo": fo.Prelude + srcs[i]}, "definition": srcs[i], "expected": wants[i], "observed": res[i].Status + " " + g[0] + " " + trunc(res[i].Detail, 600)}
		if res[i].Status != "ok" {
			c.Violation("C02:corpus:"+d.Name, fmt.Sprintf("corpus definition %s: %s %s\n%s", d.Name, res[i].Status, firstLines(res[i].Detail, 2), srcs[i]), rep)
			continue
		}
		if g[0] != wants[i] {
			c.Violation("C02:corpus:"+d.Name, fmt.Sprintf("corpus definition %s: emitted signature %s, principal type %s\n%s", d.Name, g[0], wants[i], srcs[i]), rep)
			continue
		}
		c.Outcome("agree")
	}
}
