package main

import (
	"fmt"
	"os"
	"path/filepath"
	"strings"
	"sync"
	"time"

	"verif/internal/core"
	"verif/internal/explore"
	"verif/internal/impl"
)

// C18: build_sample_md renders every listed sample verbatim, in order.

func init() { register("C18", checkC18) }

type c18Entry struct {
	name    string
	line    string // the list line
	title   string // expected title
	content string
	missing bool
}

type c18Case struct {
	choices []int
	entries []c18Entry
	list    string
	fail    bool
	stale   int    // 0: no README.md before the run, 1: a short old one, 2: an old one longer than any rendering
	scale   string // non-empty: a case of the scale family (not produced by the explorer's driver)
	links   int    // 1: every sample is a symbolic link to a regular file, 2: the list file is one, 3: README.md exists as one
}

var c18Titles = []string{" Title", "", " Several words here", "  Double", " "}
var c18Contents = []string{"let a = 1\n", "", "no final newline", "text\n```\nfenced\n```\nend\n", "line1\n\nline3\n\n"}

func c18Driver(maxEntries int) func(c *explore.Chooser) *c18Case {
	return func(c *explore.Chooser) *c18Case {
		cs := &c18Case{}
		n := c.Choose(maxEntries + 1)
		for i := 0; i < n; i++ {
			e := c18Entry{name: []string{"s0.fo", "demo.fo", "s2.fo", "s3.fo"}[i]} // "demo": a stem ending in a letter of ".fo"
			if i == 0 {
				switch c.Choose(4) {
				case 3:
					e.name = "info.fo"
				case 1:
					e.name = "s0.txt" // no .fo suffix: base is the whole name
				case 2:
					e.name = "" // a line that is only blanks: names no file
				}
			}
			ti := c.Choose(len(c18Titles))
			if e.name == "" && ti == 1 {
				ti = 4 // an empty line is not an entry; use " "
			}
			e.line = e.name + c18Titles[ti]
			if i := strings.Index(e.line, " "); i >= 0 {
				e.title = e.line[i+1:]
			} else {
				e.title = e.line
			}
			if e.name == "" {
				e.missing = true
			} else {
				k := c.Choose(len(c18Contents) + 1)
				if k == len(c18Contents) {
					e.missing = true
				} else {
					e.content = c18Contents[k]
				}
			}
			if e.missing {
				cs.fail = true
			}
			cs.entries = append(cs.entries, e)
		}
		// blank lines: 0 none, 1 leading, 2 between, 3 trailing, 4 double between
		blank := c.Choose(5)
		finalNL := c.Choose(2) == 0
		var lines []string
		if blank == 1 {
			lines = append(lines, "")
		}
		for i, e := range cs.entries {
			if i > 0 && blank == 2 {
				lines = append(lines, "")
			}
			if i > 0 && blank == 4 {
				lines = append(lines, "", "")
			}
			lines = append(lines, e.line)
		}
		if blank == 3 {
			lines = append(lines, "")
		}
		cs.list = strings.Join(lines, "\n")
		if finalNL {
			cs.list += "\n"
		}
		// what is in the directory before the run (the tool is re-run in place after the list changed)
		cs.stale = c.Choose(3)
		return cs
	}
}

// c18SpecialCases: characters that mean something to a formatter, to Markdown or to a path, in the title, the
// content and the file name: every special title x every special content for a single entry, and as the
// first and as the second of two entries.  "Verbatim" and "the text after the first space" are about
// exactly these.
func c18SpecialCases() []*c18Case {
	titles := []string{" 100% pure", " verbs %s and %d %v", " %", " `code` *md* _u_ # not a heading", " <b>html</b> &amp;", " back\\slash \\n", " é ünï 日本", " tab\there", " ```", " a  b   c"}
	contents := []string{"100% %s %d %v %%\n", "`tick` ``two``\n", "# heading\n### h3\n", "back\\slash \\n \\t\n", "é ünï 日本\n", "\ttab and trailing blanks   \n", "\r\nCRLF\r\n", "[link](gen_x.go)\n"}
	names := []string{"s0.fo", "a-b_c.fo", "UPPER.fo", "x.y.fo", "fo.fo"}
	var out []*c18Case
	mk := func(ents []c18Entry, tag string) {
		cs := &c18Case{entries: ents, scale: tag}
		var lines []string
		for i := range cs.entries {
			e := &cs.entries[i]
			e.line = e.name + e.title
			if e.title == "" {
				e.title = e.name // no space in the line: the title is the file name
			} else {
				e.title = strings.TrimPrefix(e.title, " ")
			}
			lines = append(lines, e.line)
		}
		cs.list = strings.Join(lines, "\n") + "\n"
		out = append(out, cs)
	}
	for ti, t := range titles {
		for ci, ct := range contents {
			mk([]c18Entry{{name: "s0.fo", title: t, content: ct}}, fmt.Sprintf("special title=%d content=%d", ti, ci))
		}
		mk([]c18Entry{{name: "s0.fo", title: t, content: c18Contents[0]}, {name: "s1.fo", title: " Plain", content: c18Contents[3]}}, fmt.Sprintf("special title=%d first of two", ti))
		mk([]c18Entry{{name: "s0.fo", title: " Plain", content: c18Contents[3]}, {name: "s1.fo", title: t, content: c18Contents[0]}}, fmt.Sprintf("special title=%d second of two", ti))
	}
	for ni, n := range names {
		mk([]c18Entry{{name: n, title: " Named", content: c18Contents[0]}}, fmt.Sprintf("special name=%d with title", ni))
		mk([]c18Entry{{name: n, title: "", content: c18Contents[0]}}, fmt.Sprintf("special name=%d without title", ni))
	}
	// the files reached through symbolic links (after seed C18k: a "regular files only" guard using Lstat): the same
	// rendering as with plain files
	for links := 1; links <= 3; links++ {
		before := len(out)
		mk([]c18Entry{{name: "s0.fo", title: " Plain", content: c18Contents[0]}, {name: "s1.fo", title: "", content: c18Contents[3]}}, fmt.Sprintf("symbolic links kind %d", links))
		for _, cs := range out[before:] {
			cs.links = links
		}
	}
	return out
}

// c18ScaleCases: lists of 5..65 entries (thorough 200) x content sizes (small, 5 kB, 70 kB in one / in every
// entry) x a missing file at no / the first / a middle / the last position x what README.md was there
// before.  Every list of up to 2-3 entries is enumerated; a renderer that buffers, truncates or drops
// beyond a size, or that stops at the first of many errors in the wrong place, only shows here.
func c18ScaleCases(thorough bool) []*c18Case {
	sizes := []int{5, 9, 17, 33, 65}
	if thorough {
		sizes = append(sizes, 129, 200)
	}
	big := func(n int, tag string) string {
		var sb strings.Builder
		for sb.Len() < n {
			fmt.Fprintf(&sb, "// %s line %d of a long sample\nlet v%d = %d\n", tag, sb.Len(), sb.Len(), sb.Len())
		}
		return sb.String()
	}
	var out []*c18Case
	for _, n := range sizes {
		for contentKind := 0; contentKind < 4; contentKind++ {
			if contentKind == 3 && n > 33 {
				continue // 70 kB in every entry only for the shorter lists
			}
			for missing := 0; missing < 4; missing++ {
				for stale := 0; stale < 3; stale++ {
					if stale == 1 && (missing != 0 || contentKind != 0) {
						continue
					}
					cs := &c18Case{stale: stale}
					var lines []string
					for i := 0; i < n; i++ {
						e := c18Entry{name: fmt.Sprintf("e%03d.fo", i)}
						e.line = e.name + c18Titles[i%3]
						if j := strings.Index(e.line, " "); j >= 0 {
							e.title = e.line[j+1:]
						} else {
							e.title = e.line
						}
						e.content = c18Contents[i%len(c18Contents)]
						switch contentKind {
						case 1:
							if i == n/2 {
								e.content = big(5000, e.name)
							}
						case 2:
							if i == n/2 {
								e.content = big(70000, e.name)
							}
						case 3:
							e.content = big(70000, e.name)
						}
						if (missing == 1 && i == 0) || (missing == 2 && i == n/2+1) || (missing == 3 && i == n-1) {
							e.missing = true
							cs.fail = true
						}
						cs.entries = append(cs.entries, e)
						lines = append(lines, e.line)
					}
					cs.list = strings.Join(lines, "\n") + "\n"
					cs.scale = fmt.Sprintf("entries=%d content=%d missing=%d stale=%d", n, contentKind, missing, stale)
					out = append(out, cs)
				}
			}
		}
	}
	// one very large sample between two ordinary ones (after seed C18j: a reader with a silent size limit): sizes
	// around 64 KiB and 1 MiB and beyond, as many lines and as one line without a line end
	huge := []int{65535, 65536, 65537, 1<<20 - 1, 1 << 20, 1<<20 + 1, 3 << 20}
	if thorough {
		huge = append(huge, 16<<20)
	}
	for _, n := range huge {
		for oneLine := 0; oneLine < 2; oneLine++ {
			content := big(n, "huge")[:n]
			if oneLine == 1 {
				content = strings.Repeat("x", n)
			}
			cs := &c18Case{}
			var lines []string
			for i, cont := range []string{c18Contents[0], content, c18Contents[3]} {
				e := c18Entry{name: fmt.Sprintf("h%d.fo", i), content: cont}
				e.line = e.name + c18Titles[i%3]
				if j := strings.Index(e.line, " "); j >= 0 {
					e.title = e.line[j+1:]
				} else {
					e.title = e.line
				}
				cs.entries = append(cs.entries, e)
				lines = append(lines, e.line)
			}
			cs.list = strings.Join(lines, "\n") + "\n"
			cs.scale = fmt.Sprintf("huge sample of %d bytes (one line: %v)", n, oneLine == 1)
			out = append(out, cs)
		}
	}
	return out
}

// reference renderer, written from the statement; header learnt from the checked-in README
func c18Render(header string, entries []c18Entry) string {
	var secs []string
	for _, e := range entries {
		base := strings.TrimSuffix(e.name, ".fo")
		gen := "gen_" + base + ".go"
		secs = append(secs, fmt.Sprintf("### %s\n\n```\n%s\n```\n\ngenerated go: [%s](./%s)\n\n", e.title, e.content, gen, gen))
	}
	return header + strings.Join(secs, "\n")
}

// structural oracle: title, fenced verbatim content and link of every entry occur in list order after the header
func c18Structural(header, got string, entries []c18Entry) string {
	if !strings.HasPrefix(got, header) {
		return "README does not start with the fixed header"
	}
	pos := len(header)
	defer func() {}()
	for i, e := range entries {
		base := strings.TrimSuffix(e.name, ".fo")
		gen := "gen_" + base + ".go"
		for _, part := range []string{e.title, "```\n" + e.content, "```", gen, gen} { // the link names gen twice: [gen](./gen)
			j := strings.Index(got[pos:], part)
			if j < 0 {
				return fmt.Sprintf("section %d: %q not found in order", i, part)
			}
			pos += j + len(part)
		}
	}
	// nothing but the end of the last link line and blank lines may follow the last section
	if rest := strings.TrimLeft(got[pos:], ")\n "); len(entries) > 0 && rest != "" {
		return fmt.Sprintf("text after the last section: %q", trunc(rest, 60))
	}
	if len(entries) == 0 && strings.TrimSpace(got[pos:]) != "" {
		return fmt.Sprintf("text after the header of an empty list: %q", trunc(got[pos:], 60))
	}
	return ""
}

func checkC18(c *core.Ctx) {
	sc, err := impl.New(c.Repo)
	if err != nil {
		panic(err)
	}
	defer sc.Close()
	bsm, err := sc.BuildBSM()
	if err != nil {
		panic(err)
	}
	c.Set("rule", "list files are enumerated by the choice-tree explorer: number of entries, per entry name kind / title form (none, one word, several words, double space, trailing space) / file content (5 kinds) or missing file, blank-line pattern (none, leading, between, trailing, double), final newline; distinct = distinct (list text, file contents); non-trivial = at least one entry")
	// learn the header and calibrate the byte-exact renderer on the repository's own list
	readme, err := os.ReadFile(filepath.Join(sc.Src, "samples", "README.md"))
	if err != nil {
		panic(err)
	}
	hi := strings.Index(string(readme), "###")
	if hi < 0 {
		hi = len(readme)
	}
	header := string(readme[:hi])
	exact := false
	{
		fl, _ := os.ReadFile(filepath.Join(sc.Src, "samples", "filelist.txt"))
		var ents []c18Entry
		for _, ln := range strings.Split(string(fl), "\n") {
			if ln == "" {
				continue
			}
			e := c18Entry{line: ln}
			if i := strings.Index(ln, " "); i >= 0 {
				e.name, e.title = ln[:i], ln[i+1:]
			} else {
				e.name, e.title = ln, ln
			}
			b, _ := os.ReadFile(filepath.Join(sc.Src, "samples", e.name))
			e.content = string(b)
			ents = append(ents, e)
		}
		exact = c18Render(header, ents) == string(readme)
		c.Set("reference_renderer_reproduces_checked_in_README", exact)
		if !exact {
			c.Note("the byte-exact reference renderer does not reproduce samples/README.md from samples/filelist.txt (format changed?); only the structural oracle (header, then title / fenced verbatim content / link of every entry in list order) is applied")
		}
		c.Count(1, 0, 0, 1)
	}
	c.Assumption("the fixed header is whatever precedes the first section of the checked-in samples/README.md")
	if c.ReplayFile != "" {
		c.NotExhaustive("replay")
	}
	maxE := 2
	if c.Thorough() {
		maxE = 3
	}
	drv := c18Driver(maxE)
	jobs := make(chan *c18Case, 256)
	var wg sync.WaitGroup
	for w := 0; w < c.Workers; w++ {
		wg.Add(1)
		go func() {
			defer wg.Done()
			for cs := range jobs {
				if c.TooManyViolations() {
					continue
				}
				c18RunOne(c, sc, bsm, header, exact, cs)
			}
		}()
	}
	if c.ReplayFile != "" {
		rp, err := loadReplay(c.ReplayFile)
		if err != nil {
			panic(err)
		}
		var cur *c18Case
		ch := explore.Replay(rp.Choices, func(ch *explore.Chooser) { cur = drv(ch) })
		if ch != nil {
			cur.choices = rp.Choices
			jobs <- cur
		}
	} else {
		// first the hand-kept special and scale families (a deadline then cuts only the tail of the enumeration)
		scs := append(c18SpecialCases(), c18ScaleCases(c.Thorough())...)
		for _, cs := range scs {
			if c.Expired() {
				c.NotExhaustive("scale family not completed")
				break
			}
			jobs <- cs
		}
		c.Set("scale_family_cases", len(scs))
		var cur *c18Case
		st := explore.Explore(-1, func(ch *explore.Chooser) { cur = drv(ch) }, func(ch *explore.Chooser) bool {
			cur.choices = append([]int{}, ch.Choices...)
			if c.Expired() {
				return false
			}
			jobs <- cur
			return true
		})
		c.Count(0, st.States, st.Transitions, 0)
		c.Set("explorer", map[string]any{"executions": st.Executions, "max_depth": st.MaxDepth, "stopped_early": st.Stopped})
	}
	close(jobs)
	wg.Wait()
	c.Set("max_entries", maxE)
}

func c18RunOne(c *core.Ctx, sc *impl.Scratch, bsm, header string, exact bool, cs *c18Case) {
	dir := sc.TempDir("c18_")
	defer os.RemoveAll(dir)
	files := map[string]string{"list.txt": cs.list}
	if cs.links == 2 {
		os.WriteFile(filepath.Join(dir, "the_real_list.txt"), []byte(cs.list), 0o644)
		os.Symlink("the_real_list.txt", filepath.Join(dir, "list.txt"))
	} else {
		os.WriteFile(filepath.Join(dir, "list.txt"), []byte(cs.list), 0o644)
	}
	var present []c18Entry
	for _, e := range cs.entries {
		if !e.missing {
			if cs.links == 1 {
				os.WriteFile(filepath.Join(dir, "real_"+e.name), []byte(e.content), 0o644)
				os.Symlink("real_"+e.name, filepath.Join(dir, e.name))
			} else {
				os.WriteFile(filepath.Join(dir, e.name), []byte(e.content), 0o644)
			}
			files[e.name] = e.content
		}
		present = append(present, e)
	}
	if cs.links == 3 {
		os.WriteFile(filepath.Join(dir, "readme_target.md"), []byte("old\n"), 0o644)
		os.Symlink("readme_target.md", filepath.Join(dir, "README.md"))
	}
	if cs.links != 0 {
		files["(symbolic links)"] = []string{"", "every sample is a link to real_<name>", "list.txt is a link", "README.md exists as a link to a regular file"}[cs.links]
	}
	staleText := ""
	switch cs.stale {
	case 1:
		staleText = "old\n"
	case 2:
		staleText = strings.Repeat("### stale section of an entry that is no longer listed\n\n```\nold\n```\n\n", 60)
		if cs.scale != "" {
			total := 0
			for _, e := range cs.entries {
				total += len(e.content) + 200
			}
			staleText = strings.Repeat(staleText, 1+total/len(staleText))
		}
	}
	if cs.stale != 0 {
		os.WriteFile(filepath.Join(dir, "README.md"), []byte(staleText), 0o644)
		files["README.md (before the run)"] = trunc(staleText, 80)
	}
	r := impl.RunWithRetry(dir, 20*time.Second, 60*time.Second, bsm, filepath.Join(dir, "list.txt"))
	gotB, rerr := os.ReadFile(filepath.Join(dir, "README.md"))
	got := string(gotB)
	if cs.fail && cs.stale != 0 && rerr == nil && got == staleText {
		// a failed run must leave the old file alone: same as "not written"
		rerr = os.ErrNotExist
	}
	c.Count(1, 0, 0, 1)
	if cs.scale != "" {
		c.DistinctNT("scale:"+cs.scale, true)
	} else {
		c.DistinctNT(fmt.Sprint(files), len(cs.entries) >= 1)
	}
	c.Hist("by_entries", fmt.Sprint(len(cs.entries)), 1)
	exp := "renders"
	if cs.fail {
		exp = "fails"
	}
	c.Hist("expected", exp, 1)
	if cs.scale == "" {
		c.Sample(map[string]any{"list": cs.list, "files": files, "expected": exp})
	}
	rep := func(obs string) map[string]any {
		if cs.scale != "" {
			small := map[string]string{"list.txt": trunc(cs.list, 400)}
			return map[string]any{"scale_case": cs.scale, "input": small, "expected": exp, "observed": trunc(obs, 2000)}
		}
		return map[string]any{"choices": cs.choices, "input": files, "expected": exp, "observed": obs}
	}
	if r.TimedOut {
		c.Violation("C18:hang", "build_sample_md did not terminate", rep("timeout"))
		return
	}
	if cs.fail {
		if r.Exit == 0 {
			c.Outcome("missing-file-but-exit-0")
			c.Violation("C18:missing-file-exit-0", "a listed file cannot be read but the tool exits 0", rep(fmt.Sprintf("exit=0 readme_written=%v", rerr == nil)))
			return
		}
		if rerr == nil {
			c.Outcome("missing-file-but-readme-written")
			c.Violation("C18:missing-file-partial-output", "a listed file cannot be read but README.md was written", rep("README.md: "+got))
			return
		}
		c.Outcome("failed-as-specified")
		return
	}
	if r.Exit != 0 || rerr != nil {
		c.Outcome("unexpected-failure")
		c.Violation("C18:unexpected-failure", fmt.Sprintf("all listed files exist but the tool failed: exit=%d %s", r.Exit, firstLines(r.Out(), 3)), rep(r.Out()))
		return
	}
	if msg := c18Structural(header, got, present); msg != "" {
		c.Outcome("structure-mismatch")
		c.Violation("C18:structure", "README.md lacks a required part: "+msg, rep(got))
		return
	}
	if exact {
		want := c18Render(header, present)
		if got != want {
			c.Outcome("bytes-mismatch")
			c.Violation("C18:bytes", "README.md differs from the reference rendering: "+firstDiff(want, got), rep(got))
			return
		}
	}
	c.Outcome("rendered-as-specified")
}
