package main

import (
	"fmt"
	"os"
	"sort"
	"strings"

	"verif/internal/core"
	"verif/internal/fo"
	"verif/internal/gobatch"
	"verif/internal/impl"
)

// foi conformance (part of C13/C14): every function declared in the working tree's
// pkg/pkg_all.foi is called once from Folang with arguments of the declared types and
// the result used at the declared type; the batch must transpile and compile against
// the real Go packages.  A signature in the .foi that does not match the Go function
// (swapped parameters, wrong result, wrong arity) fails here.

// c14Value writes a Folang expression of type t (type variables already instantiated).
func c14Value(t *fo.Ty, depth int) (string, bool) {
	switch t.Kind {
	case fo.KCon:
		switch t.Name {
		case "int":
			return "1", true
		case "string":
			return `"s"`, true
		case "bool":
			return "true", true
		case "unit":
			return "()", true
		case "Buffer", "buf.Buffer":
			return "(buf.New ())", true
		case "Dict", "dict.Dict":
			if len(t.Args) == 2 {
				return "(dict.New<" + c14TypeText(t.Args[0]) + ", " + c14TypeText(t.Args[1]) + "> ())", true
			}
		}
		return "", false
	case fo.KSlice:
		v, ok := c14Value(t.Args[0], depth+1)
		if !ok {
			return "", false
		}
		return "[" + v + "]", true
	case fo.KTuple:
		var parts []string
		for _, a := range t.Args {
			v, ok := c14Value(a, depth+1)
			if !ok {
				return "", false
			}
			parts = append(parts, v)
		}
		return "(" + strings.Join(parts, ", ") + ")", true
	case fo.KFun:
		var ps []string
		for i, a := range t.Args[:len(t.Args)-1] {
			if a.Kind == fo.KCon && a.Name == "unit" {
				ps = append(ps, "()")
			} else {
				ps = append(ps, fmt.Sprintf("(x%d_%d:%s)", depth, i, c14TypeText(a)))
			}
		}
		r := t.Args[len(t.Args)-1]
		rv, ok := c14Value(r, depth+1)
		if !ok {
			return "", false
		}
		if r.Kind == fo.KCon && r.Name == "unit" {
			rv = `frt.Println "u"`
		}
		return "(fun " + strings.Join(ps, " ") + " -> " + rv + ")", true
	}
	return "", false
}

// c14Qual: external type name -> package-qualified name (read from the .foi's `type` lines)
var c14Qual = map[string]string{}

func c14TypeText(t *fo.Ty) string {
	switch t.Kind {
	case fo.KCon:
		if t.Name == "unit" {
			return "()"
		}
		if q, ok := c14Qual[t.Name]; ok {
			t = &fo.Ty{Kind: fo.KCon, Name: q, Args: t.Args}
		}
		if len(t.Args) == 0 {
			return t.Name
		}
		var parts []string
		for _, a := range t.Args {
			parts = append(parts, c14TypeText(a))
		}
		return t.Name + "<" + strings.Join(parts, ", ") + ">"
	case fo.KSlice:
		e := c14TypeText(t.Args[0])
		if t.Args[0].Kind == fo.KTuple || t.Args[0].Kind == fo.KFun {
			e = "(" + e + ")" // [] binds tighter than * and ->
		}
		return "[]" + e
	case fo.KTuple:
		var parts []string
		for _, a := range t.Args {
			s := c14TypeText(a)
			if a.Kind == fo.KTuple || a.Kind == fo.KFun {
				s = "(" + s + ")"
			}
			parts = append(parts, s)
		}
		return strings.Join(parts, "*")
	case fo.KFun:
		var parts []string
		for _, a := range t.Args {
			s := c14TypeText(a)
			if a.Kind == fo.KFun {
				s = "(" + s + ")"
			}
			parts = append(parts, s)
		}
		return strings.Join(parts, "->")
	}
	return "?"
}

// c14Subst instantiates the scheme's variables: int for element-like variables, string for dictionary keys.
func c14Subst(t *fo.Ty, m map[*fo.Ty]*fo.Ty) *fo.Ty {
	if r, ok := m[t]; ok {
		return r
	}
	if len(t.Args) == 0 {
		return t
	}
	n := &fo.Ty{Kind: t.Kind, Name: t.Name}
	for _, a := range t.Args {
		n.Args = append(n.Args, c14Subst(a, m))
	}
	return n
}

func c14FoiConformance(c *core.Ctx, sc *impl.Scratch) {
	fc, err := sc.BuildFC()
	if err != nil {
		panic(err)
	}
	foiB, err := os.ReadFile(sc.PkgAllFoi())
	if err != nil {
		panic(err)
	}
	in := &fo.Inferer{Globals: map[string]*fo.Scheme{}, Records: map[string]*fo.RecInfo{}, Ctors: map[string]*fo.CtorInfo{}}
	in.LoadFoi(string(foiB))
	{
		pkg := ""
		for _, ln := range strings.Split(string(foiB), "\n") {
			t := strings.TrimSpace(ln)
			if strings.HasPrefix(t, "package_info ") {
				pkg = strings.TrimSpace(strings.TrimSuffix(strings.TrimPrefix(t, "package_info "), "="))
			} else if strings.HasPrefix(t, "type ") && pkg != "" && pkg != "_" {
				name := strings.TrimSpace(strings.TrimPrefix(t, "type "))
				if i := strings.IndexAny(name, "< "); i >= 0 {
					name = name[:i]
				}
				c14Qual[name] = pkg + "." + name
			}
		}
	}
	var names []string
	for n := range in.Globals {
		names = append(names, n)
	}
	sort.Strings(names)
	skipPkg := map[string]bool{"sys": true}
	var progs []gobatch.Prog
	var used []string
	for _, n := range names {
		pkg := strings.SplitN(n, ".", 2)[0]
		if skipPkg[pkg] || n == "frt.Panic" || n == "frt.Panicf1" || n == "frt.Panicf2" || n == "frt.Assert" {
			continue // process-level effects; covered by the driver
		}
		s := in.Globals[n]
		m := map[*fo.Ty]*fo.Ty{}
		for i, v := range s.Vars {
			if pkg == "dict" && i == 0 {
				m[v] = fo.TString
			} else {
				m[v] = fo.TInt
			}
		}
		t := c14Subst(s.T, m)
		if t.Kind != fo.KFun {
			continue
		}
		var args []string
		ok := true
		for _, a := range t.Args[:len(t.Args)-1] {
			v, vok := c14Value(a, 0)
			if !vok {
				ok = false
			}
			args = append(args, v)
		}
		if !ok {
			c.Hist("foi_conformance", "skipped:"+n, 1)
			continue
		}
		res := t.Args[len(t.Args)-1]
		k := len(progs)
		head := n
		if len(s.Vars) > 0 && (n == "slice.New" || n == "dict.New" || n == "frt.Empty") {
			var tas []string
			for _, v := range s.Vars {
				tas = append(tas, c14TypeText(m[v]))
			}
			head = n + "<" + strings.Join(tas, ", ") + ">"
		}
		var sb strings.Builder
		// the result is bound through a function with an annotated result type: the declared type must fit
		if res.Kind == fo.KCon && res.Name == "unit" {
			fmt.Fprintf(&sb, "let use_%d () =\n  %s %s\n\n", k, head, strings.Join(args, " "))
		} else {
			fmt.Fprintf(&sb, "let use_%d () : %s =\n  %s %s\n\n", k, c14TypeText(res), head, strings.Join(args, " "))
		}
		fmt.Fprintf(&sb, "let run_%d () =\n  frt.Println \"x\"\n", k)
		progs = append(progs, gobatch.Prog{Defs: sb.String(), Run: fmt.Sprintf("run_%d", k)})
		used = append(used, n)
	}
	prelude := "package main\nimport frt\nimport slice\nimport strings\nimport dict\nimport buf\n\nlet zzUse () =\n  let d = dict.New<string, int> ()\n  dict.Add d \"k\" 1\n  let b = buf.New ()\n  buf.Write b \"x\"\n  [1] |> slice.Length |> frt.Sprintf1 \"%d\" |> strings.Length\n\n"
	env := &gobatch.Env{Sc: sc, FC: fc, FCArgs: []string{sc.PkgAllFoi()}, Prelude: prelude, NoRunMain: true}
	res := env.Run(progs)
	for i, r := range res {
		c.Count(1, 1, 1, 1)
		c.Hist("foi_conformance", "checked", 1)
		if r.Status == "ok" {
			continue
		}
		c.Violation("C14:foi-signature:"+used[i], fmt.Sprintf("the signature of %s in pkg/pkg_all.foi does not fit the Go function: %s %s\n%s", used[i], r.Status, firstLines(r.Detail, 3), progs[i].Defs),
			map[string]any{"function": used[i], "input": map[string]string{"t.fo": prelude + progs[i].Defs}, "observed": r.Status + " " + trunc(r.Detail, 1000)})
	}
	c.Set("foi_functions_checked", len(progs))
}
