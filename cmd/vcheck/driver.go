package main

import (
	"encoding/json"
	"fmt"
	"strings"
	"time"

	"verif/internal/core"
	"verif/internal/impl"
)

type drvReport struct {
	Evals      int64            `json:"evals"`
	States     int64            `json:"states"`
	Trans      int64            `json:"trans"`
	Validated  int64            `json:"validated"`
	Distinct   int64            `json:"distinct"`
	Nontrivial int64            `json:"nontrivial"`
	Exhaustive bool             `json:"exhaustive"`
	Notes      []string         `json:"notes"`
	Hist       map[string]int64 `json:"hist"`
	Outcomes   map[string]int64 `json:"outcomes"`
	Samples    []any            `json:"samples"`
	Violations []struct {
		Sig    string `json:"sig"`
		What   string `json:"what"`
		Replay any    `json:"replay"`
	} `json:"violations"`
	Extra  map[string]any   `json:"extra"`
	PerSig map[string]int64 `json:"violations_per_signature"`
}

// runDriver builds drivers/<name> against the scratch copy, runs it and merges
// its report into the context.
func runDriver(c *core.Ctx, sc *impl.Scratch, name string, extra map[string]string, timeout time.Duration, args ...string) *drvReport {
	bin, err := sc.BuildDriver(core.VerifDir, name, extra)
	if err != nil {
		panic(err)
	}
	r := impl.RunEnv(sc.Root, timeout, "", []string{"GOMAXPROCS=16"}, bin, args...)
	i := strings.LastIndex(r.Stdout, "\n@@REPORT ")
	if i < 0 {
		if r.TimedOut {
			c.NotExhaustive("driver " + name + " hit the harness timeout; nothing it did is counted")
			return nil
		}
		panic(fmt.Sprintf("driver %s produced no report: exit=%d\n%s\n%s", name, r.Exit, trunc(r.Stdout, 2000), trunc(r.Stderr, 4000)))
	}
	var rep drvReport
	js := r.Stdout[i+len("\n@@REPORT "):]
	if nl := strings.Index(js, "\n"); nl >= 0 {
		js = js[:nl]
	}
	if err := json.Unmarshal([]byte(js), &rep); err != nil {
		panic(fmt.Sprintf("driver %s report: %v", name, err))
	}
	c.Count(rep.Evals, rep.States, rep.Trans, rep.Validated)
	for k, v := range rep.Hist {
		if j := strings.Index(k, ":"); j > 0 {
			c.Hist("by_"+k[:j], k[j+1:], v)
		} else {
			c.Hist("hist", k, v)
		}
	}
	for k, v := range rep.Outcomes {
		for n := int64(0); n < v && n < 1; n++ {
			c.Outcome(k)
		}
		c.Hist("outcome_counts", k, v)
	}
	for _, s := range rep.Samples {
		c.Sample(s)
	}
	for k, v := range rep.Extra {
		c.Set(name+"_"+k, v)
	}
	for _, n := range rep.Notes {
		c.Note(n)
	}
	if !rep.Exhaustive {
		c.NotExhaustive("driver " + name + " reported a capped exploration")
	}
	c.AddNontrivial(rep.Distinct, rep.Nontrivial)
	for _, v := range rep.Violations {
		c.Violation(v.Sig, v.What, v.Replay)
	}
	return &rep
}
