package main

import (
	"fmt"
	"go/ast"
	"go/parser"
	"go/token"
	"os"
	"path/filepath"
	"regexp"
	"sort"
	"strings"
	"sync"
	"time"

	"verif/internal/core"
	"verif/internal/explore"
	"verif/internal/impl"
)

// C07: a definition's translation depends only on itself and what it references.

func init() { register("C07", checkC07) }

type c07Def struct {
	name     string
	src      string
	deps     []int
	owns     func(goName string) bool // which Go declarations belong to it
	declOnly bool                     // may live in a .foi file
	noOutput bool                     // emits no Go at all (package_info)
	context  bool                     // only a context for others: its own text legitimately depends on what precedes it (not compared)
}

// c07AmbiguityPool: two records with the same field-name set (an unqualified literal is resolved to the
// alphabetically first one that is declared at that point), a third whose fields contain theirs, and
// literals written before / after the second record exists.  gorigin's own resolution legitimately depends
// on whether Cz precedes it (context only); gmk and gmq come after both records and must not care what
// was resolved, cached or registered before them.
func c07AmbiguityPool() []c07Def {
	return []c07Def{
		/*0*/ {name: "Pz", src: "type Pz = {Xa: int; Ya: int}\n", owns: exact("Pz"), declOnly: true},
		/*1*/ {name: "Cz", src: "type Cz = {Xa: int; Ya: int}\n", owns: exact("Cz"), declOnly: true},
		/*2*/ {name: "gorigin", src: "let gorigin () =\n  {Xa=0; Ya=0}\n", deps: []int{0}, owns: exact("gorigin"), context: true},
		/*3*/ {name: "gmk", src: "let gmk (a:int) =\n  {Xa=a; Ya=a}\n", deps: []int{0, 1}, owns: exact("gmk")},
		/*4*/ {name: "gmq", src: "let gmq (a:int) =\n  let p = {Pz.Xa=a; Ya=a}\n  let c = {Ya=a; Xa=a}\n  (p, c)\n", deps: []int{0, 1}, owns: exact("gmq")},
		/*5*/ {name: "Az", src: "type Az = {Xa: int; Ya: int; Za: int}\n", owns: exact("Az"), declOnly: true},
		/*6*/ {name: "gaz", src: "let gaz () =\n  {Xa=1; Ya=2; Za=3}\n", deps: []int{5}, owns: exact("gaz")},
	}
}

// c07AmbiguityVariants: the same two records with their fields DECLARED in the other order (Ya before Xa) -
// every combination for Pz and Cz.  Whatever is remembered about a field-name set (sorted? in declaration
// order? in literal order?) must be found again from every spelling of the set.
func c07AmbiguityVariants() [][]c07Def {
	var out [][]c07Def
	decl := func(name string, swapped bool) string {
		if swapped {
			return "type " + name + " = {Ya: int; Xa: int}\n"
		}
		return "type " + name + " = {Xa: int; Ya: int}\n"
	}
	for v := 1; v < 4; v++ {
		out = append(out, []c07Def{
			{name: "Pz", src: decl("Pz", v&1 != 0), owns: exact("Pz"), declOnly: true},
			{name: "Cz", src: decl("Cz", v&2 != 0), owns: exact("Cz"), declOnly: true},
			{name: "gorigin", src: "let gorigin () =\n  {Xa=0; Ya=0}\n", deps: []int{0}, owns: exact("gorigin"), context: true},
			{name: "gorigin2", src: "let gorigin2 () =\n  {Ya=0; Xa=0}\n", deps: []int{0}, owns: exact("gorigin2"), context: true},
			{name: "gmk", src: "let gmk (a:int) =\n  {Xa=a; Ya=a}\n", deps: []int{0, 1}, owns: exact("gmk")},
			{name: "gmq", src: "let gmq (a:int) =\n  let p = {Pz.Xa=a; Ya=a}\n  let c = {Ya=a; Xa=a}\n  (p, c)\n", deps: []int{0, 1}, owns: exact("gmq")},
		})
	}
	return out
}

func prefixOwner(names ...string) func(string) bool {
	return func(n string) bool {
		for _, p := range names {
			if n == p || strings.HasPrefix(n, p+"_") || n == "New_"+p || strings.HasPrefix(n, "New_"+p+"_") {
				return true
			}
		}
		return false
	}
}

func exact(names ...string) func(string) bool {
	return func(n string) bool {
		for _, p := range names {
			if n == p {
				return true
			}
		}
		return false
	}
}

// c07InstantiationPool: one generic union at two instantiations inside one inferred type (gboth), a user
// that matches the second one (gusey) and an unrelated definition that merely mentions that instantiation
// (gother).  Whether the case table of Og<string> exists must not depend on gother having been seen.
func c07InstantiationPool() []c07Def {
	return []c07Def{
		/*0*/ {name: "Og", src: "type Og<T> =\n  | Sg of T\n  | Ng\n", owns: prefixOwner("Og"), declOnly: true},
		/*1*/ {name: "gboth", src: "let gboth a b =\n  (Sg a, Sg b)\n", deps: []int{0}, owns: exact("gboth")},
		/*2*/ {name: "gusey", src: "let gusey () =\n  let (_, y) = gboth 1 \"s\"\n  match y with\n  | Sg s -> s\n  | Ng -> \"\"\n", deps: []int{0, 1}, owns: exact("gusey")},
		/*3*/ {name: "gother", src: "let gother (o:Og<string>) =\n  1\n", deps: []int{0}, owns: exact("gother")},
		/*4*/ {name: "gusex", src: "let gusex () =\n  let (x, _) = gboth 1 \"s\"\n  match x with\n  | Sg i -> i\n  | Ng -> 0\n", deps: []int{0, 1}, owns: exact("gusex")},
		// a union whose payload type is declared later in its 'and' group; garea reaches it only through a
		// constructor and uses the payload, ground merely names the type
		/*5*/ {name: "ShPt", src: "type Sh =\n  | Ci of Pt\n  | Sq\nand Pt = {Px: int}\n", owns: prefixOwner("Sh", "Pt"), declOnly: true},
		/*6*/ {name: "garea", src: "let garea () =\n  let s = Ci {Px=3}\n  match s with\n  | Ci p -> p.Px\n  | Sq -> 0\n", deps: []int{5}, owns: exact("garea")},
		/*7*/ {name: "ground", src: "let ground (s:Sh) =\n  1\n", deps: []int{5}, owns: exact("ground")},
	}
}

// c07FieldAccessPool: definitions whose un-annotated parameter gets its type late (through a call) while a
// FIELD of it already instantiates a generic union / record: Sf p.Name, {V=p.Id; ...}.  Until the parameter is
// resolved the instantiation is "Of<typeof(p.Name)>"; tables kept per instantiation must tell such accesses
// apart and must not survive into the next definition (genuine defect 15a89b4, seed C07f).
func c07FieldAccessPool() []c07Def {
	return []c07Def{
		/*0*/ {name: "Pf", src: "type Pf = {Id: int; Name: string}\n", owns: exact("Pf"), declOnly: true},
		/*1*/ {name: "Of", src: "type Of<T> =\n  | Sf of T\n  | Nf\n", owns: prefixOwner("Of"), declOnly: true},
		/*2*/ {name: "Bf", src: "type Bf<T> = {V: T; N: int}\n", owns: exact("Bf"), declOnly: true},
		/*3*/ {name: "showPf", src: "let showPf (p: Pf) =\n  p.Name\n", deps: []int{0}, owns: exact("showPf")},
		/*4*/ {name: "pairUpf", src: "let pairUpf a b =\n  (Sf a, Sf b)\n", deps: []int{1}, owns: exact("pairUpf")},
		/*5*/ {name: "nameOptf", src: "let nameOptf p =\n  let o = Sf p.Name\n  let s = showPf p\n  match o with\n  | Sf v -> v + s\n  | Nf -> s\n", deps: []int{0, 1, 3}, owns: exact("nameOptf")},
		/*6*/ {name: "idOptf", src: "let idOptf p =\n  let r = pairUpf 1 p.Id\n  let (_, y) = r\n  let s = showPf p\n  match y with\n  | Sf v -> v\n  | Nf -> 0\n", deps: []int{0, 1, 3, 4}, owns: exact("idOptf")},
		/*7*/ {name: "nameBoxf", src: "let nameBoxf p =\n  let b = {V=p.Name; N=1}\n  let s = showPf p\n  b.V + s\n", deps: []int{0, 2, 3}, owns: exact("nameBoxf")},
		/*8*/ {name: "idBoxf", src: "let idBoxf p =\n  let b = {V=p.Id; N=2}\n  let s = showPf p\n  b.V\n", deps: []int{0, 2, 3}, owns: exact("idBoxf")},
	}
}

// c07NamesPool: user types whose NAMES look like what fc generates or uses as separators: T0 / T1 (the names of
// type parameters), A_B / B_C (an underscore, which joined name and type arguments in the keys of the
// instantiation tables: Pair<A_B, C> and Pair<A, B_C> - genuine defect 05cf21d).  Generic functions and users of
// one instantiation must not care whether an unrelated definition introduced such a name or the other
// instantiation (seed C07g renamed type parameters away from ANY type defined so far).
func c07NamesPool() []c07Def {
	return []c07Def{
		/*0*/ {name: "T0", src: "type T0 = {Fz: int}\n", owns: exact("T0"), declOnly: true},
		/*1*/ {name: "T1", src: "type T1 =\n  | Ct1 of int\n  | Ct2\n", owns: prefixOwner("T1"), declOnly: true},
		/*2*/ {name: "idn", src: "let idn x =\n  x\n", owns: exact("idn")},
		/*3*/ {name: "pickn", src: "let pickn a b =\n  (b, a)\n", owns: exact("pickn")},
		/*4*/ {name: "usen", src: "let usen () =\n  pickn (idn 1) \"s\"\n", deps: []int{2, 3}, owns: exact("usen")},
		/*5*/ {name: "AB", src: "type A_B = {P: int}\ntype Cx = {Q: int}\ntype Ax = {R: string}\ntype B_Cx = {S: int}\ntype Pairn<X, Y> = {Fst: X; Snd: Y}\n", owns: exact("A_B", "Cx", "Ax", "B_Cx", "Pairn"), declOnly: true},
		/*6*/ {name: "mkn", src: "let mkn () : Pairn<A_B, Cx> =\n  let ab = {P=1}\n  let c = {Q=2}\n  {Fst=ab; Snd=c}\n", deps: []int{5}, owns: exact("mkn")},
		/*7*/ {name: "othern", src: "let othern (p: Pairn<Ax, B_Cx>) =\n  p.Fst.R\n", deps: []int{5}, owns: exact("othern")},
		/*8*/ {name: "hn", src: "let hn () =\n  let p = mkn ()\n  p.Fst.P\n", deps: []int{5, 6}, owns: exact("hn")},
	}
}

// c07QualifierPool: a name that is a package in one definition and a variable in another.  `pq` is declared by a
// package_info block (functions Dirq and Base) and used as a qualifier by usesPkgq; elsewhere pq is a parameter, a
// lambda parameter or a let of record type Pinfo whose fields are read - one field (Base) has the name of a function
// of the package, one (Size) has not.  What `pq.X` means is decided by the scope of the definition it stands in, not by
// what an earlier definition of the invocation resolved pq to (after seed C07i: a run-wide cache of qualifiers).
func c07QualifierPool() []c07Def {
	return []c07Def{
		/*0*/ {name: "PIq", src: "package_info pq =\n  type Hq\n  let Dirq: string->string\n  let Base: string->string\n", owns: func(string) bool { return false }, declOnly: true, noOutput: true},
		/*1*/ {name: "Pinfo", src: "type Pinfo = {Base: string; Size: int}\n", owns: exact("Pinfo"), declOnly: true},
		/*2*/ {name: "usesPkgq", src: "let usesPkgq (p:string) =\n  pq.Dirq p\n", deps: []int{0}, owns: exact("usesPkgq")},
		/*3*/ {name: "baseOfq", src: "let baseOfq (pq: Pinfo) =\n  pq.Base\n", deps: []int{1}, owns: exact("baseOfq")},
		/*4*/ {name: "sizeOfq", src: "let sizeOfq (pq: Pinfo) =\n  pq.Size + 1\n", deps: []int{1}, owns: exact("sizeOfq")},
		/*5*/ {name: "lamq", src: "let lamq (r: Pinfo) =\n  let f = fun (pq: Pinfo) -> pq.Base\n  f r\n", deps: []int{1}, owns: exact("lamq")},
		/*6*/ {name: "letq", src: "let letq (r: Pinfo) =\n  let pq = r\n  pq.Size\n", deps: []int{1}, owns: exact("letq")},
	}
}

// c07PartialArgsPool: a generic function with two type parameters referenced with a PARTIAL explicit type-argument
// list (sp.Map<int> f xs: T is given, U is left to inference) in several unrelated definitions.  The variable that
// stands for the unspecified parameter belongs to the definition that wrote the reference; type variables are numbered
// from _T0 again in every definition, so an instantiation that is built once per (function, explicit arguments) and
// kept for the run carries one definition's variable into the next (after seed C07j).
func c07PartialArgsPool() []c07Def {
	return []c07Def{
		/*0*/ {name: "PIsp", src: "package_info sp =\n  let Map<T, U>: (T->U)->[]T->[]U\n  let Mk2<A, B>: A->B->(A*B)\n", owns: func(string) bool { return false }, declOnly: true, noOutput: true},
		/*1*/ {name: "toLabelp", src: "let toLabelp (i:int) =\n  \"s\"\n", owns: exact("toLabelp")},
		/*2*/ {name: "isPosp", src: "let isPosp (i:int) =\n  i > 0\n", owns: exact("isPosp")},
		/*3*/ {name: "labelsp", src: "let labelsp (xs: []int) =\n  sp.Map<int> toLabelp xs\n", deps: []int{0, 1}, owns: exact("labelsp")},
		/*4*/ {name: "mapWithp", src: "let mapWithp f other (ys: []int) =\n  (sp.Map<int> f ys, other)\n", deps: []int{0}, owns: exact("mapWithp")},
		/*5*/ {name: "marksp", src: "let marksp (xs: []int) =\n  sp.Map<int> (fun k -> isPosp k) xs\n", deps: []int{0, 2}, owns: exact("marksp")},
		/*6*/ {name: "mk2p", src: "let mk2p a b c =\n  (sp.Mk2<int> 1 a, b, c)\n", deps: []int{0}, owns: exact("mk2p")},
		/*7*/ {name: "mk2q", src: "let mk2q (s:string) =\n  sp.Mk2<int> 1 s\n", deps: []int{0}, owns: exact("mk2q")},
	}
}

// c07UnderscoreFieldsPool: records whose field names contain underscores and regroup to the same joined text
// ({age_max; size} / {age; max_size}: both "age_max_size" when sorted names are joined with "_").  An unqualified
// literal means the record with ITS field names, whether or not the other record exists (after seed C07k).
func c07UnderscoreFieldsPool() []c07Def {
	return []c07Def{
		/*0*/ {name: "Aqf", src: "type Aqf = {age_max: int; size: int}\n", owns: exact("Aqf"), declOnly: true},
		/*1*/ {name: "Bqf", src: "type Bqf = {age: int; max_size: int}\n", owns: exact("Bqf"), declOnly: true},
		/*2*/ {name: "mkbqf", src: "let mkbqf () =\n  {age=1; max_size=2}\n", deps: []int{1}, owns: exact("mkbqf")},
		/*3*/ {name: "mkaqf", src: "let mkaqf () =\n  {age_max=1; size=2}\n", deps: []int{0}, owns: exact("mkaqf")},
		/*4*/ {name: "Cqf", src: "type Cqf = {a_b: int; c: int}\ntype Dqf = {a: int; b_c: int}\n", owns: exact("Cqf", "Dqf"), declOnly: true},
		/*5*/ {name: "mkdqf", src: "let mkdqf () =\n  ({a=1; b_c=2}, {a_b=3; c=4})\n", deps: []int{4}, owns: exact("mkdqf")},
	}
}

// c07TypeVarNamePool: a user type named T0 - the name fc gives the first hoisted type parameter - as the type ARGUMENT
// of a generic record, next to an unrelated generic function over that record (whose own instantiation is Boxn<T0> with
// T0 the type parameter).  Genuine defect 782e170 (repaired): the two instantiations shared one table key.
func c07TypeVarNamePool() []c07Def {
	return []c07Def{
		/*0*/ {name: "Boxn", src: "type Boxn<T> = {V: T}\n", owns: exact("Boxn"), declOnly: true},
		/*1*/ {name: "T0", src: "type T0 = {Fz: int}\n", owns: exact("T0"), declOnly: true},
		/*2*/ {name: "unboxNn", src: "let unboxNn (b: Boxn<T0>) =\n  b.V.Fz\n", deps: []int{0, 1}, owns: exact("unboxNn")},
		/*3*/ {name: "mkbn", src: "let mkbn v =\n  {V=v}\n", deps: []int{0}, owns: exact("mkbn")},
		/*4*/ {name: "useT0n", src: "let useT0n (t: T0) =\n  t.Fz + 1\n", deps: []int{1}, owns: exact("useT0n")},
	}
}

func c07Pool(thorough bool) []c07Def {
	pool := []c07Def{
		/*0*/ {name: "R", src: "type R = {A: int; B: string}\n", owns: exact("R"), declOnly: true},
		/*1*/ {name: "U", src: "type U =\n  | I of int\n  | S of string\n  | N\n", owns: prefixOwner("U"), declOnly: true},
		/*2*/ {name: "PI", src: "package_info sl =\n  type H\n  let Map<T, U>: (T->U)->[]T->[]U\n  let Mk: ()->H\n  let Use: H->int->string\n", owns: func(string) bool { return false }, declOnly: true, noOutput: true},
		/*3*/ {name: "gv", src: "let gv = 42\n", owns: exact("gv")},
		/*4*/ {name: "fm", src: "let fm (u:U) =\n  match u with\n  | I i -> i\n  | S s -> 0\n  | N -> 1\n", deps: []int{1}, owns: exact("fm")},
		/*5*/ {name: "fl", src: "let fl (rs:[]R) =\n  sl.Map _.A rs\n", deps: []int{0, 2}, owns: exact("fl")},
		/*6*/ {name: "fmany", src: "let fmany a b c d =\n  let p = (a, b)\n  ((p, c), [d])\n", owns: exact("fmany")},
		/*7*/ {name: "idf", src: "let idf x =\n  x\n", owns: exact("idf")},
		/*8*/ {name: "useid", src: "let useid () =\n  (idf 1, idf \"s\")\n", deps: []int{7}, owns: exact("useid")},
		/*9*/ {name: "mk", src: "let mk () =\n  {A=gv; B=\"b\"}\n", deps: []int{0, 3}, owns: exact("mk")},
	}
	{
		pool = append(pool,
			/*10*/ c07Def{name: "G", src: "type G<T> = {V: T; Vs: []T}\n", owns: exact("G"), declOnly: true},
			/*11*/ c07Def{name: "TaTb", src: "type Ta =\n  | UB of Tb\n  | Z\nand Tb = {Fa: int}\n", owns: prefixOwner("Ta", "Tb"), declOnly: true},
			/*12*/ c07Def{name: "f7", src: "let f7 (u:U) (rs:[]R) =\n  let g = fun (v:U) ->\n            match v with\n            | I i -> i\n            | _ -> 0\n  let hs = sl.Map _.B rs\n  (g u, hs)\n", deps: []int{0, 1, 2}, owns: exact("f7")},
			/*13*/ c07Def{name: "mkg", src: "let mkg (x:int) =\n  {V=x; Vs=[x]}\n", deps: []int{10}, owns: exact("mkg")},
			/*14*/ c07Def{name: "getv", src: "let getv (g:G<int>) =\n  g.V\n", deps: []int{10}, owns: exact("getv")},
			// binders that reuse top-level names, and top-level variables whose initialiser opens scopes
			/*16*/
			c07Def{name: "tvm", src: "let tvm = match (S \"q\") with\n          | S gv -> gv\n          | _ -> \"n\"\n", deps: []int{1}, owns: exact("tvm")},
			/*17*/ c07Def{name: "usegv", src: "let usegv () =\n  (gv, [gv])\n", deps: []int{3}, owns: exact("usegv")},
			/*18*/ c07Def{name: "tvl", src: "let tvl = fun (gv:string) (idf:string) -> gv + idf\n", owns: exact("tvl")},
			/*19*/ c07Def{name: "shadow1", src: "let shadow1 (idf:int) (mk:int) =\n  let gv = idf + mk\n  gv * 2\n", owns: exact("shadow1")},
			// a package_info block whose external types have the SHORT NAMES of the user's own R and U (they live in
			// another namespace: ext2.R, ext2.U) - unrelated to every definition that means the user's types; also
			// the name of a type that a `type ... and ...` group refers to BEFORE declaring it (Tb: seeds C15f, C07h) and
			// of a user function (idf) with another signature
			/*20*/
			c07Def{name: "PIsame", src: "package_info ext2 =\n  type R\n  type U\n  type G<T>\n  type Tb\n  let MkR: ()->R\n  let UseU: U->int\n  let idf: string->int\n", owns: func(string) bool { return false }, declOnly: true, noOutput: true},
			/*15*/ c07Def{name: "mkgs", src: "let mkgs (s:string) =\n  let g = {V=s; Vs=[s; s]}\n  g.Vs\n", deps: []int{10}, owns: exact("mkgs")},
		)
	}
	return pool
}

type c07Case struct {
	choices []int
	seq     []int // history: pool indices
	cuts    []int // cut positions (file boundaries before seq[cut]); sorted
	foi     bool  // first file is a .foi (declaration-only prefix)
}

func c07Driver(pool []c07Def, maxLen, maxFiles int) func(c *explore.Chooser) *c07Case {
	return func(c *explore.Chooser) *c07Case {
		cs := &c07Case{}
		used := map[int]bool{}
		for len(cs.seq) < maxLen {
			var adm []int
			for i, d := range pool {
				if used[i] {
					continue
				}
				ok := true
				for _, dp := range d.deps {
					if !used[dp] {
						ok = false
					}
				}
				if ok {
					adm = append(adm, i)
				}
			}
			if len(adm) == 0 {
				break
			}
			// 0 = stop here (only after at least one definition)
			var pick int
			if len(cs.seq) == 0 {
				pick = c.Choose(len(adm))
			} else {
				p := c.Choose(len(adm) + 1)
				if p == 0 {
					break
				}
				pick = p - 1
			}
			cs.seq = append(cs.seq, adm[pick])
			used[adm[pick]] = true
		}
		// cuts: each boundary between definitions may be a file boundary, up to maxFiles files
		files := 1
		for b := 1; b < len(cs.seq); b++ {
			if files < maxFiles && c.Bool() {
				cs.cuts = append(cs.cuts, b)
				files++
			}
		}
		// a declaration-only first file may be a .foi
		if len(cs.cuts) > 0 {
			all := true
			for _, i := range cs.seq[:cs.cuts[0]] {
				if !pool[i].declOnly {
					all = false
				}
			}
			if all {
				cs.foi = c.Bool()
			}
		}
		return cs
	}
}

type c07File struct {
	name string
	src  string
	defs []int
}

func c07Files(pool []c07Def, cs *c07Case) []c07File {
	var out []c07File
	bounds := append(append([]int{0}, cs.cuts...), len(cs.seq))
	for k := 0; k+1 < len(bounds); k++ {
		f := c07File{name: fmt.Sprintf("f%d.fo", k)}
		if k == 0 && cs.foi {
			f.name = "f0.foi"
		}
		var sb strings.Builder
		sb.WriteString("package main\n\n")
		for _, i := range cs.seq[bounds[k]:bounds[k+1]] {
			sb.WriteString(pool[i].src)
			sb.WriteString("\n")
			f.defs = append(f.defs, i)
		}
		f.src = sb.String()
		out = append(out, f)
	}
	return out
}

var c07Tmp = regexp.MustCompile(`_v\d+`)

// c07Renumber makes the text independent of the numbering of temporaries.  The
// numbers are dropped altogether rather than renumbered by first occurrence:
// fc draws parse-time temporaries (_.Field lambdas) and emission-time
// temporaries (match targets) from one counter that is reset per definition at
// parse time only, so in some histories two different temporaries of one
// function carry the same number (harmless: their scopes never capture each
// other) - that is still "identical up to the numbering of _vN".
func c07Renumber(s string) string {
	return c07Tmp.ReplaceAllString(s, "_v#")
}

// c07Pattern is the first-occurrence numbering pattern (reported, not judged).
func c07Pattern(s string) string {
	m := map[string]int{}
	var out []string
	for _, x := range c07Tmp.FindAllString(s, -1) {
		if _, ok := m[x]; !ok {
			m[x] = len(m) + 1
		}
		out = append(out, fmt.Sprint(m[x]))
	}
	return strings.Join(out, ",")
}

// c07Extract returns, per pool definition, the concatenated source text of the
// Go declarations it owns in the given gen file.
func c07Extract(pool []c07Def, path string) (map[int]string, error) {
	b, err := os.ReadFile(path)
	if err != nil {
		return nil, err
	}
	fset := token.NewFileSet()
	f, err := parser.ParseFile(fset, path, b, parser.SkipObjectResolution)
	if err != nil {
		return nil, err
	}
	res := map[int]string{}
	for _, d := range f.Decls {
		name := ""
		switch v := d.(type) {
		case *ast.FuncDecl:
			name = v.Name.Name
			if v.Recv != nil && len(v.Recv.List) > 0 {
				name = recvTypeName(v.Recv.List[0].Type)
			}
		case *ast.GenDecl:
			if v.Tok == token.IMPORT {
				continue
			}
			for _, s := range v.Specs {
				switch sp := s.(type) {
				case *ast.TypeSpec:
					name = sp.Name.Name
				case *ast.ValueSpec:
					if len(sp.Names) > 0 {
						name = sp.Names[0].Name
					}
				}
			}
		}
		text := string(b[fset.Position(d.Pos()).Offset:fset.Position(d.End()).Offset])
		owner := -1
		for i, pd := range pool {
			if pd.owns(name) {
				owner = i
				break
			}
		}
		if owner >= 0 {
			res[owner] += text + "\n"
		} else {
			res[-1] += name + ";"
		}
	}
	return res, nil
}

func recvTypeName(e ast.Expr) string {
	switch v := e.(type) {
	case *ast.Ident:
		return v.Name
	case *ast.StarExpr:
		return recvTypeName(v.X)
	case *ast.IndexExpr:
		return recvTypeName(v.X)
	case *ast.IndexListExpr:
		return recvTypeName(v.X)
	}
	return ""
}

func checkC07(c *core.Ctx) {
	sc, err := impl.New(c.Repo)
	if err != nil {
		panic(err)
	}
	defer sc.Close()
	fc, err := sc.BuildFC()
	if err != nil {
		panic(err)
	}
	c.Set("rule", "histories are enumerated by the choice-tree explorer: sequences of distinct definitions of a pool (records, union, `type ... and ...` group, package_info, top-level variable, functions with match temporaries, _.Field lambdas, many type variables, generic function and its user) in which every definition follows its dependencies, up to the length bound, x every way of cutting the sequence into at most c files given to one fc invocation x a .foi variant for declaration-only first files; histories are not deduplicated; distinct = distinct (sequence, cuts); non-trivial = at least two definitions")
	c.Assumption("a definition's Go text = the source text of the top-level Go declarations it owns (type, case structs, methods, constructors, func, var), extracted with go/parser, with _vN renumbered by first occurrence; the reference is the same definition in its minimal history (its dependency closure only, in pool order)")
	maxLen, maxFiles := 4, 2
	if c.Thorough() {
		maxLen, maxFiles = 5, 3
	}
	pool := c07Pool(c.Thorough())
	c.Set("pool_size", len(pool))
	c.Set("max_length", maxLen)
	c.Set("max_files", maxFiles)
	runs := [][2]int{{maxLen, maxFiles}}
	if c.Thorough() {
		runs = [][2]int{{4, 3}, {5, 2}}
	}
	ref := c07ExplorePool(c, sc, fc, pool, runs)
	if ref == nil {
		return
	}
	c07LongHistories(c, sc, fc, pool, ref)
	amb := c07AmbiguityPool()
	c.Set("ambiguity_pool_size", len(amb))
	c07ExplorePool(c, sc, fc, amb, [][2]int{{len(amb), maxFiles}})
	for _, av := range c07AmbiguityVariants() {
		c07ExplorePool(c, sc, fc, av, [][2]int{{len(av), maxFiles}})
	}
	c.Set("ambiguity_pool_field_order_variants", len(c07AmbiguityVariants()))
	fa := c07FieldAccessPool()
	c.Set("field_access_pool_size", len(fa))
	c07ExplorePool(c, sc, fc, fa, [][2]int{{6, maxFiles}})
	nm := c07NamesPool()
	c.Set("names_pool_size", len(nm))
	// two independent halves (type-parameter names; underscore names), each with all its histories
	c07ExplorePool(c, sc, fc, nm[:5], [][2]int{{5, maxFiles}})
	nmb := append([]c07Def{}, nm[5:]...)
	for i := range nmb {
		for j := range nmb[i].deps {
			nmb[i].deps = append([]int{}, nmb[i].deps...)
			nmb[i].deps[j] -= 5
		}
	}
	c07ExplorePool(c, sc, fc, nmb, [][2]int{{4, maxFiles}})
	ql := c07QualifierPool()
	c.Set("qualifier_pool_size", len(ql))
	// two overlapping halves, each with all its histories: {package, record, qualifier use} + the parameter users /
	// + the lambda and let users
	c07ExplorePool(c, sc, fc, ql[:5], [][2]int{{5, maxFiles}})
	qlb := append(append([]c07Def{}, ql[:3]...), ql[5:7]...)
	c07ExplorePool(c, sc, fc, qlb, [][2]int{{5, maxFiles}})
	pa := c07PartialArgsPool()
	c.Set("partial_type_arguments_pool_size", len(pa))
	// the Map half (declaration, three users, their helpers) and the Mk2 half
	c07ExplorePool(c, sc, fc, pa[:6], [][2]int{{5, maxFiles}})
	pab := []c07Def{pa[0], pa[6], pa[7], pa[3], pa[1]}
	pab[1].deps, pab[2].deps, pab[3].deps = []int{0}, []int{0}, []int{0, 4}
	c07ExplorePool(c, sc, fc, pab, [][2]int{{5, maxFiles}})
	uf := c07UnderscoreFieldsPool()
	c.Set("underscore_fields_pool_size", len(uf))
	c07ExplorePool(c, sc, fc, uf, [][2]int{{5, maxFiles}})
	tvn := c07TypeVarNamePool()
	c.Set("type_variable_name_pool_size", len(tvn))
	c07ExplorePool(c, sc, fc, tvn, [][2]int{{5, maxFiles}})
	inst := c07InstantiationPool()
	c.Set("instantiation_pool_size", len(inst))
	c07ExplorePool(c, sc, fc, inst, [][2]int{{5, maxFiles}})
}

// c07ExplorePool computes the reference texts of a pool and explores its histories; nil if a minimal history fails.
func c07ExplorePool(c *core.Ctx, sc *impl.Scratch, fc string, pool []c07Def, runs [][2]int) map[int]string {
	// reference texts from minimal histories
	ref := map[int]string{}
	refPat := map[int]string{}
	{
		dir := sc.TempDir("c07ref_")
		for i := range pool {
			if pool[i].noOutput {
				continue
			}
			closure := map[int]bool{}
			var add func(int)
			add = func(k int) {
				for _, d := range pool[k].deps {
					add(d)
				}
				closure[k] = true
			}
			add(i)
			var seq []int
			for k := range pool {
				if closure[k] && k != i {
					seq = append(seq, k)
				}
			}
			seq = append(seq, i)
			cs := &c07Case{seq: seq}
			files := c07Files(pool, cs)
			os.WriteFile(filepath.Join(dir, "f0.fo"), []byte(files[0].src), 0o644)
			os.Remove(filepath.Join(dir, "gen_f0.go"))
			r := impl.Run(dir, 60*time.Second, "", fc, "f0.fo")
			if r.Exit != 0 {
				c.Violation("C07:minimal-history-rejected:"+pool[i].name, "fc rejects the minimal history of "+pool[i].name+": "+firstLines(r.Out(), 3), map[string]any{"input": map[string]string{"f0.fo": files[0].src}, "observed": r.Out()})
				continue
			}
			ex, err := c07Extract(pool, filepath.Join(dir, "gen_f0.go"))
			if err != nil {
				c.Violation("C07:unparsable:"+pool[i].name, err.Error(), map[string]any{"input": map[string]string{"f0.fo": files[0].src}})
				continue
			}
			ref[i] = c07Renumber(ex[i])
			refPat[i] = c07Pattern(ex[i])
			if ref[i] == "" {
				panic("c07: no Go text found for " + pool[i].name + " in its minimal history")
			}
			c.Count(1, 0, 0, 0)
		}
		os.RemoveAll(dir)
	}
	if c.ViolationCount() > 0 {
		return nil
	}

	jobs := make(chan *c07Case, 512)
	var wg sync.WaitGroup
	for w := 0; w < c.Workers; w++ {
		wg.Add(1)
		go func() {
			defer wg.Done()
			dir := sc.TempDir("c07_")
			defer os.RemoveAll(dir)
			for cs := range jobs {
				if c.TooManyViolations() {
					continue
				}
				c07RunOne(c, fc, dir, pool, ref, refPat, cs)
			}
		}()
	}
	var total explore.Stats
	run := func(maxLen, maxFiles int) {
		drv := c07Driver(pool, maxLen, maxFiles)
		var cur *c07Case
		st := explore.Explore(-1, func(ch *explore.Chooser) { cur = drv(ch) }, func(ch *explore.Chooser) bool {
			cur.choices = append([]int{}, ch.Choices...)
			if c.Expired() || c.TooManyViolations() {
				return false
			}
			jobs <- cur
			return true
		})
		total.Add(st)
		if st.Stopped && c.ViolationCount() == 0 {
			c.NotExhaustive(fmt.Sprintf("enumeration with length<=%d files<=%d stopped early", maxLen, maxFiles))
		}
	}
	for _, r := range runs {
		run(r[0], r[1])
	}
	close(jobs)
	wg.Wait()
	c.Count(0, total.States, total.Transitions, 0)
	c.Set(fmt.Sprintf("explorer_pool_of_%d", len(pool)), map[string]any{"executions": total.Executions, "max_depth": total.MaxDepth})
	return ref
}

// c07LongHistories: the whole pool (in pool order) after N renamed copies of one definition kind - in one
// file and with the copies in an earlier file.  Counters, allocators and caches that are meant to be
// per definition or per group but live for the whole invocation (fc has limits such as 100 type variables
// per allocator) only show after many definitions.
func c07LongHistories(c *core.Ctx, sc *impl.Scratch, fc string, pool []c07Def, ref map[int]string) {
	kinds := []struct {
		name string
		mk   func(i int) string
	}{
		{"type-and-groups", func(i int) string {
			return fmt.Sprintf("type La%d =\n  | Lx%d of Lb%d\n  | Ly%d of Lc%d\n  | Lz%d\nand Lb%d = {Lf%d: int; Lg%d: []La%d}\nand Lc%d = {Lh%d: Lb%d}\n", i, i, i, i, i, i, i, i, i, i, i, i, i)
		}},
		{"many-type-variables", func(i int) string {
			return fmt.Sprintf("let lm%d a b c d e f g h =\n  ((a, b, c), (d, e, f), (g, h))\n", i)
		}},
		{"match-temporaries", func(i int) string {
			return fmt.Sprintf("let lt%d (x:int) =\n  let u = if x < 1 then Some x else None<int> ()\n  match u with\n  | Some v -> v\n  | None -> 0\n", i)
		}},
		{"package-info", func(i int) string {
			return fmt.Sprintf("package_info lp%d =\n  type H%d\n  let Mk%d: ()->H%d\n  let Use%d<T>: H%d->T->T\n", i, i, i, i, i, i)
		}},
		{"generic-instantiations", func(i int) string {
			return fmt.Sprintf("type Lg%d<T> = {Lv%d: T; Lw%d: []T}\n\nlet lgi%d (x:int) =\n  {Lv%d=x; Lw%d=[x]}\n\nlet lgs%d (x:string) =\n  {Lv%d=x; Lw%d=[x]}\n", i, i, i, i, i, i, i, i, i)
		}},
	}
	counts := []int{60, 130}
	dir := sc.TempDir("c07long_")
	defer os.RemoveAll(dir)
	optDecl := "type Opt<T> =\n  | Some of T\n  | None\n\n"
	for _, k := range kinds {
		for _, n := range counts {
			for _, twoFiles := range []bool{false, true} {
				if c.Expired() || c.TooManyViolations() {
					c.NotExhaustive("long histories not completed")
					return
				}
				var copies strings.Builder
				copies.WriteString("package main\n\n" + optDecl)
				for i := 0; i < n; i++ {
					copies.WriteString(k.mk(i))
					copies.WriteString("\n")
				}
				var rest strings.Builder
				for _, d := range pool {
					rest.WriteString(d.src)
					rest.WriteString("\n")
				}
				ents, _ := os.ReadDir(dir)
				for _, e := range ents {
					os.Remove(filepath.Join(dir, e.Name()))
				}
				var args []string
				input := map[string]string{}
				if twoFiles {
					input["f0.fo"] = copies.String()
					input["f1.fo"] = "package main\n\n" + rest.String()
					args = []string{"f0.fo", "f1.fo"}
				} else {
					input["f1.fo"] = copies.String() + rest.String()
					args = []string{"f1.fo"}
				}
				for nme, txt := range input {
					os.WriteFile(filepath.Join(dir, nme), []byte(txt), 0o644)
				}
				r := impl.RunWithRetry(dir, 60*time.Second, 180*time.Second, fc, args...)
				desc := fmt.Sprintf("%d copies of %s, then the pool (two files: %v)", n, k.name, twoFiles)
				c.Count(1, 1, 1, 0)
				c.DistinctNT("long:"+desc, true)
				c.Hist("long_histories", k.name, 1)
				rep := map[string]any{"kind": "long-history", "description": desc, "args": args, "observed": trunc(r.Out(), 800)}
				if r.Exit != 0 || r.TimedOut {
					c.Violation("C07:long-history-rejected:"+k.name, fmt.Sprintf("%s: fc fails: %s", desc, firstLines(r.Out(), 3)), rep)
					continue
				}
				ex, err := c07Extract(pool, filepath.Join(dir, "gen_f1.go"))
				if err != nil {
					c.Violation("C07:unparsable", desc+": "+err.Error(), rep)
					continue
				}
				for i := range pool {
					if pool[i].noOutput {
						continue
					}
					c.Count(0, 0, 0, 1)
					if g := c07Renumber(ex[i]); g != ref[i] {
						c.Violation("C07:definition-differs:"+pool[i].name, fmt.Sprintf("%s: the Go text of %s differs from its text in the minimal history: %s", desc, pool[i].name, firstDiff(ref[i], g)), rep)
					}
				}
			}
		}
	}
}

func c07RunOne(c *core.Ctx, fc, dir string, pool []c07Def, ref, refPat map[int]string, cs *c07Case) {
	// clean
	ents, _ := os.ReadDir(dir)
	for _, e := range ents {
		os.Remove(filepath.Join(dir, e.Name()))
	}
	files := c07Files(pool, cs)
	input := map[string]string{}
	var args []string
	for _, f := range files {
		os.WriteFile(filepath.Join(dir, f.name), []byte(f.src), 0o644)
		input[f.name] = f.src
		args = append(args, f.name)
	}
	r := impl.RunWithRetry(dir, 20*time.Second, 60*time.Second, fc, args...)
	names := []string{}
	for _, i := range cs.seq {
		names = append(names, pool[i].name)
	}
	desc := fmt.Sprintf("history %v cuts %v foi=%v", names, cs.cuts, cs.foi)
	c.Count(1, 0, 0, 0)
	c.DistinctNT(desc, len(cs.seq) >= 2)
	c.Hist("by_length", fmt.Sprint(len(cs.seq)), 1)
	c.Hist("by_files", fmt.Sprint(len(files)), 1)
	c.Sample(map[string]any{"history": names, "cuts": cs.cuts, "first_file_is_foi": cs.foi})
	rep := func(obs string) map[string]any {
		return map[string]any{"choices": cs.choices, "history": names, "cuts": cs.cuts, "foi": cs.foi, "input": input, "args": args, "observed": obs}
	}
	if r.Exit != 0 || r.TimedOut {
		c.Outcome("rejected")
		c.Violation("C07:history-rejected", fmt.Sprintf("%s: fc fails although every definition follows its dependencies: %s", desc, firstLines(r.Out(), 3)), rep(r.Out()))
		return
	}
	// files written: exactly gen_X.go for each X.fo argument, none for .foi
	want := []string{}
	for _, f := range files {
		if strings.HasSuffix(f.name, ".fo") {
			want = append(want, "gen_"+strings.TrimSuffix(f.name, ".fo")+".go")
		}
	}
	got := []string{}
	ents, _ = os.ReadDir(dir)
	for _, e := range ents {
		if !strings.HasSuffix(e.Name(), ".fo") && !strings.HasSuffix(e.Name(), ".foi") {
			got = append(got, e.Name())
		}
	}
	sort.Strings(want)
	sort.Strings(got)
	if fmt.Sprint(want) != fmt.Sprint(got) {
		c.Outcome("wrong-files")
		c.Violation("C07:files-written", fmt.Sprintf("%s: expected output files %v, found %v", desc, want, got), rep(fmt.Sprint(got)))
		return
	}
	ok := true
	for _, f := range files {
		if !strings.HasSuffix(f.name, ".fo") {
			continue
		}
		ex, err := c07Extract(pool, filepath.Join(dir, "gen_"+strings.TrimSuffix(f.name, ".fo")+".go"))
		if err != nil {
			c.Violation("C07:unparsable", desc+": "+err.Error(), rep(err.Error()))
			return
		}
		for _, i := range f.defs {
			if pool[i].noOutput || pool[i].context {
				continue
			}
			c.Count(0, 0, 0, 1)
			g := c07Renumber(ex[i])
			if g == ref[i] && c07Pattern(ex[i]) != refPat[i] {
				c.AddInt("temporaries_numbered_in_a_different_pattern_not_judged", 1)
			}
			if g != ref[i] {
				ok = false
				c.Outcome("definition-differs")
				c.Violation("C07:definition-differs:"+pool[i].name, fmt.Sprintf("%s: the Go text of %s differs from its text in the minimal history: %s", desc, pool[i].name, firstDiff(ref[i], g)),
					map[string]any{"choices": cs.choices, "history": names, "cuts": cs.cuts, "foi": cs.foi, "input": input, "args": args, "definition": pool[i].name, "expected": ref[i], "observed": g})
			}
		}
		// declarations owned by a definition of another file must not appear here
		for i := range pool {
			if ex[i] != "" {
				found := false
				for _, j := range f.defs {
					if j == i {
						found = true
					}
				}
				if !found {
					ok = false
					c.Violation("C07:foreign-declaration", fmt.Sprintf("%s: gen of %s contains declarations of %s, which is defined in another file", desc, f.name, pool[i].name), rep(ex[i]))
				}
			}
		}
	}
	if ok {
		c.Outcome("identical")
	}
}
