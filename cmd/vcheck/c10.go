package main

import (
	"fmt"
	"os"
	"path/filepath"
	"strings"
	"time"

	"verif/internal/core"
	"verif/internal/explore"
	"verif/internal/impl"
)

// C10: = and <> are total structural equality on first-order values.
//
// The type universe and the value domains are generated here (harness side)
// together with a canonical description of every value; record/union types
// are emitted by the fresh fc from a generated types.fo, and `a = b` / `a <> b`
// are Folang functions in that file, so the driver exercises exactly what a
// transpiled program does.  Reference equality = equality of the canonical
// descriptions.

func init() { register("C10", checkC10) }

type c10Val struct {
	canon string
	goX   string
	how   string
}

// c10Rel: a pair of values of one slice type in which b is DERIVED from a and may share its storage
type c10Rel struct {
	canonA, canonB string
	goPair         string // Go function literal body returning (a, b)
	how            string
}

type c10Type struct {
	hasUnion bool // a union occurs somewhere in the type: the structure of its values varies with the case
	rels     []c10Rel
	id       int
	depth    int
	fo       string // Folang type expression
	gt       string // Go type expression
	decl     string // Folang declaration (records / unions)
	vals     []c10Val
	kind     string
	comps    []*c10Type
}

// small returns up to n values with pairwise distinct canonical forms
func (t *c10Type) small(n int) []c10Val {
	var out []c10Val
	seen := map[string]bool{}
	for _, v := range t.vals {
		if !seen[v.canon] {
			seen[v.canon] = true
			out = append(out, v)
			if len(out) == n {
				break
			}
		}
	}
	return out
}

// smallPlus: small(n) plus the TWIN of its first value - a value with the same canonical description that was
// produced differently (for slices: the empty literal and an empty Take result, i.e. non-nil and nil; for
// composite types: the same structure over the component's twin).  Twins propagate one per level, so that equal
// but differently produced values also meet INSIDE records, tuples, unions and slices.
func (t *c10Type) smallPlus(n int) []c10Val {
	out := t.small(n)
	if len(out) == 0 {
		return out
	}
	for _, v := range t.vals {
		if v.canon == out[0].canon && v.goX != out[0].goX {
			return append(out, v)
		}
	}
	return out
}

func c10Leaves() []*c10Type {
	return []*c10Type{
		{fo: "int", gt: "int", kind: "int", vals: []c10Val{{"0", "0", "literal"}, {"1", "1", "literal"}}},
		{fo: "string", gt: "string", kind: "string", vals: []c10Val{{`""`, `""`, "literal"}, {`"a"`, `"a"`, "literal"}}},
		{fo: "bool", gt: "bool", kind: "bool", vals: []c10Val{{"true", "true", "literal"}, {"false", "false", "literal"}}},
	}
}

const c10Constructors = 7

// c10Build applies constructor k to the component types.
func c10Build(id int, k int, comps []*c10Type) *c10Type {
	t := &c10Type{id: id, comps: comps}
	d := 0
	for _, c := range comps {
		if c.depth > d {
			d = c.depth
		}
	}
	t.depth = d + 1
	cross := func(doms ...[]c10Val) [][]c10Val {
		res := [][]c10Val{{}}
		for _, dm := range doms {
			var nx [][]c10Val
			for _, r := range res {
				for _, v := range dm {
					nx = append(nx, append(append([]c10Val{}, r...), v))
				}
			}
			res = nx
		}
		return res
	}
	switch k {
	case 0: // pair
		t.kind = "pair"
		t.fo = "(" + comps[0].fo + ")*(" + comps[1].fo + ")"
		t.gt = "frt.Tuple2[" + comps[0].gt + ", " + comps[1].gt + "]"
		for _, c := range cross(comps[0].smallPlus(2), comps[1].small(2)) {
			t.vals = append(t.vals, c10Val{"(" + c[0].canon + "," + c[1].canon + ")", "frt.NewTuple2[" + comps[0].gt + ", " + comps[1].gt + "](" + c[0].goX + ", " + c[1].goX + ")", "tuple"})
		}
	case 1: // triple
		t.kind = "triple"
		t.fo = "(" + comps[0].fo + ")*(" + comps[1].fo + ")*(" + comps[2].fo + ")"
		t.gt = "frt.Tuple3[" + comps[0].gt + ", " + comps[1].gt + ", " + comps[2].gt + "]"
		for _, c := range cross(comps[0].smallPlus(2), comps[1].small(2), comps[2].small(2)) {
			t.vals = append(t.vals, c10Val{"(" + c[0].canon + "," + c[1].canon + "," + c[2].canon + ")",
				"frt.NewTuple3[" + comps[0].gt + ", " + comps[1].gt + ", " + comps[2].gt + "](" + c[0].goX + ", " + c[1].goX + ", " + c[2].goX + ")", "tuple"})
		}
	case 2, 3: // record with upper-case / lower-case field names
		f1, f2 := "A", "B"
		t.kind = "record-upper"
		if k == 3 {
			f1, f2 = "a", "b"
			t.kind = "record-lower"
		}
		name := fmt.Sprintf("R%d", id)
		t.fo, t.gt = name, name
		t.decl = fmt.Sprintf("type %s = {%s: %s; %s: %s}\n", name, f1, comps[0].fo, f2, comps[1].fo)
		for _, c := range cross(comps[0].smallPlus(2), comps[1].small(2)) {
			t.vals = append(t.vals, c10Val{name + "{" + c[0].canon + ";" + c[1].canon + "}", fmt.Sprintf("%s{%s: %s, %s: %s}", name, f1, c[0].goX, f2, c[1].goX), "record literal"})
		}
	case 4: // union: P of T | Q of U | N
		t.kind = "union"
		name := fmt.Sprintf("U%d", id)
		t.fo, t.gt = name, name
		t.decl = fmt.Sprintf("type %s =\n  | P%d of %s\n  | Q%d of %s\n  | N%d\n", name, id, comps[0].fo, id, comps[1].fo, id)
		// the cases interleaved (P, Q, N, P, Q): containers take the first 2-3 values of a component's domain, and
		// those must be values of DIFFERENT cases (a union-typed field whose case varies from value to value)
		ps, qs := comps[0].smallPlus(2), comps[1].small(2)
		for i := 0; i < 3; i++ {
			if i < len(ps) {
				t.vals = append(t.vals, c10Val{"P(" + ps[i].canon + ")", fmt.Sprintf("New_%s_P%d(%s)", name, id, ps[i].goX), "constructor"})
			}
			if i < len(qs) {
				t.vals = append(t.vals, c10Val{"Q(" + qs[i].canon + ")", fmt.Sprintf("New_%s_Q%d(%s)", name, id, qs[i].goX), "constructor"})
			}
			if i == 0 {
				t.vals = append(t.vals, c10Val{"N", fmt.Sprintf("New_%s_N%d", name, id), "constructor"})
			}
		}
	case 5: // generic union Opt<T>
		t.kind = "generic-union"
		t.fo = "Opt<" + comps[0].fo + ">"
		t.gt = "Opt[" + comps[0].gt + "]"
		for i, v := range comps[0].smallPlus(3) {
			t.vals = append(t.vals, c10Val{"Some(" + v.canon + ")", "New_Opt_Some[" + comps[0].gt + "](" + v.goX + ")", "constructor"})
			if i == 0 {
				t.vals = append(t.vals, c10Val{"None", "New_Opt_None[" + comps[0].gt + "]()", "constructor"})
			}
		}
	case 6: // slice, every producer path
		t.kind = "slice"
		e := comps[0]
		t.fo = "[](" + e.fo + ")"
		t.gt = "[]" + e.gt
		ev := e.small(2)
		x := ev[0]
		lit := func(vs ...c10Val) string {
			parts := []string{}
			for _, v := range vs {
				parts = append(parts, v.goX)
			}
			return t.gt + "{" + strings.Join(parts, ", ") + "}"
		}
		can := func(vs ...c10Val) string {
			parts := []string{}
			for _, v := range vs {
				parts = append(parts, v.canon)
			}
			return "[" + strings.Join(parts, ";") + "]"
		}
		idf := "func(v " + e.gt + ") " + e.gt + " { return v }"
		tr := "func(v " + e.gt + ") bool { return true }"
		fl := "func(v " + e.gt + ") bool { return false }"
		add := func(vs []c10Val) {
			c := can(vs...)
			L := lit(vs...)
			withExtraTail := lit(append(append([]c10Val{}, vs...), x)...)
			withExtraHead := lit(append([]c10Val{x}, vs...)...)
			t.vals = append(t.vals,
				c10Val{c, L, "literal"},
				c10Val{c, "slice.Take(" + fmt.Sprint(len(vs)) + ", " + withExtraTail + ")", "Take"},
				c10Val{c, "slice.Skip(1, " + withExtraHead + ")", "Skip"},
				c10Val{c, "slice.Tail(" + withExtraHead + ")", "Tail"},
				c10Val{c, "slice.PopLast(" + withExtraTail + ")", "PopLast"},
				c10Val{c, "slice.Filter(" + tr + ", " + L + ")", "Filter"},
				c10Val{c, "slice.Map(" + idf + ", " + L + ")", "Map"},
				c10Val{c, "slice.Append(" + L + ", " + lit() + ")", "Append"},
			)
			if len(vs) == 0 {
				t.vals = append(t.vals,
					c10Val{c, "slice.New[" + e.gt + "]()", "slice.New"},
					c10Val{c, "slice.Filter(" + fl + ", " + lit(x) + ")", "Filter(none)"},
					c10Val{c, "[]" + e.gt + "(nil)", "nil"},
				)
			} else {
				t.vals = append(t.vals,
					c10Val{c, "slice.PushLast(" + vs[len(vs)-1].goX + ", " + lit(vs[:len(vs)-1]...) + ")", "PushLast"},
					c10Val{c, "slice.PushHead(" + vs[0].goX + ", " + lit(vs[1:]...) + ")", "PushHead"},
				)
			}
		}
		add(nil)
		for _, a := range ev {
			add([]c10Val{a})
		}
		if tw := e.smallPlus(1); len(tw) == 2 {
			// one element that is the twin of the first element value: [x] and [x'] are equal
			add([]c10Val{tw[1]})
		}
		for _, a := range ev {
			for _, b := range ev {
				add([]c10Val{a, b})
			}
		}
		// related pairs: b is derived from a by a function that may return a view of its argument (the same
		// array, the same first element, a window inside it) - values that are different but physically close,
		// and values that are equal but sit at different offsets of one array
		{
			y := ev[len(ev)-1]
			bases := [][]c10Val{{x}, {x, y}, {x, x}, {x, y, x}, {x, x, x}}
			for _, b := range bases {
				n := len(b)
				type der struct {
					name string
					expr string
					lo   int
					hi   int
				}
				ds := []der{{"the same value", "a", 0, n}, {"PopLast a", "slice.PopLast(a)", 0, n - 1}, {"Tail a", "slice.Tail(a)", 1, n}}
				for k := 0; k <= n; k++ {
					ds = append(ds, der{fmt.Sprintf("Take %d a", k), fmt.Sprintf("slice.Take(%d, a)", k), 0, k},
						der{fmt.Sprintf("Skip %d a", k), fmt.Sprintf("slice.Skip(%d, a)", k), k, n})
				}
				if n >= 2 {
					ds = append(ds, der{"PopLast (PopLast a)", "slice.PopLast(slice.PopLast(a))", 0, n - 2},
						der{"Tail (PopLast a)", "slice.Tail(slice.PopLast(a))", 1, n - 1},
						der{"PopLast (Tail a)", "slice.PopLast(slice.Tail(a))", 1, n - 1})
				}
				for _, d := range ds {
					t.rels = append(t.rels, c10Rel{can(b...), can(b[d.lo:d.hi]...), "a := " + lit(b...) + "; return a, " + d.expr, d.name})
				}
				// two derived values of one base compared with each other: equal contents at different offsets
				if n >= 2 {
					t.rels = append(t.rels, c10Rel{can(b[:n-1]...), can(b[1:]...), "a := " + lit(b...) + "; return slice.PopLast(a), slice.Tail(a)", "PopLast a vs Tail a"})
				}
			}
		}
		// long literals over leaf elements (lengths 9 and 33; equal, differing in the last, in the first
		// element): an equality that looks at a bounded prefix, samples, or switches strategy with the
		// size is only visible beyond the exhaustive lengths 0..2
		if len(e.comps) == 0 && len(ev) >= 2 {
			for _, n := range []int{9, 33} {
				rpt := func(first, mid, last c10Val) []c10Val {
					vs := make([]c10Val, n)
					for i := range vs {
						vs[i] = mid
					}
					vs[0], vs[n-1] = first, last
					return vs
				}
				for _, vs := range [][]c10Val{rpt(ev[0], ev[0], ev[0]), rpt(ev[0], ev[0], ev[1]), rpt(ev[1], ev[0], ev[0])} {
					t.vals = append(t.vals, c10Val{can(vs...), lit(vs...), "literal(long)"},
						c10Val{can(vs...), "slice.Map(" + idf + ", " + lit(vs...) + ")", "Map(long)"})
				}
			}
		}
	}
	t.hasUnion = k == 4 || k == 5
	for _, cp := range comps {
		if cp.hasUnion {
			t.hasUnion = true
		}
	}
	return t
}

var c10Arity = []int{2, 3, 2, 2, 2, 1, 1}

// c10Universe enumerates the type universe through the explorer.
func c10Universe(maxDepth int) ([]*c10Type, explore.Stats) {
	leaves := c10Leaves()
	for i, l := range leaves {
		l.id = i
	}
	all := append([]*c10Type{}, leaves...)
	byDepth := map[int][]*c10Type{0: leaves}
	var total explore.Stats
	for d := 1; d <= maxDepth; d++ {
		prev := byDepth[d-1]
		var cur []*c10Type
		st := explore.Explore(-1, func(c *explore.Chooser) {
			k := c.Choose(c10Constructors)
			comps := make([]*c10Type, c10Arity[k])
			// the first component ranges over every type of depth d-1
			comps[0] = prev[c.Choose(len(prev))]
			for i := 1; i < len(comps); i++ {
				if d == 1 {
					comps[i] = leaves[c.Choose(len(leaves))]
				} else {
					// deeper levels: the other components rotate over the leaves
					comps[i] = leaves[(len(cur)+i)%len(leaves)]
				}
			}
			t := c10Build(len(all)+len(cur), k, comps)
			cur = append(cur, t)
		}, func(c *explore.Chooser) bool { return true })
		total.Add(st)
		byDepth[d] = cur
		all = append(all, cur...)
	}
	// selective extra level (both tiers): containers of a union whose payload is a slice -
	// the shapes where "comparable by ==" and "structurally equal" part ways
	{
		var extra []*c10Type
		for _, t := range byDepth[maxDepth] {
			if (t.kind == "union" || t.kind == "generic-union") && len(t.comps) > 0 && t.comps[0].kind == "slice" {
				for _, k := range []int{0, 2, 3, 6} {
					comps := make([]*c10Type, c10Arity[k])
					comps[0] = t
					for i := 1; i < len(comps); i++ {
						comps[i] = leaves[(len(extra)+i)%len(leaves)]
					}
					extra = append(extra, c10Build(len(all)+len(extra), k, comps))
				}
			}
		}
		all = append(all, extra...)
	}
	// records whose FIELD NAMES are names the emitted Go uses itself: Value (the payload field of a union case
	// struct), E0 / E1 (the fields of frt.Tuple2) - alone, as the payload of a union and as slice elements
	{
		namings := [][2]string{{"Value", "Other"}, {"Other", "Value"}, {"E0", "E1"}, {"Value", "Value2"}}
		var extra []*c10Type
		for _, nm := range namings {
			for _, c0 := range leaves {
				for _, c1 := range leaves {
					id := len(all) + len(extra)
					name := fmt.Sprintf("R%d", id)
					t := &c10Type{id: id, kind: "record-emitted-field-names", fo: name, gt: name, comps: []*c10Type{c0, c1}}
					t.decl = fmt.Sprintf("type %s = {%s: %s; %s: %s}\n", name, nm[0], c0.fo, nm[1], c1.fo)
					for _, v0 := range c0.small(2) {
						for _, v1 := range c1.small(2) {
							t.vals = append(t.vals, c10Val{name + "{" + v0.canon + ";" + v1.canon + "}", fmt.Sprintf("%s{%s: %s, %s: %s}", name, nm[0], v0.goX, nm[1], v1.goX), "record literal"})
						}
					}
					t.depth = 1
					extra = append(extra, t)
					for _, k := range []int{4, 6} {
						comps := []*c10Type{t, leaves[(id+1)%len(leaves)]}[:c10Arity[k]]
						extra = append(extra, c10Build(len(all)+len(extra), k, comps))
					}
				}
			}
		}
		all = append(all, extra...)
	}
	// wide scalar domains (after seed C10h): the leaves above have two values each.  Integers at and around every
	// power-of-two boundary a narrower representation would have (8, 16, 31, 32, 53 bits: float64 holds 53; 62, 63)
	// with both signs, neighbours that differ by one; strings that differ in case, by a trailing / leading blank, a NUL,
	// in the last of 1000 bytes, composed vs. decomposed accents, invalid UTF-8.  Each domain as scalar, as the single
	// element of a slice, first component of a pair, payload of Opt: all three ways fc lowers `=` see them.
	{
		var ints []c10Val
		seenI := map[string]bool{}
		addI := func(x string) {
			if !seenI[x] {
				seenI[x] = true
				ints = append(ints, c10Val{x, x, "literal"})
			}
		}
		for _, b := range []uint{0, 7, 8, 15, 16, 31, 32, 53, 62} {
			for _, d := range []int64{-1, 0, 1} {
				v := int64(1)<<b + d
				addI(fmt.Sprint(v))
				addI(fmt.Sprint(-v))
			}
		}
		for _, x := range []string{"9223372036854775807", "9223372036854775806", "-9223372036854775807", "-9223372036854775808", "9007199254740994", "4611686018427388416"} {
			addI(x)
		}
		long := strings.Repeat("a", 999)
		var strs []c10Val
		for _, x := range []string{"", "a", "A", "b", "ab", "a ", " a", "a\\x00", "\\x00", "\\u00e9", "e\\u0301", "\\xff", "\\xfe", "\\n", "\\r\\n", long + "a", long + "b", "b" + long} {
			strs = append(strs, c10Val{`"` + x + `"`, `"` + x + `"`, "literal"})
		}
		// the same long text produced differently (a concatenation): an equal twin
		strs = append(strs, c10Val{`"` + long + "a" + `"`, `("` + long + `" + "a")`, "concatenation"})
		var extra []*c10Type
		for _, dm := range []struct {
			kind, ty string
			vals     []c10Val
		}{{"int-wide", "int", ints}, {"string-wide", "string", strs}} {
			base := &c10Type{id: len(all) + len(extra), kind: dm.kind, fo: dm.ty, gt: dm.ty, vals: dm.vals}
			extra = append(extra, base)
			sl := &c10Type{id: len(all) + len(extra), kind: "slice-of-" + dm.kind, fo: "[]" + dm.ty, gt: "[]" + dm.ty, depth: 1, comps: []*c10Type{base}}
			pr := &c10Type{id: len(all) + len(extra) + 1, kind: "pair-of-" + dm.kind, fo: "(" + dm.ty + ")*(bool)", gt: "frt.Tuple2[" + dm.ty + ", bool]", depth: 1, comps: []*c10Type{base}}
			op := &c10Type{id: len(all) + len(extra) + 2, kind: "opt-of-" + dm.kind, fo: "Opt<" + dm.ty + ">", gt: "Opt[" + dm.ty + "]", depth: 1, hasUnion: true, comps: []*c10Type{base}}
			for _, v := range dm.vals {
				sl.vals = append(sl.vals, c10Val{"[" + v.canon + "]", "[]" + dm.ty + "{" + v.goX + "}", "slice literal"})
				pr.vals = append(pr.vals, c10Val{"(" + v.canon + ",true)", "frt.NewTuple2[" + dm.ty + ", bool](" + v.goX + ", true)", "tuple"})
				op.vals = append(op.vals, c10Val{"Some(" + v.canon + ")", "New_Opt_Some[" + dm.ty + "](" + v.goX + ")", "constructor"})
			}
			op.vals = append(op.vals, c10Val{"None", "New_Opt_None[" + dm.ty + "]()", "constructor"})
			extra = append(extra, sl, pr, op)
		}
		all = append(all, extra...)
	}
	for i, t := range all {
		if t.id != i {
			// ids are assigned in enumeration order; names embed them
			panic(fmt.Sprintf("c10: id mismatch %d %d", t.id, i))
		}
	}
	return all, total
}

func checkC10(c *core.Ctx) {
	sc, err := impl.New(c.Repo)
	if err != nil {
		panic(err)
	}
	defer sc.Close()
	fc, err := sc.BuildFC()
	if err != nil {
		panic(err)
	}
	c.Set("rule", "types are enumerated by the choice-tree explorer (constructor x component types: pair, triple, record with upper-case fields, record with lower-case fields, union with payload and bare cases, generic union, slice) to the nesting depth; every type gets a small complete value domain, slices through every producer path (literal, slice.New, nil, Take, Skip, Tail, PopLast, Filter, Map, Append, PushLast, PushHead); for every slice type also related pairs (a value and what PopLast / Tail / Take k / Skip k and two-step chains derive from it - views of the same storage - and two derived values of one base with equal contents at different offsets), both operand orders; for types that contain a union the whole sweep is repeated in 2 further PROCESSES with the value order rotated, so that the first value ever compared at a type is of another case (an equality that remembers something per type from the first value it sees); all ordered pairs of values of one type are compared through the transpiled Folang functions `a = b` and `a <> b` and through frt.OpEqual directly; distinct = distinct (type, value expression); non-trivial = composite value")
	c.Assumption("reference equality: two values are equal iff their canonical descriptions (structure and contents, independent of the producer) are equal")
	depth := 2
	if c.Thorough() {
		depth = 3
	}
	types, st := c10Universe(depth)
	c10AllTypes = types
	c.Count(0, st.States, st.Transitions, 0)
	c.Set("types", len(types))
	c.Set("depth", depth)

	// split the universe into driver builds of bounded size
	per := 400
	for lo := 3; lo < len(types); lo += per {
		hi := lo + per
		if hi > len(types) {
			hi = len(types)
		}
		if c.Expired() || c.TooManyViolations() {
			break
		}
		c10RunChunk(c, sc, fc, types[:3], types[lo:hi])
	}
}

func c10RunChunk(c *core.Ctx, sc *impl.Scratch, fc string, leaves, types []*c10Type) {
	// types.fo: declarations + eq/ne functions.  A chunk must contain the
	// declarations of every named type its members mention: names are only
	// mentioned by deeper types of the same lineage, so emit declarations of all
	// named types with smaller ids that occur in the text.
	var fo strings.Builder
	fo.WriteString("package main\nimport frt\n\ntype Opt<T> =\n  | Some of T\n  | None\n\n")
	var gov strings.Builder
	gov.WriteString("//go:build driver\n\npackage main\n\nimport (\n\t\"github.com/karino2/folang/pkg/frt\"\n\t\"github.com/karino2/folang/pkg/slice\"\n)\n\nvar _ = frt.OpNot\nvar _ = slice.Len[int]\n\nfunc init() {\n")
	declared := map[int]bool{}
	var needDecl func(t *c10Type)
	byID := map[string]*c10Type{}
	for _, t := range c10AllTypes {
		if t.decl != "" {
			byID[t.fo] = t
		}
	}
	needDecl = func(t *c10Type) {
		// declare named types mentioned in t's declaration or type text first
		text := t.decl + " " + t.fo
		for name, dt := range byID {
			if dt.id < t.id && !declared[dt.id] && containsIdent(text, name) {
				needDecl(dt)
			}
		}
		if t.decl != "" && !declared[t.id] {
			declared[t.id] = true
			fo.WriteString(t.decl + "\n")
		}
	}
	all := append(append([]*c10Type{}, leaves...), types...)
	for _, t := range all {
		needDecl(t)
		fmt.Fprintf(&fo, "let eq_%d (a: %s) (b: %s) =\n  a = b\n\nlet ne_%d (a: %s) (b: %s) =\n  a <> b\n\n", t.id, t.fo, t.fo, t.id, t.fo, t.fo)
		fmt.Fprintf(&gov, "\t{\n\t\tvals := []%s{\n", t.gt)
		for _, v := range t.vals {
			fmt.Fprintf(&gov, "\t\t\t%s,\n", v.goX)
		}
		gov.WriteString("\t\t}\n\t\tcanon := []string{")
		for _, v := range t.vals {
			fmt.Fprintf(&gov, "%q, ", v.canon)
		}
		gov.WriteString("}\n\t\thow := []string{")
		for _, v := range t.vals {
			fmt.Fprintf(&gov, "%q, ", v.how)
		}
		gov.WriteString("}\n")
		if len(t.rels) > 0 {
			fmt.Fprintf(&gov, "\t\trelPairs := []func() (%s, %s){\n", t.gt, t.gt)
			for _, r := range t.rels {
				fmt.Fprintf(&gov, "\t\t\tfunc() (%s, %s) { %s },\n", t.gt, t.gt, r.goPair)
			}
			gov.WriteString("\t\t}\n\t\trelCanon := [][2]string{")
			for _, r := range t.rels {
				fmt.Fprintf(&gov, "{%q, %q}, ", r.canonA, r.canonB)
			}
			gov.WriteString("}\n\t\trelHow := []string{")
			for _, r := range t.rels {
				fmt.Fprintf(&gov, "%q, ", r.how)
			}
			gov.WriteString("}\n")
		}
		fmt.Fprintf(&gov, "\t\tregister(&typ{id: %d, kind: %q, fo: %q, n: len(vals), canon: canon, how: how, hasUnion: %v,\n", t.id, t.kind, t.fo, t.hasUnion)
		fmt.Fprintf(&gov, "\t\t\teq: func(i, j int) bool { return eq_%d(vals[i], vals[j]) },\n", t.id)
		fmt.Fprintf(&gov, "\t\t\tne: func(i, j int) bool { return ne_%d(vals[i], vals[j]) },\n", t.id)
		gov.WriteString("\t\t\tdirect: func(i, j int) bool { return frt.OpEqual(vals[i], vals[j]) },\n")
		if len(t.rels) > 0 {
			fmt.Fprintf(&gov, "\t\t\tnrel: len(relPairs), relCanon: relCanon, relHow: relHow,\n\t\t\trel: func(k, op int, swap bool) bool {\n\t\t\t\ta, b := relPairs[k]()\n\t\t\t\tif swap {\n\t\t\t\t\ta, b = b, a\n\t\t\t\t}\n\t\t\t\tswitch op {\n\t\t\t\tcase 0:\n\t\t\t\t\treturn eq_%d(a, b)\n\t\t\t\tcase 1:\n\t\t\t\t\treturn ne_%d(a, b)\n\t\t\t\t}\n\t\t\t\treturn frt.OpEqual(a, b)\n\t\t\t},\n", t.id, t.id)
		}
		gov.WriteString("\t\t})\n\t}\n")
	}
	gov.WriteString("}\n")
	dir := sc.TempDir("c10_")
	defer os.RemoveAll(dir)
	os.WriteFile(filepath.Join(dir, "types.fo"), []byte(fo.String()), 0o644)
	r := impl.RunWithRetry(dir, 120*time.Second, 300*time.Second, fc, "types.fo")
	if r.Exit != 0 {
		c.Violation("C10:types-rejected", "fc rejects the generated type declarations / equality functions: "+firstLines(r.Out(), 3), map[string]any{"input": map[string]string{"types.fo": fo.String()}, "observed": r.Out()})
		return
	}
	gen, err := os.ReadFile(filepath.Join(dir, "gen_types.go"))
	if err != nil {
		panic(err)
	}
	// the driver is compiled together with what fc emitted for the type universe: if THAT does not compile, `=` on
	// these types cannot even be evaluated - a verdict about fc, not a harness failure
	defer func() {
		if r := recover(); r != nil {
			msg := fmt.Sprint(r)
			if strings.Contains(msg, "gen_types.go:") {
				c.Violation("C10:emitted-declarations-do-not-compile", "the Go that fc emitted for the generated type declarations and their `=` / `<>` functions does not compile: "+firstLines(msg[strings.Index(msg, "gen_types.go:"):], 3),
					map[string]any{"input": map[string]string{"types.fo": fo.String()}, "observed": trunc(msg, 3000)})
				return
			}
			panic(r)
		}
	}()
	rep := runDriver(c, sc, "c10", map[string]string{"gen_types.go": "//go:build driver\n\n" + string(gen), "values_gen.go": gov.String()}, 20*time.Minute, c.Tier)
	_ = rep
}

var c10AllTypes []*c10Type

func containsIdent(s, w string) bool {
	i := 0
	for {
		j := strings.Index(s[i:], w)
		if j < 0 {
			return false
		}
		j += i
		isW := func(b byte) bool {
			return b == '_' || b >= '0' && b <= '9' || b >= 'a' && b <= 'z' || b >= 'A' && b <= 'Z'
		}
		if (j == 0 || !isW(s[j-1])) && (j+len(w) >= len(s) || !isW(s[j+len(w)])) {
			return true
		}
		i = j + 1
	}
}
