package main

import (
	"regexp"
	"fmt"
	"os"
	"path/filepath"
	"strings"
	"sync"
	"time"

	"verif/internal/core"
	"verif/internal/fo"
	"verif/internal/gobatch"
	"verif/internal/impl"
)

// C17: tinyfo preserves behaviour on the early-Folang subset.

func init() { register("C17", checkC17) }

const c17Foi = `package_info frt =
  let Println: string->()
  let Sprintf1<T>: string->T->string
  let Printf1<T>: string->T->()
  let Fst<T, U> : T*U->T
  let Snd<T, U> : T*U->U

package_info slice =
  let Length<T>: []T -> int
  let Head<T>: []T -> T
  let Map<T, U> : (T->U)->[]T->[]U
`

const c17Prelude = `package main
import frt
import slice

type R = {A: int; B: string}

// never used: the same field names as R, its name sorts after R - an unqualified {A=..; B=..} is an R for both transpilers
type Rz = {A: int; B: string}

type U =
  | I of int
  | S of string
  | N

let trI (n:int) =
  frt.Printf1 "<%d>" n
  n

let trS (s:string) =
  frt.Printf1 "<%s>" s
  s

let trB (b:bool) =
  frt.Printf1 "<%v>" b
  b

let say (s:string) =
  frt.Printf1 "[%s]" s

let add (a:int) (b:int) =
  a + b

let inc (a:int) =
  a + 1

let zzUseImports () =
  [1] |> slice.Length |> frt.Sprintf1 "%d"

`

func checkC17(c *core.Ctx) {
	sc, err := impl.New(c.Repo)
	if err != nil {
		panic(err)
	}
	defer sc.Close()
	tiny, err := sc.BuildTinyfo()
	if err != nil {
		panic(err)
	}
	fc, err := sc.BuildFC()
	if err != nil {
		panic(err)
	}
	if b, err := os.ReadFile(sc.PkgAllFoi()); err == nil {
		fo.FoiText = string(b)
	}
	c.Set("rule", "programs of the tinyfo profile (annotated functions, + -, comparisons, && || not, if/elif/else, non-generic records and unions with match, slices, pairs and destructuring, pipes, partial application, package_info calls through a tinyfo-readable .foi) are enumerated by the same choice-tree generator as C01 restricted to that profile; a program tinyfo rejects is outside the property's quantifier (counted, not judged); accepted programs are compiled and run three ways: reference evaluator, tinyfo's Go, fc's Go; distinct = distinct program text; non-trivial = at least one construct and two output events")
	c.Assumption("tinyfo cannot read today's pkg/pkg_all.foi; a reduced .foi with the same signatures (frt.Println/Sprintf1/Printf1/Fst/Snd, slice.Length/Head/Map) is used for both transpilers")
	foiPath := filepath.Join(sc.Root, "tiny.foi")
	os.WriteFile(foiPath, []byte(c17Foi), 0o644)
	maxK := 2
	if c.Thorough() {
		maxK = 3
	}
	used := map[string]int64{}
	accepted := map[string]int64{}
	var mu sync.Mutex
	// first the small hand-kept family (a deadline then cuts only the tail of the big enumeration)
	c17TypeGroups(c, sc, tiny, fc, foiPath)
	c17IfShapes(c, sc, tiny, fc, foiPath)
	for k := 0; k <= maxK; k++ {
		if c.Expired() || c.TooManyViolations() {
			c.NotExhaustive(fmt.Sprintf("k=%d not started", k))
			break
		}
		complete := true
		st, n := c01Enumerate(fo.Profile{Tiny: true}, k, 16*300, func(cases []*c01Case) bool {
			if c.Expired() || c.TooManyViolations() {
				complete = false
				return false
			}
			c17RunChunk(c, sc, tiny, fc, foiPath, cases, used, accepted, &mu)
			return true
		})
		c.Count(0, st.States, st.Transitions, 0)
		c.Hist("programs_by_fuel", fmt.Sprintf("k=%d", k), n)
		if !complete || st.Stopped {
			c.NotExhaustive(fmt.Sprintf("k=%d: stopped after %d programs", k, n))
			break
		}
		c.Set("largest_fuel_completed", k)
	}
	// layout styles: tinyfo has its own tokenizer and offside handling; the programs with at most 1 construct (thorough:
	// 2) are also written in three fixed other styles (every layout point of the style at a non-default answer
	// wherever it occurs).  A style tinyfo rejects is outside the quantifier like any rejected program.
	if !c.Expired() && !c.TooManyViolations() {
		styles := map[string]c17Style{
			"arrow-line":         {"arm-block-on-arrow-line": 1, "fun-body-same-line": 1},
			"airy":               {"block-indent": 2, "arm-column": 2, "arm-body-next-line": 1, "let-rhs-next-line": 1, "lambda-body-next-line": 1, "blank-lines-before": 1, "if-inline": 1},
			"pipes-and-comments": {"pipe-break": 2, "comment-before": 1, "line-end": 2},
		}
		maxStyleK := 1
		if c.Thorough() {
			maxStyleK = 2
		}
		var nStyled int64
		for _, name := range []string{"arrow-line", "airy", "pipes-and-comments"} {
			st := styles[name]
			for k := 0; k <= maxStyleK; k++ {
				c01Enumerate(fo.Profile{Tiny: true}, k, 16*300, func(cases []*c01Case) bool {
					if c.Expired() || c.TooManyViolations() {
						return false
					}
					for _, cs := range cases {
						cs.layout = st
					}
					nStyled += int64(len(cases))
					c17RunChunk(c, sc, tiny, fc, foiPath, cases, map[string]int64{}, map[string]int64{}, &mu)
					return true
				})
			}
		}
		// blocks inside arms need two constructs: the arrow-line style also on all programs with 2 constructs over
		// matches, sequencing and lets
		if !c.Thorough() {
			only := map[string]bool{"match-union": true, "match-union-default": true, "match-union-permuted": true, "seq": true, "let": true, "let-destr": true, "app-say": true}
			c01Enumerate(fo.Profile{Tiny: true, Only: only}, 2, 16*300, func(cases []*c01Case) bool {
				if c.Expired() || c.TooManyViolations() {
					return false
				}
				for _, cs := range cases {
					cs.layout = styles["arrow-line"]
				}
				nStyled += int64(len(cases))
				c17RunChunk(c, sc, tiny, fc, foiPath, cases, map[string]int64{}, map[string]int64{}, &mu)
				return true
			})
		}
		c.Set("programs_in_other_layout_styles", nStyled)
	}
	// the scale family (see C01): programs whose size, not nesting, is n; tinyfo judges which it accepts
	if !c.Expired() && !c.TooManyViolations() {
		sizes := []int{3, 9, 10, 11, 17, 33}
		if c.Thorough() {
			sizes = append(sizes, 65, 101)
		}
		var cc []*c01Case
		for _, k := range fo.ScaleCorpus(sizes) {
			cc = append(cc, &c01Case{cs: k})
		}
		c17RunChunk(c, sc, tiny, fc, foiPath, cc, used, accepted, &mu)
		c.Set("scale_family_programs", len(cc))
	}
	c.Set("by_construct_generated", used)
	c.Set("by_construct_accepted_by_tinyfo", accepted)
	var empty []string
	for _, n := range fo.ProdNames(fo.Profile{Tiny: true}) {
		if used[n] > 0 && accepted[n] == 0 {
			empty = append(empty, n)
		}
	}
	if len(empty) > 0 {
		c.Set("constructs_tinyfo_never_accepts", empty)
	}
}

var c17UnionShown = regexp.MustCompile(`\((I|S): ([^()]*)\)`)

// c17UnionPlain: the reference output with every displayed union value in Go's default struct form ({3}, {a}, {})
func c17UnionPlain(want string) string {
	return strings.ReplaceAll(c17UnionShown.ReplaceAllString(want, "{$2}"), "(N)", "{}")
}

// c17Style: a fixed layout - the answer per layout point (0 where the point has fewer answers)
type c17Style map[string]int

func (s c17Style) Choose(point string, n int) int {
	if v, ok := s[point]; ok && v < n {
		return v
	}
	return 0
}

func c17RunChunk(c *core.Ctx, sc *impl.Scratch, tiny, fc, foi string, cases []*c01Case, used, accepted map[string]int64, mu *sync.Mutex) {
	// 1. which programs does tinyfo accept (alone)?
	var wg sync.WaitGroup
	sem := make(chan struct{}, c.Workers)
	acc := make([]bool, len(cases))
	for i, cs := range cases {
		cs.want, cs.ood = cs.cs.Expected(false)
		cs.wantDef, _ = cs.cs.Expected(true)
		cs.src = cs.cs.SourceOpt(cs.layout, true)
		if cs.ood != "" {
			c.AddInt("out_of_domain", 1)
			continue
		}
		wg.Add(1)
		sem <- struct{}{}
		go func(i int, cs *c01Case) {
			defer wg.Done()
			defer func() { <-sem }()
			dir := sc.TempDir("c17a_")
			defer os.RemoveAll(dir)
			os.WriteFile(filepath.Join(dir, "t.fo"), []byte(c17Prelude+cs.src), 0o644)
			r := impl.RunWithRetry(dir, 20*time.Second, 60*time.Second, tiny, foi, "t.fo")
			_, err := os.Stat(filepath.Join(dir, "gen_t.go"))
			acc[i] = r.Exit == 0 && err == nil
			if r.TimedOut {
				c.Violation("C17:tinyfo-hang", "tinyfo does not terminate on:\n"+cs.src, map[string]any{"program": cs.src})
			}
		}(i, cs)
	}
	wg.Wait()
	var live []*c01Case
	for i, cs := range cases {
		if cs.ood != "" {
			continue
		}
		mu.Lock()
		for n, k := range cs.cs.Used {
			used[n] += int64(k)
			if acc[i] {
				accepted[n] += int64(k)
			}
		}
		mu.Unlock()
		if acc[i] {
			live = append(live, cs)
		} else {
			c.AddInt("rejected_by_tinyfo_not_judged", 1)
		}
	}
	// 2. batches through tinyfo and through fc
	const per = 300
	for i := 0; i < len(live); i += per {
		j := i + per
		if j > len(live) {
			j = len(live)
		}
		part := live[i:j]
		wg.Add(1)
		sem <- struct{}{}
		go func() {
			defer wg.Done()
			defer func() { <-sem }()
			progs := make([]gobatch.Prog, len(part))
			for k, cs := range part {
				progs[k] = gobatch.Prog{Defs: c01Suffix(cs.src, k), Run: fmt.Sprintf("run_%d", k)}
			}
			te := &gobatch.Env{Sc: sc, FC: tiny, FCArgs: []string{foi}, Prelude: c17Prelude}
			fe := &gobatch.Env{Sc: sc, FC: fc, FCArgs: []string{foi}, Prelude: c17Prelude}
			tres := te.Run(progs)
			fres := fe.Run(progs)
			for k, cs := range part {
				c.Count(1, 0, 0, 2)
				events := strings.Count(cs.want, "<") + strings.Count(cs.want, "[") + strings.Count(cs.want, "=")
				c.DistinctNT(cs.src, cs.cs.Fuel >= 1 && events >= 2)
				c.Sample(map[string]any{"program": cs.src, "expected_stdout": cs.want})
				tr, fr := tres[k], fres[k]
				tOK := tr.Status == "ok" && tr.Stdout == cs.want
				fOK := fr.Status == "ok" && fr.Stdout == cs.want
				if tOK && fOK {
					c.Outcome("all-three-agree")
					continue
				}
				if !tOK {
					sig, what := c01Classify(cs, tr)
					sig = strings.Replace(sig, "C01:", "C17:tinyfo:", 1)
					if tr.Status == "go-build" && strings.Contains(tr.Detail, "undefined: T") && strings.Contains(cs.src, "slice.Map (frt.Sprintf1 ") {
						// the recorded finding: tinyfo leaves the type parameter of a partially applied generic package_info
						// function unresolved in the closure it emits
						sig = "C17:tinyfo:partial-application-of-generic-package-function"
					}
					if tr.Status == "ok" && strings.Contains(cs.src, "\"=%v;\"") && tr.Stdout == c17UnionPlain(cs.want) {
						// the recorded finding: tinyfo emits no String methods for union cases, so %v shows Go's struct form
						// (attributed only when the output is exactly the reference with every union shown that way)
						sig = "C17:tinyfo:union-displayed-without-string-method"
					}
					c.Outcome(sig)
					c.Violation(sig, fmt.Sprintf("tinyfo's translation: %s (fc's translation: %s %q)\nprogram:\n%s", what, fr.Status, fr.Stdout, cs.src),
						map[string]any{"choices": cs.choices, "program": cs.src, "expected": cs.want, "observed": tr.Status + ": " + tr.Stdout + " " + trunc(tr.Detail, 1200), "fc_output": fr.Stdout})
				} else {
					// tinyfo agrees with the reference, fc does not: C01's subject, reported here as a disagreement between the two transpilers
					sig, what := c01Classify(cs, fr)
					sig = strings.Replace(sig, "C01:", "C17:fc-differs:", 1)
					c.Outcome(sig)
					c.Violation(sig, fmt.Sprintf("fc's translation disagrees with tinyfo's and the reference: %s\nprogram:\n%s", what, cs.src),
						map[string]any{"choices": cs.choices, "program": cs.src, "expected": cs.want, "observed": fr.Status + ": " + fr.Stdout})
				}
			}
		}()
	}
	wg.Wait()
}
