package main

import (
	"time"

	"verif/internal/core"
	"verif/internal/impl"
)

// C14: dict, strings, buf and frt helpers behave as their signatures promise.

func init() { register("C14", checkC14) }

func checkC14(c *core.Ctx) {
	sc, err := impl.New(c.Repo)
	if err != nil {
		panic(err)
	}
	defer sc.Close()
	c.Set("rule", "dict: explicit-state breadth-first search over Add(k,v) on 3 keys x 2 values (successor = replay of the history on a fresh dictionary + one operation; states deduplicated by map contents; every observer checked in every state, twice) plus all non-deduplicated histories to the depth bound and ToDict of the same pair lists; strings: all arguments up to the length bound over {a,b,','} crossed with all separators/affixes of length <= 2; buf: all write sequences over 4 strings with optional intermediate reads; frt: thunk counters, tuple round trips, formatting over every Go basic kind at boundary values; distinct = dictionary states + string arguments + formatted values; non-trivial = dict with >= 2 entries, string of length >= 2, every formatted value")
	c.Assumption("Go's strings package with the documented argument order (Concat sep xs, HasPrefix p s, TrimSuffix suf s, Split sep s, SplitN n sep s) is the oracle for pkg/strings")
	c.Assumption("display form for SInterP: %d for every integer kind, %f for floats, the string itself, %v otherwise")
	runDriver(c, sc, "c14", nil, 20*time.Minute, c.Tier)
	c14FoiConformance(c, sc)
}
