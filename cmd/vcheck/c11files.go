package main

import (
	"fmt"
	"os"
	"path/filepath"
	"strings"
	"time"

	"verif/internal/core"
	"verif/internal/impl"
)

// c11TwoFiles: literals in SEVERAL files of one fc invocation.  Two sibling files of identical byte size whose
// literals start at the same offsets and differ in their text (same length, or another length with the file padded
// to the same size by a comment), in each of the four forms, in both argument orders, with a third file in front.
// Every literal must arrive in the Go file of ITS source file (after seed C11j: scanned literal tokens memoized by
// source length and offset for the whole run).  Judged on the emitted text: gen_b.go contains b's marker and none of a's.
func c11TwoFiles(c *core.Ctx, sc *impl.Scratch, fc string) {
	forms := []struct{ name, open, close string }{{`"..."`, `"`, `"`}, {"`...`", "`", "`"}, {`$"..."`, `$"`, `"`}, {"$`...`", "$`", "`"}}
	type variant struct{ name, a, b, padA, padB string }
	variants := []variant{
		{"same length", "QAQA 100% {x}", "QBQB 100% {x}", "", ""},
		{"other length, same file size", "QAQAQAQA {x}", "QBQB {x}", "", "//pp"},
		{"same length, no hole", "QAQA%", "QBQB%", "", ""},
	}
	dir := sc.TempDir("c11f_")
	defer os.RemoveAll(dir)
	n := 0
	for _, f := range forms {
		for _, v := range variants {
			if strings.Contains(v.a, "{") && !strings.HasPrefix(f.open, "$") {
				// a plain literal keeps the braces as text: fine as well, but the variable must exist only for holes
			}
			mk := func(fn, body, pad string) string {
				return fmt.Sprintf("package main\n\nlet %s (x:int) =\n  %s%s%s\n%s\n", fn, f.open, body, f.close, pad)
			}
			a, b := mk("la", v.a, v.padA), mk("lb", v.b, v.padB)
			if len(a) != len(b) {
				panic(fmt.Sprintf("c11 two files: sizes differ (%d, %d) for %s / %s", len(a), len(b), f.name, v.name))
			}
			pre := "package main\n\nlet lp (x:int) =\n  \"QPQP\"\n"
			for order := 0; order < 3; order++ {
				for _, g := range []string{"gen_a.go", "gen_b.go", "gen_p.go"} {
					os.Remove(filepath.Join(dir, g))
				}
				os.WriteFile(filepath.Join(dir, "a.fo"), []byte(a), 0o644)
				os.WriteFile(filepath.Join(dir, "b.fo"), []byte(b), 0o644)
				os.WriteFile(filepath.Join(dir, "p.fo"), []byte(pre), 0o644)
				args := [][]string{{"a.fo", "b.fo"}, {"b.fo", "a.fo"}, {"p.fo", "a.fo", "b.fo"}}[order]
				r := impl.RunWithRetry(dir, 20*time.Second, 60*time.Second, fc, append([]string{sc.PkgAllFoi()}, args...)...)
				ga, _ := os.ReadFile(filepath.Join(dir, "gen_a.go"))
				gb, _ := os.ReadFile(filepath.Join(dir, "gen_b.go"))
				n++
				c.Count(1, 1, 1, 1)
				c.DistinctNT(fmt.Sprint(f.name, v.name, order), true)
				c.Hist("by_kind", "two-files", 1)
				okA := strings.Contains(string(ga), "QAQA") && !strings.Contains(string(ga), "QBQB")
				okB := strings.Contains(string(gb), "QBQB") && !strings.Contains(string(gb), "QAQA")
				if r.Exit == 0 && okA && okB {
					c.Outcome("ok")
					continue
				}
				c.Outcome("literal-in-the-wrong-file")
				c.Violation("C11:two-files:"+f.name, fmt.Sprintf("two files of identical size given to one fc run (%v; literals %s, %s): exit=%d, gen_a.go has its own text: %v, gen_b.go has its own text: %v %s", args, f.name, v.name, r.Exit, okA, okB, firstLines(r.Out(), 3)),
					map[string]any{"kind": "two-files", "input": map[string]string{"a.fo": a, "b.fo": b}, "args": args, "expected": "every literal in the Go file of its own source file", "observed": fmt.Sprintf("exit=%d a:%v b:%v", r.Exit, okA, okB)})
			}
		}
	}
	c.Set("two_file_invocations", n)
}
