package main

import (
	"fmt"
	"go/ast"
	"go/parser"
	"go/token"
	"os"
	"path/filepath"
	"regexp"
	"sort"
	"strconv"
	"strings"
	"sync"
	"time"

	"verif/internal/core"
	"verif/internal/explore"
	"verif/internal/folex"
	"verif/internal/impl"
)

// C16: fc always terminates with either complete output or a diagnostic.

func init() { register("C16", checkC16) }

type c16Seed struct {
	name string
	src  string
	foi  bool // needs pkg_all.foi
}

func c16Seeds(sc *impl.Scratch) []c16Seed {
	var seeds []c16Seed
	// the samples
	ents, _ := os.ReadDir(filepath.Join(sc.Src, "samples"))
	for _, e := range ents {
		if strings.HasSuffix(e.Name(), ".fo") {
			b, _ := os.ReadFile(filepath.Join(sc.Src, "samples", e.Name()))
			seeds = append(seeds, c16Seed{"samples/" + e.Name(), string(b), true})
		}
	}
	// the test corpus: string literals of fc's tests that are Folang programs
	fset := token.NewFileSet()
	if f, err := parser.ParseFile(fset, filepath.Join(sc.Src, "fc", "fc_parser_test.go"), nil, 0); err == nil {
		n := 0
		seen := map[string]bool{}
		ast.Inspect(f, func(nd ast.Node) bool {
			if bl, ok := nd.(*ast.BasicLit); ok && bl.Kind == token.STRING {
				s, err := strconv.Unquote(bl.Value)
				if err == nil && strings.HasPrefix(s, "package main") && !strings.Contains(s, "%s") && !seen[s] {
					seen[s] = true
					seeds = append(seeds, c16Seed{fmt.Sprintf("fc_parser_test.go#%d", n), s, false})
					n++
				}
			}
			return true
		})
	}
	// hand-kept boundary seeds
	cdir := filepath.Join(core.VerifDir, "corpus", "c16")
	ents, _ = os.ReadDir(cdir)
	for _, e := range ents {
		if strings.HasSuffix(e.Name(), ".fo") {
			b, _ := os.ReadFile(filepath.Join(cdir, e.Name()))
			seeds = append(seeds, c16Seed{"corpus/c16/" + e.Name(), string(b), strings.Contains(string(b), "import ")})
		}
	}
	sort.SliceStable(seeds, func(i, j int) bool {
		if len(seeds[i].src) != len(seeds[j].src) {
			return len(seeds[i].src) < len(seeds[j].src)
		}
		return seeds[i].name < seeds[j].name
	})
	return seeds
}

var c16Ins = []string{"\"", "`", "$\"", "/*", "*/", "//", "{", "}", "(", ")", "[", "|", "->", "=", "match", "let", "with", "then"}

type c16Mut struct {
	text string
	desc []string
}

// c16Driver builds one mutant of seed from the chooser's answers (0 = leave alone).
func c16Driver(seed string) func(c *explore.Chooser) *c16Mut {
	toks := folex.Lex(seed)
	var sig []int
	for i, t := range toks {
		if t.Significant() {
			sig = append(sig, i)
		}
	}
	return func(c *explore.Chooser) *c16Mut {
		m := &c16Mut{}
		texts := make([]string, len(toks))
		for i, t := range toks {
			texts[i] = t.Text
		}
		pre := make([]string, len(toks)+1) // insertion before token i (or at the end)
		// token operators
		for k, ti := range sig {
			ar := 4
			if k == len(sig)-1 {
				ar = 3
			}
			switch c.Choose(ar) {
			case 1:
				texts[ti] = ""
				m.desc = append(m.desc, fmt.Sprintf("del(token %d %q)", k, toks[ti].Text))
			case 2:
				texts[ti] = toks[ti].Text + " " + toks[ti].Text
				m.desc = append(m.desc, fmt.Sprintf("dup(token %d %q)", k, toks[ti].Text))
			case 3:
				nx := sig[k+1]
				texts[ti], texts[nx] = texts[nx], texts[ti]
				m.desc = append(m.desc, fmt.Sprintf("swap(token %d %q, %q)", k, toks[ti].Text, toks[nx].Text))
			}
		}
		// insertions at every token boundary
		for k := 0; k <= len(sig); k++ {
			x := c.Choose(1 + len(c16Ins))
			if x > 0 {
				at := len(toks)
				if k < len(sig) {
					at = sig[k]
				}
				pre[at] = c16Ins[x-1] + " "
				if k == len(sig) {
					pre[at] = " " + c16Ins[x-1]
				}
				m.desc = append(m.desc, fmt.Sprintf("ins(boundary %d, %q)", k, c16Ins[x-1]))
			}
		}
		var sb strings.Builder
		for i := range toks {
			sb.WriteString(pre[i])
			sb.WriteString(texts[i])
		}
		sb.WriteString(pre[len(toks)])
		text := sb.String()
		// line re-indentation
		lines := strings.Split(text, "\n")
		nl := len(strings.Split(seed, "\n")) // arity must not depend on earlier answers
		for li := 0; li < nl; li++ {
			d := c.Choose(6)
			if d == 0 || li >= len(lines) {
				continue
			}
			ln := lines[li]
			ind := len(ln) - len(strings.TrimLeft(ln, " "))
			switch d {
			case 1:
				ln = strings.Repeat(" ", max(0, ind-2)) + ln[ind:]
			case 2:
				ln = strings.Repeat(" ", max(0, ind-1)) + ln[ind:]
			case 3:
				ln = " " + ln
			case 4:
				ln = "  " + ln
			case 5:
				ln = ln[ind:]
			}
			if ln != lines[li] {
				lines[li] = ln
			}
			m.desc = append(m.desc, fmt.Sprintf("indent(line %d, %s)", li+1, []string{"", "-2", "-1", "+1", "+2", "->0"}[d]))
		}
		text = strings.Join(lines, "\n")
		// truncation at every byte offset
		tr := c.Choose(1 + len(seed))
		if tr > 0 {
			off := tr - 1
			if off < len(text) {
				text = text[:off]
			}
			m.desc = append(m.desc, fmt.Sprintf("trunc(%d)", off))
		}
		// removal of the final newline(s)
		if c.Choose(2) == 1 {
			text = strings.TrimRight(text, "\n")
			m.desc = append(m.desc, "nofinalnl")
		}
		m.text = text
		return m
	}
}

type c16Outcome struct {
	class  string
	sig    string
	detail string
}

var c16Frame = regexp.MustCompile(`(?m)^main\.([A-Za-z0-9_]+)(?:\[[^\]]*\])?(?:\.func\d+)*\(`)

// c16Classify runs fc on files (already written in dir) and classifies the outcome.
// gens: expected gen files (one per .fo argument, in order).
func c16Run(fc, dir string, args []string, gens []string) (impl.Result, c16Outcome) {
	return c16RunT(fc, dir, args, gens, 10*time.Second, 30*time.Second)
}

// c16RunT: first attempt with timeout t1, a timed-out run is repeated with t2 before it is called a hang.
func c16RunT(fc, dir string, args []string, gens []string, t1, t2 time.Duration) (impl.Result, c16Outcome) {
	for _, g := range gens {
		os.Remove(filepath.Join(dir, g))
	}
	r := impl.Run(dir, t1, "", fc, args...)
	if r.TimedOut {
		r = impl.Run(dir, t2, "", fc, args...)
	}
	out := r.Out()
	switch {
	case r.TimedOut:
		return r, c16Outcome{class: "hang"}
	case strings.Contains(out, "fatal error:") || strings.Contains(out, "goroutine stack exceeds") || strings.Contains(out, "out of memory") || strings.Contains(out, "cannot allocate memory"):
		// the recursion cycle: the minimal period of the topmost main.* frames
		var fr []string
		top := r.Stderr
		if i := strings.Index(top, "additional frames elided"); i >= 0 {
			top = top[:i]
		}
		for _, m := range c16Frame.FindAllStringSubmatch(top, -1) {
			fr = append(fr, m[1])
		}
		ns := c16Cycle(fr)
		kind := "fatal"
		if strings.Contains(out, "stack exceeds") || strings.Contains(out, "stack overflow") {
			kind = "stack-overflow"
		} else if strings.Contains(out, "out of memory") || strings.Contains(out, "cannot allocate") {
			kind = "oom"
		}
		return r, c16Outcome{class: kind, detail: "{" + strings.Join(ns, ",") + "}"}
	case r.Signal != "":
		return r, c16Outcome{class: "killed", detail: r.Signal}
	}
	complete := func(g string) (exists bool, ok bool) {
		st, err := os.Lstat(filepath.Join(dir, g))
		if err != nil {
			return false, false
		}
		if !st.Mode().IsRegular() {
			return true, false
		}
		b, err := os.ReadFile(filepath.Join(dir, g))
		return true, err == nil && len(b) > 0 && b[len(b)-1] == '\n'
	}
	if r.Exit == 0 {
		for _, g := range gens {
			if _, ok := complete(g); !ok {
				return r, c16Outcome{class: "ok-incomplete", detail: g}
			}
		}
		return r, c16Outcome{class: "ok"}
	}
	// rejected: which file is the offending one? the first whose gen is missing
	diag := false
	for _, ln := range strings.Split(out, "\n") {
		ln = strings.TrimSpace(ln)
		if ln != "" && !strings.HasPrefix(ln, "transpile:") {
			diag = true
		}
	}
	if !diag {
		return r, c16Outcome{class: "rejected-silent"}
	}
	// every gen that exists must be complete, and they must form a prefix of the argument list
	missing := false
	for _, g := range gens {
		ex, ok := complete(g)
		if ex && missing {
			return r, c16Outcome{class: "rejected-dirty", detail: g + " exists after a failed file"}
		}
		if ex && !ok {
			return r, c16Outcome{class: "rejected-dirty", detail: g + " is incomplete"}
		}
		if !ex {
			missing = true
		}
	}
	if !missing {
		return r, c16Outcome{class: "rejected-dirty", detail: "non-zero exit but every output exists"}
	}
	return r, c16Outcome{class: "rejected"}
}

// c16Cycle names the recursion cycle of a stack overflow from its frames (innermost first).
func c16Cycle(fr []string) []string {
	if len(fr) > 48 {
		fr = fr[:48]
	}
	// members of the cycle occur again and again among the innermost frames;
	// leaf calls made at the moment of the overflow and entry frames occur once
	cnt := map[string]int{}
	for _, f := range fr {
		cnt[f]++
	}
	var ns []string
	for n, k := range cnt {
		if k >= 3 {
			ns = append(ns, n)
		}
	}
	if len(ns) == 0 {
		for n := range cnt {
			ns = append(ns, n)
		}
	}
	sort.Strings(ns)
	return ns
}

// c16HasRecursiveRecord: the text declares a record type that reaches itself
// through record fields only (directly, through slices/tuples, or through other
// records of an `and` group).
func c16HasRecursiveRecord(text string) bool {
	toks := folex.Lex(text)
	var sig []folex.Token
	for _, t := range toks {
		if t.Significant() && t.Kind != folex.Comment {
			sig = append(sig, t)
		}
	}
	edges := map[string][]string{}
	for i := 0; i+3 < len(sig); i++ {
		if sig[i].Kind == folex.Ident && (sig[i].Text == "type" || sig[i].Text == "and") && sig[i+1].Kind == folex.Ident {
			name := sig[i+1].Text
			j := i + 2
			if sig[j].Text == "<" {
				for j < len(sig) && sig[j].Text != ">" {
					j++
				}
				j++
			}
			if j+1 < len(sig) && sig[j].Text == "=" && sig[j+1].Text == "{" {
				for k := j + 2; k < len(sig) && sig[k].Text != "}"; k++ {
					if sig[k].Kind == folex.Ident && sig[k-1].Text != ";" && sig[k-1].Text != "{" {
						edges[name] = append(edges[name], sig[k].Text)
					}
				}
			}
		}
	}
	var reach func(from, target string, seen map[string]bool) bool
	reach = func(from, target string, seen map[string]bool) bool {
		for _, n := range edges[from] {
			if n == target {
				return true
			}
			if _, isRec := edges[n]; isRec && !seen[n] {
				seen[n] = true
				if reach(n, target, seen) {
					return true
				}
			}
		}
		return false
	}
	for r := range edges {
		if reach(r, r, map[string]bool{}) {
			return true
		}
	}
	return false
}

// endsInLineComment: the text ends inside a // comment without a newline
func c16EndsInLineComment(text string) bool {
	toks := folex.Lex(text)
	if len(toks) == 0 {
		return false
	}
	last := toks[len(toks)-1]
	return last.Kind == folex.Comment && strings.HasPrefix(last.Text, "//")
}

func c16Sig(o c16Outcome, text string) string {
	switch o.class {
	case "hang":
		if c16EndsInLineComment(text) {
			return "C16:hang:line-comment-at-EOF"
		}
		return "C16:hang:other"
	case "stack-overflow", "fatal", "oom":
		if c16HasRecursiveRecord(text) {
			// the unbounded recursion ends as a stack overflow or, under the address-space limit, as out of memory
			return "C16:stack-overflow:recursive-record"
		}
		return "C16:" + o.class + ":" + o.detail
	}
	return "C16:" + o.class
}

func checkC16(c *core.Ctx) {
	sc, err := impl.New(c.Repo)
	if err != nil {
		panic(err)
	}
	defer sc.Close()
	fc, err := sc.BuildFC()
	if err != nil {
		panic(err)
	}
	c.Set("rule", "inputs: every seed (the samples, the Folang programs embedded in fc's tests, the boundary seeds of corpus/c16) x every combination of at most d mutation operators (deviation-bounded choice tree: del/dup/swap of every token, 18 insertions at every token boundary, 5 re-indentations of every line, truncation at every byte offset, final newline removed), an ill-typed / self-referential definition grammar, and every fault combination over argument lists of 1..3 files; distinct = distinct input text or fault pattern; non-trivial = the input differs from its seed")
	c.Assumption("outcome classes: ok (exit 0, every requested gen_X.go rewritten and newline-terminated) and rejected (exit != 0, a diagnostic line, no output for the offending file, earlier outputs complete) satisfy the property; hang (timeout 10 s, re-run with 30 s; normal runs take milliseconds), Go runtime fatal errors, ok-incomplete, rejected-dirty and rejected-silent violate it")
	c.Assumption("the sandbox runs as root, so permission bits are not a usable fault; unwritable destinations are a directory in place of gen_X.go and a symlink to /dev/full")
	if c.ReplayFile != "" {
		c16Replay(c, fc, sc)
		return
	}
	seeds := c16Seeds(sc)
	c.Set("seeds", len(seeds))
	nSingle := len(seeds)
	if !c.Thorough() && nSingle > 40 {
		nSingle = 40
	}

	type job struct {
		seed    *c16Seed
		mut     *c16Mut
		choices []int
	}
	jobs := make(chan job, 1024)
	var wg sync.WaitGroup
	for w := 0; w < c.Workers; w++ {
		wg.Add(1)
		go func() {
			defer wg.Done()
			dir := sc.TempDir("c16_")
			defer os.RemoveAll(dir)
			for j := range jobs {
				if c.TooManyViolations() {
					continue
				}
				os.WriteFile(filepath.Join(dir, "t.fo"), []byte(j.mut.text), 0o644)
				args := []string{"t.fo"}
				if j.seed.foi {
					args = []string{sc.PkgAllFoi(), "t.fo"}
				}
				r, o := c16Run(fc, dir, args, []string{"gen_t.go"})
				c.Count(1, 0, 0, 1)
				c.Outcome(o.class)
				c.Hist("outcome_counts", o.class, 1)
				c.DistinctNT(j.mut.text, j.mut.text != j.seed.src)
				if len(j.mut.desc) > 0 {
					c.Hist("by_operator", strings.SplitN(j.mut.desc[0], "(", 2)[0], 1)
				}
				c.Sample(map[string]any{"seed": j.seed.name, "mutation": j.mut.desc, "outcome": o.class})
				if o.class == "ok" || o.class == "rejected" {
					continue
				}
				sig := c16Sig(o, j.mut.text)
				c.Violation(sig, fmt.Sprintf("fc on a mutant of %s (%v): %s %s", j.seed.name, j.mut.desc, o.class, o.detail),
					map[string]any{"kind": "mutant", "seed": j.seed.name, "choices": j.choices, "mutation": j.mut.desc, "foi": j.seed.foi,
						"input": map[string]string{"t.fo": j.mut.text}, "expected": "ok or rejected", "observed": o.class + " " + o.detail + " exit=" + fmt.Sprint(r.Exit) + " " + trunc(r.Out(), 1500)})
			}
		}()
	}
	var total explore.Stats
	sweep := func(sd *c16Seed, bound int) bool {
		drv := c16Driver(sd.src)
		var cur *c16Mut
		st := explore.Explore(bound, func(ch *explore.Chooser) { cur = drv(ch) }, func(ch *explore.Chooser) bool {
			if c.Expired() || c.TooManyViolations() {
				return false
			}
			jobs <- job{sd, cur, append([]int{}, ch.Choices...)}
			return true
		})
		total.Add(st)
		return !st.Stopped
	}
	doneSingle, donePairs := 0, 0
	for i := 0; i < nSingle; i++ {
		if !sweep(&seeds[i], 1) {
			break
		}
		doneSingle++
	}
	// the seeds beyond the swept ones at least as they are (0 deviations): a hand-kept boundary seed must not wait
	// for the thorough tier because it is longer than the 40 shortest
	doneAsIs := 0
	for i := nSingle; i < len(seeds); i++ {
		if !sweep(&seeds[i], 0) {
			break
		}
		doneAsIs++
	}
	c.Set("seeds_run_unmutated_only", doneAsIs)
	if c.Thorough() {
		// all pairs of mutations on the smallest seeds
		for i := 0; i < len(seeds) && i < 10; i++ {
			if len(seeds[i].src) > 120 {
				break
			}
			if !sweep(&seeds[i], 2) {
				break
			}
			donePairs++
		}
	}
	close(jobs)
	wg.Wait()
	c.Count(0, total.States, total.Transitions, 0)
	c.Set("seeds_swept_with_1_deviation", doneSingle)
	c.Set("seeds_swept_with_2_deviations", donePairs)
	c.Set("explorer", map[string]any{"executions": total.Executions, "cut_by_bound": total.CutByBound, "max_depth": total.MaxDepth})
	if doneSingle < nSingle {
		c.NotExhaustive(fmt.Sprintf("only %d of %d seeds were swept", doneSingle, nSingle))
	}
	c16IllTyped(c, fc, sc)
	c16TypeGraphs(c, fc, sc)
	c16Scale(c, fc, sc)
	c16Faults(c, fc, sc)
	c16ArgShapes(c, fc, sc)
}

// ---- ill-typed / self-referential definitions ----

var c16IllDefs = []string{
	"let f x =\n  x x\n",
	"let f x =\n  f\n",
	"let f x =\n  f f\n",
	"let f x =\n  [x; [x]]\n",
	"let f x =\n  let (a, b) = x\n  let (c, d) = a\n  (a, c) = x\n",
	"let f x =\n  (x, x) = x\n",
	"let f x y =\n  x y y x\n",
	"let f (x:int) =\n  x \"a\"\n",
	"let f x =\n  if x then x else [x]\n",
	"let f x =\n  x + [x]\n",
	"let f x =\n  let g y = y x\n  g g\n",
	"let f x =\n  (fun y -> y y) x\n",
	"type R = {F: R}\n\nlet mk (r:R) = r.F\n",
	"type R = {F: []R}\n\nlet mk (r:R) = r.F\n",
	"type R = {F: R; G: int}\n\nlet mk (r:R) =\n  {F=r; G=1}\n",
	"type A = {B: B}\nand B = {A: A}\n\nlet f (a:A) = a.B.A\n",
	"type A = {B: []B}\nand B = {A: A; N: int}\n\nlet f (a:A) = a.B\n",
	"type U =\n  | C of U\n  | D\n\nlet f (u:U) =\n  match u with\n  | C v -> v\n  | D -> u\n",
	"type U =\n  | C of U*U\n  | D\n\nlet f (u:U) = C (u, u)\n",
	"type G<T> = {V: G<T>}\n\nlet f (g:G<int>) = g.V\n",
	"type G<T> = {V: T; N: []G<T>}\n\nlet f (g:G<int>) = g.N\n",
	"type G<T> = {V: G<G<T>>}\n\nlet f (g:G<int>) = g.V\n",
	"type W<T> =\n  | Wc of W<T>\n  | We of T\n\nlet f (w:W<int>) = Wc w\n",
	"let f x =\n  let y = x\n  let z = y x\n  z y\n",
	"let f g =\n  g (g 1) \"a\"\n",
	"let rec x = x\n",
	"let f x =\n  slice.Map x x\n",
	"let f x =\n  x |> x |> x\n",
	"let f x =\n  frt.Fst x |> frt.Snd x\n",
	"let f x =\n  match x with\n  | \"a\" -> x\n  | y -> f y\n",
}

// c16CyclicDriver enumerates definitions whose list literals relate nestings of two un-annotated
// parameters: let f x y = let a = [E1; E2] (; let b = [E3; E4]) (; [E5; E6; E7]); every choice of
// E from { x, y, [x], [y], [[x]], [[y]], (x, y) }.  Most are ill-typed (a type containing itself, directly
// or through the other variable); fc must say so, not die.
func c16CyclicDriver() func(c *explore.Chooser) string {
	// (x, x) and ((x, x), (x, x)): relations that DOUBLE every resolver round (genuine defect 3d7dccf: out of memory)
	es := []string{"x", "y", "[x]", "[y]", "[[x]]", "[[y]]", "(x, y)", "(x, x)", "((x, x), (x, x))"}
	return func(c *explore.Chooser) string {
		pick := func() string { return es[c.Choose(len(es))] }
		var sb strings.Builder
		sb.WriteString("let f x y =\n")
		switch c.Choose(3) {
		case 0: // one literal of three elements
			fmt.Fprintf(&sb, "  [%s; %s; %s]\n", pick(), pick(), pick())
		case 1: // two literals of two elements
			fmt.Fprintf(&sb, "  let a = [%s; %s]\n  let b = [%s; %s]\n  (a, b)\n", pick(), pick(), pick(), pick())
		case 2: // an equality and a literal
			fmt.Fprintf(&sb, "  let a = %s = %s\n  let b = [%s; %s]\n  (a, b)\n", pick(), pick(), pick(), pick())
		}
		return sb.String()
	}
}

func c16IllTyped(c *core.Ctx, fc string, sc *impl.Scratch) {
	dir := sc.TempDir("c16i_")
	defer os.RemoveAll(dir)
	// the systematic part: every small definition relating nestings of two parameters
	{
		drv := c16CyclicDriver()
		jobs := make(chan string, 256)
		var wg sync.WaitGroup
		for w := 0; w < c.Workers; w++ {
			wg.Add(1)
			go func() {
				defer wg.Done()
				d := sc.TempDir("c16y_")
				defer os.RemoveAll(d)
				for def := range jobs {
					if c.TooManyViolations() {
						continue
					}
					src := "package main\n\n" + def
					os.WriteFile(filepath.Join(d, "t.fo"), []byte(src), 0o644)
					r, o := c16Run(fc, d, []string{"t.fo"}, []string{"gen_t.go"})
					c.Count(1, 0, 0, 1)
					c.Outcome(o.class)
					c.Hist("outcome_counts", o.class, 1)
					c.Hist("by_operator", "cyclic-type-grammar", 1)
					c.DistinctNT(src, true)
					if o.class == "ok" || o.class == "rejected" {
						continue
					}
					c.Violation(c16Sig(o, src), fmt.Sprintf("fc on the (ill-typed) definition %q: %s %s", def, o.class, o.detail),
						map[string]any{"kind": "ill-typed", "foi": false, "input": map[string]string{"t.fo": src}, "expected": "ok or rejected", "observed": o.class + " " + o.detail + " exit=" + fmt.Sprint(r.Exit) + " " + trunc(r.Out(), 1500)})
				}
			}()
		}
		var cur string
		st := explore.Explore(-1, func(ch *explore.Chooser) { cur = drv(ch) }, func(ch *explore.Chooser) bool {
			if c.Expired() {
				return false
			}
			jobs <- cur
			return true
		})
		close(jobs)
		wg.Wait()
		c.Count(0, st.States, st.Transitions, 0)
		c.Set("cyclic_type_definitions", st.Executions)
	}
	run := func(defs []string, name string) {
		src := "package main\nimport frt\nimport slice\n\n" + strings.Join(defs, "\n")
		os.WriteFile(filepath.Join(dir, "t.fo"), []byte(src), 0o644)
		r, o := c16Run(fc, dir, []string{sc.PkgAllFoi(), "t.fo"}, []string{"gen_t.go"})
		c.Count(1, 1, 1, 1)
		c.Outcome(o.class)
		c.Hist("outcome_counts", o.class, 1)
		c.Hist("by_operator", "ill-typed", 1)
		c.DistinctNT(src, true)
		if o.class == "ok" || o.class == "rejected" {
			return
		}
		c.Violation(c16Sig(o, src), fmt.Sprintf("fc on the ill-typed / self-referential definition %s: %s %s", name, o.class, o.detail),
			map[string]any{"kind": "ill-typed", "foi": true, "input": map[string]string{"t.fo": src}, "expected": "ok or rejected", "observed": o.class + " " + o.detail + " exit=" + fmt.Sprint(r.Exit) + " " + trunc(r.Out(), 1500)})
	}
	for i, d := range c16IllDefs {
		run([]string{d}, fmt.Sprintf("#%d %q", i, d))
	}
	if c.Thorough() {
		for i, a := range c16IllDefs {
			for j, b := range c16IllDefs {
				if i == j || strings.HasPrefix(a, "type") && strings.HasPrefix(b, "type") || c.Expired() {
					continue
				}
				// rename the second definition's function to avoid a trivial redefinition
				b2 := strings.Replace(b, "let f ", "let f2 ", 1)
				b2 = strings.Replace(b2, "let mk ", "let mk2 ", 1)
				run([]string{a, b2}, fmt.Sprintf("#%d+#%d", i, j))
			}
		}
	}
}

// c16TypeGraphs: type declarations whose reference graph is large or cyclic.  fc's passes walk from a type into
// the types of its fields / payloads; a walk that re-enters a type at every occurrence is exponential in the
// depth of a chain in which each type mentions the next one twice, and endless on a cycle.  Enumerated:
// node kind (record, union, generic record, alternating record/union) x occurrences of the next type per node
// (1..3, as fields, tuple components or slice elements) x depth (4..48; thorough ..128) x closure (a leaf, the
// chain's own head = a cycle through an `and` group, a self-reference of the last node through a slice) x a
// user (a function that takes the head / builds nothing).  Every input must end as ok or rejected in time.
func c16TypeGraphs(c *core.Ctx, fc string, sc *impl.Scratch) {
	depths := []int{4, 8, 16, 24, 32, 48}
	if c.Thorough() {
		depths = append(depths, 64, 96, 128)
	}
	kinds := []string{"record", "union", "generic-record", "alternating"}
	closures := []string{"leaf", "self-through-slice", "cycle-and-group"}
	type job struct{ name, src string }
	var jobsList []job
	for _, kind := range kinds {
		for mult := 1; mult <= 3; mult++ {
			for _, n := range depths {
				for _, cl := range closures {
					var decls []string
					ref := func(i int) string {
						if i > n {
							return "int"
						}
						if kind == "generic-record" {
							return fmt.Sprintf("Tn%d<int>", i)
						}
						return fmt.Sprintf("Tn%d", i)
					}
					node := func(i int, next string) string {
						isRec := kind == "record" || kind == "generic-record" || (kind == "alternating" && i%2 == 0)
						name := fmt.Sprintf("Tn%d", i)
						if kind == "generic-record" {
							name += "<T>"
						}
						if isRec {
							var fs []string
							for j := 0; j < mult; j++ {
								ft := next
								if j == 1 {
									ft = "[]" + next
								}
								fs = append(fs, fmt.Sprintf("F%d_%d: %s", i, j, ft))
							}
							if kind == "generic-record" {
								fs = append(fs, fmt.Sprintf("G%d: T", i))
							}
							return name + " = {" + strings.Join(fs, "; ") + "}"
						}
						var parts []string
						for j := 0; j < mult; j++ {
							parts = append(parts, next)
						}
						return fmt.Sprintf("%s =\n  | Cn%d of %s\n  | Dn%d", name, i, strings.Join(parts, "*"), i)
					}
					switch cl {
					case "leaf":
						// dependency order: the last node first
						for i := n; i >= 0; i-- {
							decls = append(decls, "type "+node(i, ref(i+1))+"\n")
						}
					case "self-through-slice":
						for i := n; i >= 0; i-- {
							nx := ref(i + 1)
							if i == n {
								nx = "[]" + ref(n)
							}
							decls = append(decls, "type "+node(i, nx)+"\n")
						}
					case "cycle-and-group":
						// one `type ... and ...` group in which the last node refers back to the head
						var g []string
						for i := 0; i <= n; i++ {
							nx := ref(i + 1)
							if i == n {
								nx = "[]" + ref(0)
							}
							g = append(g, node(i, nx))
						}
						decls = append(decls, "type "+strings.Join(g, "\nand ")+"\n")
					}
					user := "let use0 (x:" + ref(0) + ") =\n  1\n"
					src := "package main\n\n" + strings.Join(decls, "\n") + "\n" + user
					jobsList = append(jobsList, job{fmt.Sprintf("%s x%d depth %d %s", kind, mult, n, cl), src})
				}
			}
		}
	}
	jobs := make(chan job, 64)
	var wg sync.WaitGroup
	for w := 0; w < c.Workers; w++ {
		wg.Add(1)
		go func() {
			defer wg.Done()
			d := sc.TempDir("c16g_")
			defer os.RemoveAll(d)
			for j := range jobs {
				if c.TooManyViolations() || c.Expired() {
					continue
				}
				os.WriteFile(filepath.Join(d, "t.fo"), []byte(j.src), 0o644)
				r, o := c16Run(fc, d, []string{"t.fo"}, []string{"gen_t.go"})
				c.Count(1, 1, 1, 1)
				c.Outcome(o.class)
				c.Hist("outcome_counts", o.class, 1)
				c.Hist("by_operator", "type-graph", 1)
				c.DistinctNT(j.src, true)
				if o.class == "ok" || o.class == "rejected" {
					continue
				}
				sig := c16Sig(o, j.src)
				if o.class == "hang" {
					sig = "C16:hang:type-graph:" + strings.Fields(j.name)[0]
				}
				c.Violation(sig, fmt.Sprintf("fc on a type graph (%s): %s %s", j.name, o.class, o.detail),
					map[string]any{"kind": "type-graph", "foi": false, "input": map[string]string{"t.fo": j.src}, "expected": "ok or rejected", "observed": o.class + " " + o.detail + " exit=" + fmt.Sprint(r.Exit) + " " + trunc(r.Out(), 1500)})
			}
		}()
	}
	for _, j := range jobsList {
		jobs <- j
	}
	close(jobs)
	wg.Wait()
	c.Set("type_graphs", len(jobsList))
}

// c16Scale: inputs whose SIZE is the point.  (a) one very long physical line (a string literal, a // comment, a
// /* */ comment, a slice literal, a raw string of many lines) between two ordinary definitions, at lengths around
// the sizes where buffered readers and scanners change behaviour (4 KiB, 64 KiB) and beyond; the run must be ok
// AND every top-level definition of the input must have its declaration in gen_t.go ("completely written" -
// a source silently cut at a long line still gives a newline-terminated file).  (b) deep nesting: parentheses,
// slice literals, tuples, `not`, if/else blocks, lambdas, slice types, nested to depth 50..5000 (thorough
// ..100000): ok or rejected, never a Go runtime fatal error.
func c16Scale(c *core.Ctx, fc string, sc *impl.Scratch) {
	type job struct {
		name, src string
		defs      []string // Go declarations that must be present when the run is ok
		class     string   // family, for the signature
	}
	var list []job
	lens := []int{1000, 4095, 4096, 4097, 65535, 65536, 65537, 70000, 200000}
	if c.Thorough() {
		lens = append(lens, 1<<20, 3<<20)
	}
	rep := func(s string, n int) string { return strings.Repeat(s, n/len(s)+1)[:n] }
	for _, n := range lens {
		pre := "package main\n\nlet before () =\n  1\n\n"
		post := "\nlet after () =\n  2\n"
		list = append(list,
			job{fmt.Sprintf("string literal of %d bytes on one line", n), pre + "let payload () = \"" + rep("x", n) + "\"\n" + post, []string{"func before", "func payload", "func after"}, "long-line"},
			job{fmt.Sprintf("// comment of %d bytes", n), pre + "// " + rep("c ", n) + "\n" + post, []string{"func before", "func after"}, "long-line"},
			job{fmt.Sprintf("/* */ comment of %d bytes on one line", n), pre + "/* " + rep("c ", n) + " */\n" + post, []string{"func before", "func after"}, "long-line"},
			job{fmt.Sprintf("raw string of %d bytes over many lines", n), pre + "let payload () =\n  `" + rep("line\n", n) + "`\n" + post, []string{"func before", "func payload", "func after"}, "long-line"},
		)
		if n <= 70000 {
			list = append(list, job{fmt.Sprintf("slice literal of %d bytes on one line", n), pre + "let payload () = [" + rep("1; ", n) + "1]\n" + post, []string{"func before", "func payload", "func after"}, "long-line"})
		}
	}
	// a type whose SIZE doubles with every let (a1 = (a0, a0), a2 = (a1, a1) ...): 2^n leaves.  Exponential in
	// any Hindley-Milner system; fc must survive the sizes that fit and say so beyond (recorded finding from 20 on)
	pairs := []int{5, 10, 15}
	if c.Thorough() {
		pairs = append(pairs, 24)
	}
	for _, n := range pairs {
		var sb strings.Builder
		sb.WriteString("package main\n\nlet f (a0:int) =\n")
		for i := 0; i < n; i++ {
			fmt.Fprintf(&sb, "  let a%d = (a%d, a%d)\n", i+1, i, i)
		}
		fmt.Fprintf(&sb, "  a%d\n", n)
		list = append(list, job{fmt.Sprintf("type-size: %d lets that double the size of a tuple type", n), sb.String(), nil, "deep-nesting"})
	}
	// runs of blank lines inside a function body and between definitions (the tokenizer skips line ends recursively)
	blanks := []int{1000, 100000, 300000}
	if c.Thorough() {
		blanks = append(blanks, 3000000) // the recorded finding
	}
	for _, n := range blanks {
		list = append(list,
			job{fmt.Sprintf("blank lines: %d inside a function body", n), "package main\n\nlet before () =\n  let a = 1\n" + strings.Repeat("\n", n) + "  a\n\nlet after () =\n  2\n", []string{"func before", "func after"}, "long-line"},
			job{fmt.Sprintf("blank lines: %d between definitions", n), "package main\n\nlet before () =\n  1\n" + strings.Repeat("\n", n) + "let after () =\n  2\n", []string{"func before", "func after"}, "long-line"})
	}
	// fc's passes are linear in the depth for parentheses, pairs, not and slice types, but about CUBIC for nested
	// slice literals and lambdas (measured on the pinned tree: 1000 deep 1.2 s / 7 s, 2000 deep 8.5 s / 39 s) -
	// slow, not endless; the depths are chosen so that the unchanged tree needs at most a few seconds, and this
	// family runs with a 60 s timeout and a 240 s re-run before anything is called a hang
	depths := []int{50, 200, 1000, 5000}
	if c.Thorough() {
		depths = append(depths, 20000)
	}
	for _, d := range depths {
		open, close := strings.Repeat("(", d), strings.Repeat(")", d)
		list = append(list,
			job{fmt.Sprintf("parentheses nested %d deep", d), "package main\n\nlet f () =\n  " + open + "1" + close + "\n", nil, "deep-nesting"},
			job{fmt.Sprintf("pairs nested %d deep", d), "package main\n\nlet f () =\n  " + strings.Repeat("(1, ", d) + "1" + close + "\n", nil, "deep-nesting"},
			job{fmt.Sprintf("not applied %d times", d), "package main\n\nlet f (b:bool) =\n  " + strings.Repeat("not (", d) + "b" + close + "\n", nil, "deep-nesting"},
			job{fmt.Sprintf("slice type nested %d deep", d), "package main\n\nlet f (x:" + strings.Repeat("[]", d) + "int) =\n  1\n", nil, "deep-nesting"},
		)
		if d == 20000 {
			// the recorded finding: the recursive-descent parser's stack is proportional to the nesting depth
			od, cd := strings.Repeat("(", 100000), strings.Repeat(")", 100000)
			list = append(list, job{"parentheses nested 100000 deep", "package main\n\nlet f () =\n  " + od + "1" + cd + "\n", nil, "deep-nesting"})
		}
		if d <= 1000 {
			dd := d
			if dd > 500 && !c.Thorough() {
				dd = 500
			}
			list = append(list,
				job{fmt.Sprintf("slice literals nested %d deep", dd), "package main\n\nlet f () =\n  " + strings.Repeat("[", dd) + "1" + strings.Repeat("]", dd) + "\n", nil, "deep-nesting"},
				job{fmt.Sprintf("lambdas nested %d deep", dd), "package main\n\nlet f () =\n  " + strings.Repeat("fun (a:int) -> ", dd) + "1\n", nil, "deep-nesting"})
			// if/else blocks nested by indentation
			var sb strings.Builder
			sb.WriteString("package main\n\nlet f (b:bool) =\n")
			for i := 0; i < d; i++ {
				ind := strings.Repeat(" ", 2+i)
				sb.WriteString(ind + "if b then\n" + ind + " 1\n" + ind + "else\n")
			}
			sb.WriteString(strings.Repeat(" ", 2+d) + "2\n")
			list = append(list, job{fmt.Sprintf("if/else blocks nested %d deep", d), sb.String(), nil, "deep-nesting"})
		}
	}
	// staircases (after seed C16h): block constructs nested through ONE position - a match that is the whole body of
	// the first (or the last) arm of the previous match, for union and string matches; an if that is the whole
	// then-branch of the previous one; applications nested in the argument.  A pass that looks at a sub-expression twice per level (typing it once to choose and once
	// to use) doubles per level: 20 levels are slow, 40 never end.  Linear on the pinned tree (40 levels: milliseconds).
	{
		stairs := []int{10, 20, 30, 40, 100}
		if c.Thorough() {
			stairs = append(stairs, 200, 300)
		}
		var matchFirst, matchLast, smatchFirst, smatchLast, ifThen func(d int, ind string) string
		matchFirst = func(d int, ind string) string {
			if d == 0 {
				return ind + "1\n"
			}
			return ind + "match u with\n" + ind + "| A ->\n" + matchFirst(d-1, ind+"  ") + ind + "| B -> 0\n"
		}
		matchLast = func(d int, ind string) string {
			if d == 0 {
				return ind + "1\n"
			}
			return ind + "match u with\n" + ind + "| B -> 0\n" + ind + "| A ->\n" + matchLast(d-1, ind+"  ")
		}
		smatchFirst = func(d int, ind string) string {
			if d == 0 {
				return ind + "1\n"
			}
			return ind + "match s with\n" + ind + "| \"a\" ->\n" + smatchFirst(d-1, ind+"  ") + ind + "| _ -> 0\n"
		}
		smatchLast = func(d int, ind string) string {
			if d == 0 {
				return ind + "1\n"
			}
			return ind + "match s with\n" + ind + "| \"a\" -> 0\n" + ind + "| _ ->\n" + smatchLast(d-1, ind+"  ")
		}
		ifThen = func(d int, ind string) string {
			if d == 0 {
				return ind + "1\n"
			}
			return ind + "if b then\n" + ifThen(d-1, ind+"  ") + ind + "else\n" + ind + "  0\n"
		}
		head := "package main\n\ntype U =\n  | A\n  | B\n\nlet idn (x:int) =\n  x\n\nlet f (u:U) (s:string) (b:bool) =\n"
		for _, d := range stairs {
			list = append(list,
				job{fmt.Sprintf("staircase: union matches nested %d deep in the first arm", d), head + matchFirst(d, "  "), []string{"func f"}, "staircase"},
				job{fmt.Sprintf("staircase: union matches nested %d deep in the last arm", d), head + matchLast(d, "  "), []string{"func f"}, "staircase"},
				job{fmt.Sprintf("staircase: string matches nested %d deep in the first arm", d), head + smatchFirst(d, "  "), []string{"func f"}, "staircase"},
				job{fmt.Sprintf("staircase: string matches nested %d deep in the default arm", d), head + smatchLast(d, "  "), []string{"func f"}, "staircase"},
				job{fmt.Sprintf("staircase: ifs nested %d deep in the then-branch", d), head + ifThen(d, "  "), []string{"func f"}, "staircase"},
				job{fmt.Sprintf("staircase: applications nested %d deep in the argument", d), head + "  " + strings.Repeat("idn (", d) + "1" + strings.Repeat(")", d) + "\n", []string{"func f"}, "staircase"},
			)
		}
	}
	jobs := make(chan job, 16)
	var wg sync.WaitGroup
	for w := 0; w < c.Workers; w++ {
		wg.Add(1)
		go func() {
			defer wg.Done()
			d := sc.TempDir("c16s_")
			defer os.RemoveAll(d)
			for j := range jobs {
				if c.TooManyViolations() || c.Expired() {
					continue
				}
				os.WriteFile(filepath.Join(d, "t.fo"), []byte(j.src), 0o644)
				r, o := c16RunT(fc, d, []string{"t.fo"}, []string{"gen_t.go"}, 60*time.Second, 240*time.Second)
				c.Count(1, 1, 1, 1)
				c.Hist("by_operator", "scale:"+j.class, 1)
				c.DistinctNT(j.name, true)
				if o.class == "ok" && len(j.defs) > 0 {
					gen, _ := os.ReadFile(filepath.Join(d, "gen_t.go"))
					for _, want := range j.defs {
						if !strings.Contains(string(gen), want) {
							o = c16Outcome{class: "ok-incomplete", detail: "exit 0 but gen_t.go has no declaration '" + want + "' (" + fmt.Sprint(len(gen)) + " bytes written)"}
							break
						}
					}
				}
				c.Outcome(o.class)
				c.Hist("outcome_counts", "scale:"+o.class, 1)
				if o.class == "ok" || (o.class == "rejected" && (j.class == "deep-nesting" || j.class == "staircase")) {
					continue
				}
				sig := "C16:" + o.class + ":" + j.class
				if o.class == "stack-overflow" || o.class == "oom" || o.class == "fatal" {
					sig = "C16:runtime-fatal:" + j.class + ":" + strings.TrimSuffix(strings.Fields(j.name)[0], ":")
					if strings.HasPrefix(j.name, "blank lines") {
						sig = "C16:runtime-fatal:deep-nesting:blank-lines"
					}
					if strings.HasPrefix(j.name, "type-size") {
						sig = "C16:runtime-fatal:exponential-type-size"
					}
				}
				c.Violation(sig, fmt.Sprintf("fc on %s: %s %s", j.name, o.class, o.detail),
					map[string]any{"kind": "scale", "case": j.name, "expected": "ok (long lines) / ok or rejected (deep nesting)", "observed": o.class + " " + o.detail + " exit=" + fmt.Sprint(r.Exit) + " " + trunc(r.Out(), 800)})
			}
		}()
	}
	for _, j := range list {
		jobs <- j
	}
	close(jobs)
	wg.Wait()
	c.Set("scale_inputs", len(list))
}

// ---- output-path and input faults ----

func c16Faults(c *core.Ctx, fc string, sc *impl.Scratch) {
	good := []string{
		"package main\n\nlet a0 () =\n  1\n",
		"package main\n\nlet b0 () =\n  a0 ()\n",
		"package main\n\nlet c0 () =\n  b0 ()\n",
	}
	// the same three files with 2500 filler functions each: outputs beyond 64 KiB (buffer and pipe sizes)
	goodLarge := make([]string, len(good))
	for i, g := range good {
		var sb strings.Builder
		sb.WriteString(g)
		for k := 0; k < 2500; k++ {
			fmt.Fprintf(&sb, "\nlet z%dx%d () =\n  %d\n", i, k, k)
		}
		goodLarge[i] = sb.String()
	}
	faults := []string{"ok", "missing-input", "input-is-directory", "dest-is-directory", "dest-symlink-to-dev-full", "input-syntax-error", "ok-over-stale-output"}
	// reference outputs of the three good files (a clean directory, one invocation)
	refs := [2]map[string]string{{}, {}}
	for sz, gs := range [][]string{good, goodLarge} {
		dir := sc.TempDir("c16fr_")
		var args []string
		for i, g := range gs {
			n := fmt.Sprintf("x%d.fo", i)
			os.WriteFile(filepath.Join(dir, n), []byte(g), 0o644)
			args = append(args, n)
		}
		impl.Run(dir, 60*time.Second, "", fc, args...)
		for i := range gs {
			b, _ := os.ReadFile(filepath.Join(dir, fmt.Sprintf("gen_x%d.go", i)))
			refs[sz][fmt.Sprintf("gen_x%d.go", i)] = string(b)
		}
		os.RemoveAll(dir)
	}
	c.Set("fault_pattern_large_output_bytes", len(refs[1]["gen_x0.go"]))
	stale := strings.Repeat("// stale line of an older, longer output\n", 200)
	st := explore.Explore(-1, func(ch *explore.Chooser) {
		n := 1 + ch.Choose(3)
		pat := make([]int, n)
		for i := range pat {
			pat[i] = ch.Choose(len(faults))
		}
		size := ch.Choose(2) // all files small / all files large
		good, ref := good, refs[0]
		if size == 1 {
			good, ref = goodLarge, refs[1]
		}
		dir := sc.TempDir("c16f_")
		defer os.RemoveAll(dir)
		var args, gens []string
		firstBad := -1
		desc := []string{}
		for i := 0; i < n; i++ {
			name := fmt.Sprintf("x%d.fo", i)
			gen := fmt.Sprintf("gen_x%d.go", i)
			args = append(args, name)
			gens = append(gens, gen)
			desc = append(desc, faults[pat[i]])
			switch faults[pat[i]] {
			case "ok":
				os.WriteFile(filepath.Join(dir, name), []byte(good[i]), 0o644)
			case "missing-input":
			case "input-is-directory":
				os.Mkdir(filepath.Join(dir, name), 0o755)
			case "dest-is-directory":
				os.WriteFile(filepath.Join(dir, name), []byte(good[i]), 0o644)
				os.Mkdir(filepath.Join(dir, gen), 0o755)
				os.WriteFile(filepath.Join(dir, gen, "keep"), []byte("x"), 0o644)
			case "dest-symlink-to-dev-full":
				os.WriteFile(filepath.Join(dir, name), []byte(good[i]), 0o644)
				os.Symlink("/dev/full", filepath.Join(dir, gen))
			case "input-syntax-error":
				os.WriteFile(filepath.Join(dir, name), []byte("package main\n\nlet a0 ( =\n"), 0o644)
			case "ok-over-stale-output":
				os.WriteFile(filepath.Join(dir, name), []byte(good[i]), 0o644)
				os.WriteFile(filepath.Join(dir, gen), []byte(stale), 0o644)
			}
			if pat[i] != 0 && faults[pat[i]] != "ok-over-stale-output" && firstBad < 0 {
				firstBad = i
			}
		}
		// do not pre-delete the planted destinations
		var pre []string
		for i, g := range gens {
			if faults[pat[i]] != "dest-is-directory" && faults[pat[i]] != "dest-symlink-to-dev-full" && faults[pat[i]] != "ok-over-stale-output" {
				pre = append(pre, g)
			}
		}
		for _, g := range pre {
			os.Remove(filepath.Join(dir, g))
		}
		r := impl.Run(dir, 20*time.Second, "", fc, args...)
		if r.TimedOut {
			r = impl.Run(dir, 60*time.Second, "", fc, args...)
		}
		if size == 1 {
			desc = append(desc, "(large files)")
		}
		c.Count(1, 0, 0, 1)
		c.Hist("by_operator", "fault", 1)
		c.DistinctNT("fault:"+strings.Join(desc, ","), firstBad >= 0)
		isComplete := func(g string) bool {
			st, err := os.Lstat(filepath.Join(dir, g))
			if err != nil || !st.Mode().IsRegular() {
				return false
			}
			b, err := os.ReadFile(filepath.Join(dir, g))
			return err == nil && len(b) > 0 && b[len(b)-1] == '\n'
		}
		exists := func(g string) bool {
			st, err := os.Lstat(filepath.Join(dir, g))
			return err == nil && st.Mode().IsRegular()
		}
		class := ""
		out := r.Out()
		switch {
		case r.TimedOut:
			class = "hang"
		case strings.Contains(out, "fatal error:") || strings.Contains(out, "stack exceeds"):
			class = "fatal"
		case r.Exit == 0:
			class = "ok"
			for i, g := range gens {
				if !isComplete(g) {
					class = "ok-incomplete"
				} else if faults[pat[i]] == "ok-over-stale-output" {
					// an output that existed before must be replaced, not overlaid
					if b, _ := os.ReadFile(filepath.Join(dir, g)); string(b) != ref[g] && firstBad < 0 {
						class = "ok-stale-content-left"
					}
				}
			}
			if firstBad >= 0 && class == "ok" {
				class = "ok-despite-fault"
			}
		default:
			class = "rejected"
			diag := false
			for _, ln := range strings.Split(out, "\n") {
				ln = strings.TrimSpace(ln)
				if ln != "" && !strings.HasPrefix(ln, "transpile:") {
					diag = true
				}
			}
			if !diag {
				class = "rejected-silent"
			}
			if firstBad < 0 {
				class = "rejected-without-fault"
			} else {
				for i, g := range gens {
					if i < firstBad && !isComplete(g) {
						class = "rejected-earlier-output-incomplete"
					}
					if i >= firstBad && exists(g) {
						if faults[pat[i]] == "ok-over-stale-output" {
							// planted before the run: it must have been left alone
							if b, _ := os.ReadFile(filepath.Join(dir, g)); string(b) != stale {
								class = "rejected-dirty"
							}
						} else {
							class = "rejected-dirty"
						}
					}
				}
			}
		}
		c.Outcome("fault:" + class)
		c.Hist("outcome_counts", "fault:"+class, 1)
		c.Sample(map[string]any{"fault_pattern": desc, "outcome": class})
		okClass := class == "ok" && firstBad < 0 || class == "rejected" && firstBad >= 0
		if !okClass {
			kind := "none"
			if firstBad >= 0 {
				kind = faults[pat[firstBad]]
			}
			c.Violation("C16:fault:"+class+":"+kind, fmt.Sprintf("argument list with faults %v: %s (exit=%d) %s", desc, class, r.Exit, firstLines(out, 3)),
				map[string]any{"kind": "fault", "choices": append([]int{}, ch.Choices...), "faults": desc, "expected": "exit 0 with complete outputs iff no fault; otherwise non-zero exit, diagnostic, nothing written for the offending file", "observed": class + " exit=" + fmt.Sprint(r.Exit) + " " + trunc(out, 1000)})
		}
	}, func(ch *explore.Chooser) bool { return !c.Expired() && !c.TooManyViolations() })
	c.Count(0, st.States, st.Transitions, 0)
}

// c16ArgShapes: "for every argument list" - how an argument is WRITTEN.  Lists of 1..2 arguments, each one of:
// plain name, the same name again, a path into a subdirectory, an absolute path, ./name, a name with a blank,
// a name with a leading dash, a name without the .fo suffix (contributes declarations, yields no file), an
// empty file; each with well-formed content or a syntax error.  gen_<base>.go belongs next to its source.
func c16ArgShapes(c *core.Ctx, fc string, sc *impl.Scratch) {
	type shape struct {
		name, arg string // file name relative to the run directory; how it is passed ("@abs" = absolute)
		gen       string // expected output relative to the run directory ("" = none)
	}
	shapes := []shape{
		{"p.fo", "p.fo", "gen_p.go"},
		{"sub/q.fo", "sub/q.fo", "sub/gen_q.go"},
		{"r.fo", "@abs", "gen_r.go"},
		{"s.fo", "./s.fo", "gen_s.go"},
		{"sp ace.fo", "sp ace.fo", "gen_sp ace.go"},
		{"-dash.fo", "-dash.fo", "gen_-dash.go"},
		{"decl.txt", "decl.txt", ""},
		{"noext", "noext", ""},
		{"empty.fo", "empty.fo", "gen_empty.go"},
	}
	content := func(sh shape, k int, bad bool) string {
		if sh.name == "empty.fo" {
			if bad {
				return "let ( =\n"
			}
			return ""
		}
		if bad {
			return fmt.Sprintf("package main\n\nlet h%d ( =\n  1\n", k)
		}
		return fmt.Sprintf("package main\n\nlet h%d () =\n  %d\n", k, k)
	}
	st := explore.Explore(-1, func(ch *explore.Chooser) {
		n := 1 + ch.Choose(2)
		dir := sc.TempDir("c16a_")
		defer os.RemoveAll(dir)
		os.Mkdir(filepath.Join(dir, "sub"), 0o755)
		var args, desc []string
		var picked []shape
		var bads []bool
		firstBad := -1
		for i := 0; i < n; i++ {
			sh := shapes[ch.Choose(len(shapes))]
			bad := ch.Choose(2) == 1
			if i == 1 && sh.name == picked[0].name {
				// the same file twice: same content as the first time
				bad = bads[0]
			}
			os.WriteFile(filepath.Join(dir, sh.name), []byte(content(sh, i, bad)), 0o644)
			a := sh.arg
			if a == "@abs" {
				a = filepath.Join(dir, sh.name)
			}
			args = append(args, a)
			picked = append(picked, sh)
			bads = append(bads, bad)
			d := sh.arg
			if bad {
				d += "(syntax error)"
				if firstBad < 0 {
					firstBad = i
				}
			}
			desc = append(desc, d)
		}
		r := impl.Run(dir, 20*time.Second, "", fc, args...)
		if r.TimedOut {
			r = impl.Run(dir, 60*time.Second, "", fc, args...)
		}
		c.Count(1, 0, 0, 1)
		c.Hist("by_operator", "argument-shape", 1)
		c.DistinctNT("args:"+strings.Join(desc, ","), true)
		// every gen_* file anywhere below dir
		found := map[string]string{}
		filepath.Walk(dir, func(p string, info os.FileInfo, err error) error {
			if err == nil && !info.IsDir() && strings.HasPrefix(filepath.Base(p), "gen_") {
				b, _ := os.ReadFile(p)
				rel, _ := filepath.Rel(dir, p)
				found[rel] = string(b)
			}
			return nil
		})
		class := ""
		out := r.Out()
		switch {
		case r.TimedOut:
			class = "hang"
		case strings.Contains(out, "fatal error:") || strings.Contains(out, "stack exceeds"):
			class = "fatal"
		case r.Exit == 0:
			class = "ok"
			want := map[string]bool{}
			for _, sh := range picked {
				if sh.gen != "" {
					want[sh.gen] = true
				}
			}
			for g := range want {
				if b, ok := found[g]; !ok || len(b) == 0 || b[len(b)-1] != '\n' {
					class = "ok-incomplete"
				}
			}
			for g := range found {
				if !want[g] {
					class = "ok-output-in-wrong-place"
				}
			}
			if firstBad >= 0 && class == "ok" {
				class = "ok-despite-fault"
			}
		default:
			class = "rejected"
			diag := false
			for _, ln := range strings.Split(out, "\n") {
				ln = strings.TrimSpace(ln)
				if ln != "" && !strings.HasPrefix(ln, "transpile:") {
					diag = true
				}
			}
			if !diag {
				class = "rejected-silent"
			}
			for g, b := range found {
				if len(b) == 0 || b[len(b)-1] != '\n' {
					class = "rejected-dirty"
				}
				if firstBad >= 0 && g == picked[firstBad].gen {
					class = "rejected-dirty"
				}
			}
		}
		c.Outcome("args:" + class)
		c.Hist("outcome_counts", "args:"+class, 1)
		// a rejection without a planted fault is within the property as long as it is clean (two files may clash)
		okClass := class == "ok" || class == "rejected"
		if !okClass {
			c.Violation("C16:args:"+class, fmt.Sprintf("argument list %v: %s (exit=%d) %s; gen files found: %v", desc, class, r.Exit, firstLines(out, 3), keysOf(found)),
				map[string]any{"kind": "argument-shape", "choices": append([]int{}, ch.Choices...), "arguments": desc, "observed": class + " exit=" + fmt.Sprint(r.Exit) + " " + trunc(out, 1000)})
		}
	}, func(ch *explore.Chooser) bool { return !c.Expired() && !c.TooManyViolations() })
	c.Count(0, st.States, st.Transitions, 0)
}

func keysOf(m map[string]string) []string {
	var ks []string
	for k := range m {
		ks = append(ks, k)
	}
	sort.Strings(ks)
	return ks
}

func c16Replay(c *core.Ctx, fc string, sc *impl.Scratch) {
	rp, err := loadReplay(c.ReplayFile)
	if err != nil {
		panic(err)
	}
	dir := sc.TempDir("c16r_")
	src := rp.Input["t.fo"]
	if src == "" {
		fmt.Println("fault replays are re-executed by the fault sweep; run the check itself")
		c.Count(1, 1, 1, 0)
		c.Sample("fault replay")
		return
	}
	os.WriteFile(filepath.Join(dir, "t.fo"), []byte(src), 0o644)
	args := []string{"t.fo"}
	if foi, _ := rp.Raw["foi"].(bool); foi {
		args = []string{sc.PkgAllFoi(), "t.fo"}
	}
	r, o := c16Run(fc, dir, args, []string{"gen_t.go"})
	fmt.Printf("outcome: %s %s exit=%d\n%s\n", o.class, o.detail, r.Exit, trunc(r.Out(), 3000))
	c.Count(1, 1, 1, 1)
	c.Sample(src)
	if o.class != "ok" && o.class != "rejected" {
		c.Violation(c16Sig(o, src), "replayed input still violates: "+o.class, map[string]any{"input": rp.Input, "foi": rp.Raw["foi"]})
	}
}
