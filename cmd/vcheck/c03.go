package main

import (
	"fmt"
	"regexp"
	"strings"
	"sync"

	"verif/internal/core"
	"verif/internal/explore"
	"verif/internal/gobatch"
	"verif/internal/impl"
)

// C03: declarations and foreign calls follow the documented Go representation.
//
// Every case is a Folang snippet plus a generated Go client (same package) that
// uses the emitted declarations by their DOCUMENTED names and types only, and
// the output the documentation model predicts.  The client and the expectation
// are produced from the abstract declaration, never from fc's output.

func init() { register("C03", checkC03) }

type c03Ty struct {
	fo    string // Folang type
	gt    string // documented Go type
	foVal string // a Folang expression of that type
	goVal string // a Go expression of that type
	show  string // Go expression template printing a value (%s = the value expression)
	want  string // what show prints for foVal / goVal
	gen   bool   // mentions the type parameter T
	noStr bool   // %v of the value is not stable (functions)
}

var c03Menu = []c03Ty{
	{fo: "int", gt: "int", foVal: "7", goVal: "7", show: "fmt.Sprint(%s)", want: "7"},
	{fo: "string", gt: "string", foVal: `"s"`, goVal: `"s"`, show: "fmt.Sprint(%s)", want: "s"},
	{fo: "bool", gt: "bool", foVal: "true", goVal: "true", show: "fmt.Sprint(%s)", want: "true"},
	{fo: "[]int", gt: "[]int", foVal: "[1; 2]", goVal: "[]int{1, 2}", show: "fmt.Sprint(%s)", want: "[1 2]"},
	{fo: "int*string", gt: "frt.Tuple2[int, string]", foVal: `(1, "a")`, goVal: `frt.NewTuple2(1, "a")`, show: "fmt.Sprintf(\"%%v %%v\", %s.E0, %s.E1)", want: "1 a"},
	{fo: "int*string*bool", gt: "frt.Tuple3[int, string, bool]", foVal: `(1, "a", true)`, goVal: `frt.NewTuple3(1, "a", true)`, show: "fmt.Sprintf(\"%%v %%v %%v\", %s.E0, %s.E1, %s.E2)", want: "1 a true"},
	{fo: "int->string", gt: "func(int) string", foVal: `(fun (i:int) -> frt.Sprintf1 "f%d" i)`, goVal: `func(i int) string { return fmt.Sprint("f", i) }`, show: "%s(3)", want: "f3", noStr: true},
	{fo: "()->int", gt: "func() int", foVal: "three", goVal: "func() int { return 3 }", show: "fmt.Sprint(%s())", want: "3", noStr: true},
	{fo: "R0", gt: "R0", foVal: "{A0=5}", goVal: "R0{A0: 5}", show: "fmt.Sprint(%s.A0)", want: "5"},
	{fo: "U0", gt: "U0", foVal: "X0 4", goVal: "New_U0_X0(4)", show: "fmt.Sprint(%s)", want: "(X0: 4)"},
	{fo: "T", gt: "T", foVal: "9", goVal: "9", show: "fmt.Sprint(%s)", want: "9", gen: true},
	{fo: "[]T", gt: "[]T", foVal: "[9]", goVal: "[]int{9}", show: "fmt.Sprint(%s)", want: "[9]", gen: true},
}

// c03Ext: further non-generic shapes, offered for the FIRST field / first case / variables / first parameter
// (the other positions keep the base menu, so that the product stays small)
var c03Ext = []c03Ty{
	{fo: "int->int->string", gt: "func(int, int) string", foVal: `(fun (i:int) (j:int) -> frt.Sprintf1 "g%d" (i + j))`, goVal: `func(i, j int) string { return fmt.Sprint("g", i+j) }`, show: "%s(1, 2)", want: "g3", noStr: true},
	{fo: "[][]int", gt: "[][]int", foVal: "[[1]; [2; 3]]", goVal: "[][]int{{1}, {2, 3}}", show: "fmt.Sprint(%s)", want: "[[1] [2 3]]"},
	{fo: "[]R0", gt: "[]R0", foVal: "[{A0=5}]", goVal: "[]R0{{A0: 5}}", show: "fmt.Sprint(%s[0].A0)", want: "5"},
	{fo: "(int*string)*bool", gt: "frt.Tuple2[frt.Tuple2[int, string], bool]", foVal: `((1, "a"), true)`, goVal: `frt.NewTuple2(frt.NewTuple2(1, "a"), true)`, show: "fmt.Sprintf(\"%%v %%v %%v\", %s.E0.E0, %s.E0.E1, %s.E1)", want: "1 a true"},
	{fo: "[]string*int", gt: "frt.Tuple2[[]string, int]", foVal: `(["a"], 2)`, goVal: `frt.NewTuple2([]string{"a"}, 2)`, show: "fmt.Sprintf(\"%%v %%v\", %s.E0, %s.E1)", want: "[a] 2"},
	{fo: "G0<int>", gt: "G0[int]", foVal: "{V0=6}", goVal: "G0[int]{V0: 6}", show: "fmt.Sprint(%s.V0)", want: "6"},
	{fo: "O0<string>", gt: "O0[string]", foVal: `So0 "x"`, goVal: `New_O0_So0("x")`, show: "fmt.Sprint(%s)", want: "(So0: x)"},
	{fo: "[]U0", gt: "[]U0", foVal: "[X0 4; Y0]", goVal: "[]U0{New_U0_X0(4), New_U0_Y0}", show: "fmt.Sprint(%s)", want: "[(X0: 4) (Y0)]"},
}

// c03Self: payload types that mention the union being declared (%SELF%): directly in a slice, and only as a
// type argument of an external generic type declared in package_info (a forward reference inside one type
// statement that is resolved through the type arguments)
var c03Self = []c03Ty{
	{fo: "[]%SELF%", gt: "[]%SELF%", foVal: "slice.New<%SELF%> ()", goVal: "[]%SELF%{}", show: "fmt.Sprint(len(%s))", want: "0"},
	{fo: "extp.Box<%SELF%>", gt: "extp.Box[%SELF%]", foVal: "extp.MkBox<%SELF%> ()", goVal: "extp.MkBox[%SELF%]()", show: "fmt.Sprint(len(%s.Vs))", want: "0"},
	{fo: "int*extp.Box<%SELF%>", gt: "frt.Tuple2[int, extp.Box[%SELF%]]", foVal: "(1, extp.MkBox<%SELF%> ())", goVal: "frt.NewTuple2(1, extp.MkBox[%SELF%]())", show: "fmt.Sprint(%s.E0, len(%s.E1.Vs))", want: "1 0"},
}

func (t c03Ty) self(name string) c03Ty {
	r := func(x string) string { return strings.ReplaceAll(x, "%SELF%", name) }
	t.fo, t.gt, t.foVal, t.goVal = r(t.fo), r(t.gt), r(t.foVal), r(t.goVal)
	return t
}

// c03Pick: entry p of the base menu (first `menu` entries) followed, in the first position, by the extension
func c03Pick(c *explore.Chooser, menu int, first bool) c03Ty {
	n := menu
	if first {
		n += len(c03Ext)
	}
	p := c.Choose(n)
	if p < menu {
		return c03Menu[p]
	}
	return c03Ext[p-menu]
}

func (t c03Ty) showOf(v string) string {
	return strings.ReplaceAll(strings.ReplaceAll(t.show, "%s", v), "%%", "%")
}

// goInst: the documented Go type with T instantiated to int
func (t c03Ty) goInst() string { return c03TParam.ReplaceAllString(t.gt, "int") }

var c03TParam = regexp.MustCompile(`\bT\b`)

const c03Prelude = `package main
import frt
import slice
import "vprog/extp"

package_info extp =
  let Keep: ()->()
  type Box<T>
  let MkBox<T>: ()->Box<T>

type R0 = {A0: int}

type U0 =
  | X0 of int
  | Y0

type G0<T> = {V0: T}

type O0<T> =
  | So0 of T
  | No0

let three () =
  3

let zzUse () =
  extp.Keep ()
  [1] |> slice.Length |> frt.Sprintf1 "%d"

`

type c03Case struct {
	choices []int
	kind    string
	fo      string // Folang definitions (without run_k)
	client  string // Go statements of func client_k()
	goDecls string // extra Go top-level declarations (foreign implementations)
	want    []string
}

func c03Field(i int) string { return []string{"Fa", "Fb", "Fc"}[i] }

// ---- drivers ----

func c03RecordDriver(maxFields int) func(c *explore.Chooser, k int) *c03Case {
	return func(c *explore.Chooser, k int) *c03Case {
		generic := c.Bool()
		n := 1 + c.Choose(maxFields)
		var ts []c03Ty
		usesT := false
		for i := 0; i < n; i++ {
			menu := 10
			if generic {
				menu = 12
			}
			t := c03Pick(c, menu, i == 0)
			usesT = usesT || t.gen
			ts = append(ts, t)
		}
		if generic && !usesT {
			c.Skip("generic record without a use of T")
		}
		name := fmt.Sprintf("Rec%d", k)
		tp, inst := "", ""
		if generic {
			tp, inst = "<T>", "[int]"
		}
		var fdecl, finit, goPos []string
		for i, t := range ts {
			fdecl = append(fdecl, c03Field(i)+": "+t.fo)
			finit = append(finit, c03Field(i)+"="+t.foVal)
			goPos = append(goPos, t.goVal)
		}
		cs := &c03Case{kind: "record"}
		var fo strings.Builder
		fmt.Fprintf(&fo, "type %s%s = {%s}\n\n", name, tp, strings.Join(fdecl, "; "))
		fmt.Fprintf(&fo, "let mk%d () =\n  {%s}\n\n", k, strings.Join(finit, "; "))
		foArg := name
		if generic {
			foArg = name + "<int>"
		}
		fmt.Fprintf(&fo, "let get%d (r:%s) =\n  r.%s\n\n", k, foArg, c03Field(n-1))
		cs.fo = fo.String()
		var cl strings.Builder
		// positional literal: field order; explicitly typed reads: field names and mapped types
		fmt.Fprintf(&cl, "\tv := %s%s{%s}\n", name, inst, strings.Join(goPos, ", "))
		for i, t := range ts {
			fmt.Fprintf(&cl, "\tvar f%d %s = v.%s\n\tfmt.Println(%s)\n", i, t.goInst(), c03Field(i), t.showOf(fmt.Sprintf("f%d", i)))
			cs.want = append(cs.want, t.want)
		}
		// produced by Folang, read by Go
		fmt.Fprintf(&cl, "\tw := mk%d()\n", k)
		for i, t := range ts {
			fmt.Fprintf(&cl, "\tfmt.Println(%s)\n", t.showOf("w."+c03Field(i)))
			cs.want = append(cs.want, t.want)
		}
		// built by Go, consumed by Folang
		last := ts[n-1]
		fmt.Fprintf(&cl, "\tvar g %s = get%d(v)\n\tfmt.Println(%s)\n", last.goInst(), k, last.showOf("g"))
		cs.want = append(cs.want, last.want)
		cs.client = cl.String()
		return cs
	}
}

func c03UnionDriver(maxCases int) func(c *explore.Chooser, k int) *c03Case {
	return func(c *explore.Chooser, k int) *c03Case {
		generic := c.Bool()
		n := 1 + c.Choose(maxCases)
		type cas struct {
			name string
			t    *c03Ty
		}
		var cases []cas
		usesT := false
		for i := 0; i < n; i++ {
			menu := 10
			if generic {
				menu = 12
			}
			cc := cas{name: fmt.Sprintf("C%d_%d", i, k)}
			switch c.Choose(3) { // 0 = no payload
			case 1:
				t := c03Pick(c, menu, i == 0)
				cc.t = &t
				usesT = usesT || t.gen
			case 2:
				// a payload that mentions the union itself (non-generic unions, first case)
				if generic || i != 0 {
					c.Skip("self-referential payloads only in the first case of a non-generic union")
				}
				t := c03Self[c.Choose(len(c03Self))].self(fmt.Sprintf("Uni%d", k))
				cc.t = &t
			}
			cases = append(cases, cc)
		}
		if generic && !usesT {
			c.Skip("generic union without a use of T")
		}
		name := fmt.Sprintf("Uni%d", k)
		tp, inst, foArg := "", "", name
		if generic {
			tp, inst, foArg = "<T>", "[int]", name+"<int>"
		}
		cs := &c03Case{kind: "union"}
		var fo strings.Builder
		fmt.Fprintf(&fo, "type %s%s =\n", name, tp)
		for _, cc := range cases {
			if cc.t != nil {
				fmt.Fprintf(&fo, "  | %s of %s\n", cc.name, cc.t.fo)
			} else {
				fmt.Fprintf(&fo, "  | %s\n", cc.name)
			}
		}
		fmt.Fprintf(&fo, "\nlet tag%d (u:%s) =\n  match u with\n", k, foArg)
		for i, cc := range cases {
			pat := cc.name
			if cc.t != nil {
				pat += " _"
			}
			fmt.Fprintf(&fo, "  | %s -> %d\n", pat, i+1)
		}
		// a Folang producer for the first case
		first := cases[0]
		switch {
		case first.t != nil && generic:
			fmt.Fprintf(&fo, "\nlet mkc%d () =\n  %s<int> %s\n\n", k, first.name, paren(first.t.foVal))
		case first.t != nil:
			fmt.Fprintf(&fo, "\nlet mkc%d () =\n  %s %s\n\n", k, first.name, paren(first.t.foVal))
		case generic:
			fmt.Fprintf(&fo, "\nlet mkc%d () =\n  %s<int> ()\n\n", k, first.name)
		default:
			fmt.Fprintf(&fo, "\nlet mkc%d () =\n  %s\n\n", k, first.name)
		}
		cs.fo = fo.String()
		var cl strings.Builder
		for i, cc := range cases {
			ctor := fmt.Sprintf("New_%s_%s", name, cc.name)
			switch {
			case cc.t != nil:
				fmt.Fprintf(&cl, "\tvar u%d %s%s = %s%s(%s)\n", i, name, inst, ctor, inst, cc.t.goVal)
			case generic:
				fmt.Fprintf(&cl, "\tvar u%d %s%s = %s%s()\n", i, name, inst, ctor, inst)
			default:
				fmt.Fprintf(&cl, "\tvar u%d %s = %s\n", i, name, ctor) // a package variable
			}
			// type switch over the case struct, payload in field Value
			fmt.Fprintf(&cl, "\tswitch x := u%d.(type) {\n\tcase %s_%s%s:\n", i, name, cc.name, inst)
			if cc.t != nil {
				fmt.Fprintf(&cl, "\t\tvar p %s = x.Value\n\t\tfmt.Println(\"case %d\", %s)\n", cc.t.goInst(), i, cc.t.showOf("p"))
				cs.want = append(cs.want, fmt.Sprintf("case %d %s", i, cc.t.want))
			} else {
				fmt.Fprintf(&cl, "\t\t_ = x\n\t\tfmt.Println(\"case %d\")\n", i)
				cs.want = append(cs.want, fmt.Sprintf("case %d", i))
			}
			fmt.Fprintf(&cl, "\tdefault:\n\t\tfmt.Println(\"other\")\n\t}\n")
			// Stringer: (C: v) / (C)
			if cc.t == nil {
				fmt.Fprintf(&cl, "\tfmt.Println(fmt.Sprint(u%d))\n", i)
				cs.want = append(cs.want, "("+cc.name+")")
			} else if !cc.t.noStr && (cc.t.fo == "int" || cc.t.fo == "string" || cc.t.fo == "bool" || cc.t.fo == "[]int" || cc.t.fo == "T" || cc.t.fo == "[]T") {
				fmt.Fprintf(&cl, "\tfmt.Println(fmt.Sprint(u%d))\n", i)
				cs.want = append(cs.want, "("+cc.name+": "+cc.t.want+")")
			}
			// consumed by Folang
			fmt.Fprintf(&cl, "\tfmt.Println(tag%d(u%d))\n", k, i)
			cs.want = append(cs.want, fmt.Sprint(i+1))
		}
		// produced by Folang
		fmt.Fprintf(&cl, "\tvar m %s%s = mkc%d()\n\t_, isFirst := m.(%s_%s%s)\n\tfmt.Println(isFirst, tag%d(m))\n", name, inst, k, name, first.name, inst, k)
		cs.want = append(cs.want, "true 1")
		cs.client = cl.String()
		return cs
	}
}

// c03TwoParamDriver: generic unions and records with TWO type parameters, instantiated at two DIFFERENT types
// (<int, string>), so that the order of type parameters is observable everywhere it is written: the interface,
// each case struct, each constructor (also those whose payload mentions only one of the parameters, or the
// later one only), the record struct.  Payload / field menu: none, T, E, T*E, E*T, []E, int.
func c03TwoParamDriver(maxCases int) func(c *explore.Chooser, k int) *c03Case {
	type pl struct{ fo, goT, foVal, goVal, show, want string }
	menu := []pl{
		{},
		{"T", "int", "7", "7", "fmt.Sprint(%s)", "7"},
		{"E", "string", `"e"`, `"e"`, "fmt.Sprint(%s)", "e"},
		{"T*E", "frt.Tuple2[int, string]", `(1, "a")`, `frt.NewTuple2(1, "a")`, "fmt.Sprintf(\"%v %v\", %s.E0, %s.E1)", "1 a"},
		{"E*T", "frt.Tuple2[string, int]", `("a", 1)`, `frt.NewTuple2("a", 1)`, "fmt.Sprintf(\"%v %v\", %s.E0, %s.E1)", "a 1"},
		{"[]E", "[]string", `["x"; "y"]`, `[]string{"x", "y"}`, "fmt.Sprint(%s)", "[x y]"},
		{"int", "int", "3", "3", "fmt.Sprint(%s)", "3"},
	}
	showOf := func(p pl, v string) string { return strings.ReplaceAll(p.show, "%s", v) }
	return func(c *explore.Chooser, k int) *c03Case {
		record := c.Bool()
		n := 1 + c.Choose(maxCases)
		var ps []pl
		usesT, usesE := false, false
		for i := 0; i < n; i++ {
			lo := 0
			if record {
				lo = 1
			}
			p := menu[lo+c.Choose(len(menu)-lo)]
			ps = append(ps, p)
			usesT = usesT || strings.Contains(p.fo, "T")
			usesE = usesE || strings.Contains(p.fo, "E")
		}
		if !usesT || !usesE {
			c.Skip("both type parameters must occur")
		}
		var fo, cl strings.Builder
		cs := &c03Case{kind: "two-param-union"}
		const inst = "[int, string]"
		if record {
			cs.kind = "two-param-record"
			name := fmt.Sprintf("Rq%d", k)
			fmt.Fprintf(&fo, "type %s<T, E> = {", name)
			for i, p := range ps {
				if i > 0 {
					fo.WriteString("; ")
				}
				fmt.Fprintf(&fo, "F%d_%d: %s", i, k, p.fo)
			}
			fo.WriteString("}\n\n")
			// a Folang producer and a Folang consumer of the first field
			fmt.Fprintf(&fo, "let mkq%d () : %s<int, string> =\n  {", k, name)
			for i, p := range ps {
				if i > 0 {
					fo.WriteString("; ")
				}
				fmt.Fprintf(&fo, "F%d_%d=%s", i, k, p.foVal)
			}
			fo.WriteString("}\n\n")
			fmt.Fprintf(&fo, "let getq%d (r:%s<int, string>) =\n  r.F0_%d\n\n", k, name, k)
			// client: positional literal with the documented instantiation, typed reads, both directions
			var vals []string
			for _, p := range ps {
				vals = append(vals, p.goVal)
			}
			fmt.Fprintf(&cl, "\tv := %s%s{%s}\n", name, inst, strings.Join(vals, ", "))
			for i, p := range ps {
				fmt.Fprintf(&cl, "\tvar f%d %s = v.F%d_%d\n\tfmt.Println(%s)\n", i, p.goT, i, k, showOf(p, fmt.Sprintf("f%d", i)))
				cs.want = append(cs.want, p.want)
			}
			fmt.Fprintf(&cl, "\tvar m %s%s = mkq%d()\n\tvar g %s = getq%d(m)\n\tfmt.Println(%s)\n", name, inst, k, ps[0].goT, k, showOf(ps[0], "g"))
			cs.want = append(cs.want, ps[0].want)
			fmt.Fprintf(&cl, "\tvar h %s = getq%d(v)\n\tfmt.Println(%s)\n", ps[0].goT, k, showOf(ps[0], "h"))
			cs.want = append(cs.want, ps[0].want)
			cs.fo, cs.client = fo.String(), cl.String()
			return cs
		}
		name := fmt.Sprintf("Uq%d", k)
		fmt.Fprintf(&fo, "type %s<T, E> =\n", name)
		for i, p := range ps {
			if p.fo == "" {
				fmt.Fprintf(&fo, "  | Cq%d_%d\n", i, k)
			} else {
				fmt.Fprintf(&fo, "  | Cq%d_%d of %s\n", i, k, p.fo)
			}
		}
		fmt.Fprintf(&fo, "\nlet tagq%d (u:%s<int, string>) =\n  match u with\n", k, name)
		for i, p := range ps {
			pat := fmt.Sprintf("Cq%d_%d", i, k)
			if p.fo != "" {
				pat += " _"
			}
			fmt.Fprintf(&fo, "  | %s -> %d\n", pat, i+1)
		}
		// Folang producers with explicit type arguments, one per case
		for i, p := range ps {
			if p.fo == "" {
				fmt.Fprintf(&fo, "\nlet mkq%d_%d () =\n  Cq%d_%d<int, string> ()\n", i, k, i, k)
			} else {
				fmt.Fprintf(&fo, "\nlet mkq%d_%d () =\n  Cq%d_%d<int, string> %s\n", i, k, i, k, paren(p.foVal))
			}
		}
		fo.WriteString("\n")
		for i, p := range ps {
			ctor := fmt.Sprintf("New_%s_Cq%d_%d", name, i, k)
			if p.fo == "" {
				fmt.Fprintf(&cl, "\tvar u%d %s%s = %s%s()\n", i, name, inst, ctor, inst)
			} else {
				fmt.Fprintf(&cl, "\tvar u%d %s%s = %s%s(%s)\n", i, name, inst, ctor, inst, p.goVal)
			}
			fmt.Fprintf(&cl, "\tswitch x := u%d.(type) {\n\tcase %s_Cq%d_%d%s:\n", i, name, i, k, inst)
			if p.fo != "" {
				fmt.Fprintf(&cl, "\t\tvar p %s = x.Value\n\t\tfmt.Println(\"case %d\", %s)\n", p.goT, i, showOf(p, "p"))
				cs.want = append(cs.want, fmt.Sprintf("case %d %s", i, p.want))
			} else {
				fmt.Fprintf(&cl, "\t\t_ = x\n\t\tfmt.Println(\"case %d\")\n", i)
				cs.want = append(cs.want, fmt.Sprintf("case %d", i))
			}
			fmt.Fprintf(&cl, "\tdefault:\n\t\tfmt.Println(\"other\")\n\t}\n")
			fmt.Fprintf(&cl, "\tfmt.Println(tagq%d(u%d))\n", k, i)
			cs.want = append(cs.want, fmt.Sprint(i+1))
			// produced by Folang with explicit type arguments, consumed by Go
			fmt.Fprintf(&cl, "\tvar m%d %s%s = mkq%d_%d()\n\t_, is%d := m%d.(%s_Cq%d_%d%s)\n\tfmt.Println(is%d, tagq%d(m%d))\n", i, name, inst, i, k, i, i, name, i, k, inst, i, k, i)
			cs.want = append(cs.want, fmt.Sprintf("true %d", i+1))
		}
		cs.fo, cs.client = fo.String(), cl.String()
		return cs
	}
}

// c03FunResultDriver: package_info functions whose RESULT is a function (int->(int->int)): a fully applied call
// has a function type although no argument is missing - it is a call, not a closure over missing parameters
// (after seed C03g decided "partial application" by the call's type).  Forms: result bound and applied, the fully
// applied call as a pipe stage, a two-parameter function applied in one or in two steps; package extp or _.
func c03FunResultDriver() func(c *explore.Chooser, k int) *c03Case {
	return func(c *explore.Chooser, k int) *c03Case {
		cs := &c03Case{kind: "foreign-call-function-result"}
		named := c.Bool()
		form := c.Choose(5)
		pkg, q := "_", ""
		if named {
			pkg, q = "extp", "extp."
		}
		var fo strings.Builder
		var impl string
		switch form {
		case 0, 1, 2:
			fmt.Fprintf(&fo, "package_info %s =\n  let MkAdd%d: int->(int->int)\n\n", pkg, k)
			impl = fmt.Sprintf("func MkAdd%d(a int) func(int) int {\n\tfmt.Printf(\"MkAdd(%%d)\\n\", a)\n\treturn func(b int) int {\n\t\tfmt.Printf(\"inner(%%d)\\n\", b)\n\t\treturn a*10 + b\n\t}\n}\n", k)
			switch form {
			case 0: // bound, then applied twice: the outer function runs once
				fmt.Fprintf(&fo, "let fr%d () =\n  let r = %sMkAdd%d 5\n  r 3 |> frt.Printf1 \"%%d\\n\"\n  r 4 |> frt.Printf1 \"%%d\\n\"\n\n", k, q, k)
				cs.want = []string{"MkAdd(5)", "inner(3)", "53", "inner(4)", "54"}
			case 1: // the fully applied call as a pipe stage
				fmt.Fprintf(&fo, "let fr%d () =\n  3 |> %sMkAdd%d 5 |> frt.Printf1 \"%%d\\n\"\n\n", k, q, k)
				cs.want = []string{"MkAdd(5)", "inner(3)", "53"}
			case 2: // handed to slice.Map
				fmt.Fprintf(&fo, "let fr%d () =\n  slice.Map (%sMkAdd%d 5) [1; 2] |> slice.Last |> frt.Printf1 \"%%d\\n\"\n\n", k, q, k)
				cs.want = []string{"MkAdd(5)", "inner(1)", "inner(2)", "52"}
			}
		case 3, 4:
			fmt.Fprintf(&fo, "package_info %s =\n  let MkAd2%d: int->string->(int->string)\n\n", pkg, k)
			impl = fmt.Sprintf("func MkAd2%d(a int, s string) func(int) string {\n\tfmt.Printf(\"MkAd2(%%d,%%s)\\n\", a, s)\n\treturn func(b int) string {\n\t\tfmt.Printf(\"inner(%%d)\\n\", b)\n\t\treturn fmt.Sprint(s, a*10+b)\n\t}\n}\n", k)
			if form == 3 { // all arguments at once
				fmt.Fprintf(&fo, "let fr%d () =\n  let r = %sMkAd2%d 5 \"s\"\n  r 3 |> frt.Println\n\n", k, q, k)
			} else { // one argument missing first (a closure), then supplied (now a call whose result is a function)
				fmt.Fprintf(&fo, "let fr%d () =\n  let p = %sMkAd2%d 5\n  let r = p \"s\"\n  r 3 |> frt.Println\n\n", k, q, k)
			}
			cs.want = []string{"MkAd2(5,s)", "inner(3)", "s53"}
		}
		if named {
			cs.goDecls = "EXTP:" + impl
		} else {
			cs.goDecls = impl
		}
		cs.fo = fo.String()
		cs.client = fmt.Sprintf("\tfr%d()\n", k)
		return cs
	}
}

func paren(s string) string {
	if strings.ContainsAny(s, " ") && !strings.HasPrefix(s, "(") && !strings.HasPrefix(s, "[") && !strings.HasPrefix(s, "{") && !strings.HasPrefix(s, "\"") {
		return "(" + s + ")"
	}
	return s
}

// top-level lets: functions (0..n parameters, unit parameter, unit result, generic) and variables
func c03LetDriver(maxParams int) func(c *explore.Chooser, k int) *c03Case {
	ptypes := []int{0, 1, 3, 4, 6} // int string []int int*string int->string
	return func(c *explore.Chooser, k int) *c03Case {
		cs := &c03Case{kind: "top-level-let"}
		var fo, cl strings.Builder
		if c.Choose(4) == 0 {
			// a variable of each menu type that has a literal
			t := c03Pick(c, 10, true)
			val := t.foVal
			if strings.HasPrefix(val, "(fun ") && c.Bool() {
				// the lambda written without the parentheses (after seed C03i: `let name = fun ...` turned into a func)
				val = val[1 : len(val)-1]
			}
			fmt.Fprintf(&fo, "let tv%d = %s\n\n", k, val)
			// a package VARIABLE: its address can be taken and it can be assigned (a func declaration offers neither)
			fmt.Fprintf(&cl, "\tvar px *%s = &tv%d\n\tsaved := *px\n\ttv%d = saved\n\tvar x %s = tv%d\n\tfmt.Println(%s)\n", t.gt, k, k, t.gt, k, t.showOf("x"))
			cs.want = append(cs.want, t.want)
			cs.kind = "top-level-variable"
			cs.fo, cs.client = fo.String(), cl.String()
			return cs
		}
		n := c.Choose(maxParams + 1)
		unitResult := c.Bool()
		generic := n > 0 && c.Bool()
		var ps, args, shows []string
		for i := 0; i < n; i++ {
			t := c03Menu[ptypes[c.Choose(len(ptypes))]]
			pn := fmt.Sprintf("p%d", i)
			if generic && i == 0 {
				ps = append(ps, pn) // un-annotated and unconstrained: becomes the type parameter T0
				args = append(args, `"g"`)
				shows = append(shows, "")
			} else {
				ps = append(ps, fmt.Sprintf("(%s:%s)", pn, t.fo))
				args = append(args, t.goVal)
				shows = append(shows, t.fo)
			}
		}
		if n == 0 {
			ps = []string{"()"}
		}
		// the body prints which parameters it got (ints and strings only) and returns parameter 0 / a constant
		fmt.Fprintf(&fo, "let tf%d %s =\n", k, strings.Join(ps, " "))
		want := ""
		for i := 0; i < n; i++ {
			switch shows[i] {
			case "int":
				fmt.Fprintf(&fo, "  frt.Printf1 \"p%d=%%d;\" p%d\n", i, i)
				want += fmt.Sprintf("p%d=7;", i)
			case "string":
				fmt.Fprintf(&fo, "  frt.Printf1 \"p%d=%%s;\" p%d\n", i, i)
				want += fmt.Sprintf("p%d=s;", i)
			case "[]int":
				fmt.Fprintf(&fo, "  frt.Printf1 \"p%d=%%v;\" p%d\n", i, i)
				want += fmt.Sprintf("p%d=[1 2];", i)
			case "int->string":
				fmt.Fprintf(&fo, "  frt.Printf1 \"p%d=%%s;\" (p%d 3)\n", i, i)
				want += fmt.Sprintf("p%d=f3;", i)
			case "int*string":
				fmt.Fprintf(&fo, "  frt.Printf1 \"p%d=%%d;\" (frt.Fst p%d)\n", i, i)
				want += fmt.Sprintf("p%d=1;", i)
			}
		}
		switch {
		case unitResult:
			fmt.Fprintf(&fo, "  frt.Println \"unit\"\n\n")
			fmt.Fprintf(&cl, "\ttf%d(%s)\n", k, strings.Join(args, ", ")) // no result: a statement
			cs.want = append(cs.want, want+"unit")
		case generic:
			fmt.Fprintf(&fo, "  p0\n\n")
			fmt.Fprintf(&cl, "\tvar r string = tf%d[string](%s)\n\tfmt.Println(r)\n", k, strings.Join(args, ", "))
			cs.want = append(cs.want, want+"g")
		default:
			fmt.Fprintf(&fo, "  42\n\n")
			fmt.Fprintf(&cl, "\tvar r int = tf%d(%s)\n\tfmt.Println(r)\n", k, strings.Join(args, ", "))
			cs.want = append(cs.want, want+"42")
		}
		cs.fo, cs.client = fo.String(), cl.String()
		return cs
	}
}

// foreign calls: package_info signatures x application arity x call form, against a generated Go implementation
func c03ForeignDriver(maxArity int) func(c *explore.Chooser, k int) *c03Case {
	type argT struct{ fo, gt, val, goFmt, shown string }
	ats := []argT{{"int", "int", "7", "%d", "7"}, {"string", "string", `"s"`, "%s", "s"}, {"bool", "bool", "true", "%v", "true"}}
	return func(c *explore.Chooser, k int) *c03Case {
		cs := &c03Case{kind: "foreign-call"}
		named := c.Bool() // package ext (qualified) or _ (unqualified)
		n := 1 + c.Choose(maxArity)
		unitArg := n == 1 && c.Bool()
		unitRes := c.Bool()
		ntp := 0
		if !unitArg {
			ntp = c.Choose(3) // 0..2 type parameters
		}
		if ntp > n {
			c.Skip("more type parameters than parameters")
		}
		// a type parameter that occurs only in the result: Go cannot infer it, the explicit type arguments must reach the call
		resTP := !unitRes && !unitArg && c.Bool()
		var params []argT
		for i := 0; i < n; i++ {
			a := ats[c.Choose(len(ats))]
			// values depend on the position, so that a permutation of the arguments is visible
			switch a.fo {
			case "int":
				a.val, a.shown = fmt.Sprint(7+i), fmt.Sprint(7+i)
			case "string":
				a.val, a.shown = fmt.Sprintf("\"s%d\"", i), fmt.Sprintf("s%d", i)
			case "bool":
				a.val, a.shown = fmt.Sprint(i%2 == 0), fmt.Sprint(i%2 == 0)
			}
			params = append(params, a)
		}
		fn := fmt.Sprintf("Fx%d", k)
		qual := fn
		pkg := "_"
		if named {
			pkg = "extp"
			qual = "extp." + fn
		}
		// signature
		var sigParts, goParams, fmtParts, goArgs []string
		tps := []string{"A", "B"}[:ntp]
		for i, p := range params {
			ft, gt := p.fo, p.gt
			if i < ntp {
				ft, gt = tps[i], tps[i]
			}
			sigParts = append(sigParts, ft)
			goParams = append(goParams, fmt.Sprintf("a%d %s", i, gt))
			fmtParts = append(fmtParts, fmt.Sprintf("%d:%%v", i))
			goArgs = append(goArgs, fmt.Sprintf("a%d", i))
		}
		if unitArg {
			sigParts, goParams, fmtParts, goArgs = []string{"()"}, nil, nil, nil
		}
		res, goRes, ret := "string", " string", "\treturn \"r\"\n"
		if unitRes {
			res, goRes, ret = "()", "", ""
		}
		if resTP {
			// R is declared last or (a choice, when there are other type parameters) first: with R first a
			// PREFIX of the explicit type-argument list suffices, the rest being inferred from the arguments
			if ntp > 0 && c.Bool() {
				tps = append([]string{"R"}, tps...)
			} else {
				tps = append(append([]string{}, tps...), "R")
			}
			res, goRes, ret = "R", " R", "\tvar z R\n\treturn z\n"
		}
		tpDecl, goTp := "", ""
		if len(tps) > 0 {
			tpDecl = "<" + strings.Join(tps, ", ") + ">"
			var g []string
			for _, t := range tps {
				g = append(g, t+" any")
			}
			goTp = "[" + strings.Join(g, ", ") + "]"
		}
		var fo strings.Builder
		fmt.Fprintf(&fo, "package_info %s =\n  let %s%s: %s->%s\n\n", pkg, fn, tpDecl, strings.Join(sigParts, "->"), res)
		impl := fmt.Sprintf("func %s%s(%s)%s {\n\tfmt.Printf(\"%s(%s)\\n\"%s)\n%s}\n", fn, goTp, strings.Join(goParams, ", "), goRes, fn, strings.Join(fmtParts, ","), prefixComma(goArgs), ret)
		if named {
			cs.goDecls = "EXTP:" + impl
		} else {
			cs.goDecls = impl
		}
		var shown []string
		for i, p := range params {
			shown = append(shown, fmt.Sprintf("%d:%s", i, p.shown))
		}
		callLine := fn + "(" + strings.Join(shown, ",") + ")"
		if unitArg {
			callLine = fn + "()"
		}
		// call form
		supplied := n
		form := 0
		if !unitArg {
			supplied = 1 + c.Choose(n) // how many arguments the first application supplies
			form = c.Choose(5)         // 0 direct / let-bound, 1 piped, 2 slice.Map (last argument from a slice), 3 explicit type arguments, 4 let-bound then applied in two steps
		}
		var vals []string
		for _, p := range params {
			vals = append(vals, p.val)
		}
		fmt.Fprintf(&fo, "let fr%d () =\n", k)
		rline := "r"
		if resTP {
			rline = "" // the zero value of R = string
		}
		emit := func(expr string) {
			if unitRes {
				fmt.Fprintf(&fo, "  %s\n  frt.Println \"done\"\n\n", expr)
				cs.want = append(cs.want, callLine, "done")
			} else {
				fmt.Fprintf(&fo, "  %s |> frt.Println\n\n", expr)
				cs.want = append(cs.want, callLine, rline)
			}
		}
		head := qual
		if form == 3 || resTP {
			if ntp == 0 && !resTP {
				c.Skip("explicit type arguments need type parameters")
			}
			// the explicit list: complete, or any prefix that still contains R (the others are inferable)
			minLen := 1
			for i, t := range tps {
				if t == "R" {
					minLen = i + 1
				}
			}
			taLen := minLen + c.Choose(len(tps)-minLen+1)
			var tas []string
			for _, t := range tps[:taLen] {
				switch t {
				case "R":
					tas = append(tas, "string")
				case "A":
					tas = append(tas, params[0].fo)
				case "B":
					tas = append(tas, params[1].fo)
				}
			}
			head = qual + "<" + strings.Join(tas, ", ") + ">"
		}
		switch {
		case unitArg:
			emit(head + " ()")
		case form == 0 || form == 3:
			if supplied == n {
				emit(head + " " + strings.Join(vals, " "))
			} else {
				fmt.Fprintf(&fo, "  let g = %s %s\n", head, strings.Join(vals[:supplied], " "))
				emit("g " + strings.Join(vals[supplied:], " "))
			}
		case form == 1: // piped: the last argument comes through the pipe
			if n == 1 {
				emit(vals[0] + " |> " + head)
			} else {
				if unitRes {
					fmt.Fprintf(&fo, "  %s |> %s %s\n  frt.Println \"done\"\n\n", vals[n-1], head, strings.Join(vals[:n-1], " "))
					cs.want = append(cs.want, callLine, "done")
				} else {
					fmt.Fprintf(&fo, "  %s |> %s %s |> frt.Println\n\n", vals[n-1], head, strings.Join(vals[:n-1], " "))
					cs.want = append(cs.want, callLine, rline)
				}
			}
		case form == 2: // passed to slice.Map / slice.Iter: called once per element
			if supplied != n {
				c.Skip("slice form always supplies all but the last")
			}
			part := head
			if n > 1 {
				part = "(" + head + " " + strings.Join(vals[:n-1], " ") + ")"
			}
			if unitRes {
				fmt.Fprintf(&fo, "  slice.Iter %s [%s; %s]\n  frt.Println \"done\"\n\n", part, vals[n-1], vals[n-1])
				cs.want = append(cs.want, callLine, callLine, "done")
			} else {
				fmt.Fprintf(&fo, "  slice.Map %s [%s; %s] |> slice.Length |> frt.Printf1 \"%%d\\n\"\n\n", part, vals[n-1], vals[n-1])
				cs.want = append(cs.want, callLine, callLine, "2")
			}
		case form == 4: // two steps: one argument, then the rest
			if n < 2 || supplied != 1 {
				c.Skip("two-step form needs arity >= 2")
			}
			fmt.Fprintf(&fo, "  let g = %s %s\n", head, vals[0])
			if n == 3 {
				fmt.Fprintf(&fo, "  let h = g %s\n", vals[1])
				emit("h " + vals[2])
			} else {
				emit("g " + vals[1])
			}
		}
		cs.fo = fo.String()
		cs.client = fmt.Sprintf("\tfr%d()\n", k)
		return cs
	}
}

func prefixComma(a []string) string {
	if len(a) == 0 {
		return ""
	}
	return ", " + strings.Join(a, ", ")
}

func checkC03(c *core.Ctx) {
	sc, err := impl.New(c.Repo)
	if err != nil {
		panic(err)
	}
	defer sc.Close()
	fc, err := sc.BuildFC()
	if err != nil {
		panic(err)
	}
	c.Set("rule", "cases are enumerated by the choice-tree explorer (complete products): records (generic or not, 1..n fields over a 12-entry type menu), unions (generic or not, 1..n cases, payload from the menu or none), top-level lets (variables of every menu type; functions with 0..n parameters, unit parameter, unit result, generic), and package_info signatures (arity, unit argument, unit result, 0..2 type parameters, package _ or named) x how many arguments the first application supplies x call form (direct / let-bound, piped, through slice.Map/Iter, explicit type arguments, two-step partial application); for each a Go client (or Go implementation) is generated from the documentation's naming scheme; distinct = distinct case text; non-trivial = every case (each has a client)")
	c.Assumption("foreign calls use literal arguments (the argument re-evaluation of partial applications is C01's known finding and is kept out of this check); fmt.Sprint of function-typed payloads is not compared")
	rf, uf, lp, fa := 2, 2, 2, 3
	if c.Thorough() {
		rf, uf, lp, fa = 3, 3, 3, 3
	}
	var cases []*c03Case
	var total explore.Stats
	collect := func(drv func(c *explore.Chooser, k int) *c03Case) {
		var cur *c03Case
		st := explore.Explore(-1, func(ch *explore.Chooser) { cur = drv(ch, len(cases)) }, func(ch *explore.Chooser) bool {
			cur.choices = append([]int{}, ch.Choices...)
			cases = append(cases, cur)
			return true
		})
		total.Add(st)
	}
	collect(c03RecordDriver(rf))
	collect(c03UnionDriver(uf))
	collect(c03TwoParamDriver(uf))
	collect(c03LetDriver(lp))
	collect(c03ForeignDriver(fa))
	collect(c03FunResultDriver())
	collect(c03BindersDriver())
	collect(c03TypeParamOrderDriver())
	collect(c03RedeclDriver())
	c.Count(0, total.States, total.Transitions, 0)
	const per = 150
	var wg sync.WaitGroup
	sem := make(chan struct{}, c.Workers)
	for i := 0; i < len(cases); i += per {
		j := i + per
		if j > len(cases) {
			j = len(cases)
		}
		part := cases[i:j]
		base := i
		wg.Add(1)
		sem <- struct{}{}
		go func() {
			defer wg.Done()
			defer func() { <-sem }()
			if c.Expired() || c.TooManyViolations() {
				c.NotExhaustive("not every batch was run")
				return
			}
			c03RunBatch(c, sc, fc, part, base)
		}()
	}
	wg.Wait()
}

func c03RunBatch(c *core.Ctx, sc *impl.Scratch, fc string, part []*c03Case, base int) {
	progs := make([]gobatch.Prog, len(part))
	for i, cs := range part {
		k := base + i
		goMain := fmt.Sprintf("func client_%d() {\n%s}\n", k, cs.client)
		var goPkg map[string]string
		if strings.HasPrefix(cs.goDecls, "EXTP:") {
			goPkg = map[string]string{"extp": strings.TrimPrefix(cs.goDecls, "EXTP:")}
		} else if cs.goDecls != "" {
			goMain += "\n" + cs.goDecls
		}
		defs := cs.fo + fmt.Sprintf("package_info _ =\n  let client_%d: ()->()\n\nlet run_%d () =\n  client_%d ()\n", k, k, k)
		progs[i] = gobatch.Prog{Defs: defs, Run: fmt.Sprintf("run_%d", k), GoMain: goMain, GoPkg: goPkg}
	}
	prelude := c03Prelude
	env := &gobatch.Env{Sc: sc, FC: fc, FCArgs: []string{sc.PkgAllFoi()}, Prelude: prelude,
		GoMainHeader: "package main\n\nimport (\n\t\"fmt\"\n\n\t\"github.com/karino2/folang/pkg/frt\"\n\t\"vprog/extp\"\n)\n\nvar _ = frt.OpNot\nvar _ = fmt.Sprint\nvar _ = extp.Keep\n\n",
		GoPkgHeader:  map[string]string{"extp": "package extp\n\nimport \"fmt\"\n\nvar _ = fmt.Sprint\n\nfunc Keep() {}\n\ntype Box[T any] struct{ Vs []T }\n\nfunc MkBox[T any]() Box[T] { return Box[T]{} }\n\n"}}
	res := env.Run(progs)
	for i, r := range res {
		cs := part[i]
		want := strings.Join(cs.want, "\n") + "\n"
		c.Count(1, 0, 0, 1)
		c.DistinctNT(cs.fo+cs.client, true)
		c.Hist("by_kind", cs.kind, 1)
		c.Sample(map[string]any{"folang": cs.fo, "go_client": cs.client, "expected_stdout": want})
		if r.Status == "ok" && r.Stdout == want {
			c.Outcome("agree")
			continue
		}
		status := r.Status
		if status == "ok" {
			status = "wrong-output"
		}
		c.Outcome(status)
		cls := ""
		if status == "go-build" || status == "fc-reject" {
			cls = ":" + c02ErrClass(r.Detail)
		}
		c.Violation("C03:"+cs.kind+":"+status+cls, fmt.Sprintf("%s case: %s; expected %q, got %q %s\n%s\nclient:\n%s", cs.kind, status, want, r.Stdout, firstLines(r.Detail, 3), cs.fo, cs.client),
			map[string]any{"choices": cs.choices, "kind": cs.kind, "folang": cs.fo, "go_client": cs.client, "go_decls": cs.goDecls, "expected": want, "observed": r.Status + ": " + r.Stdout + " " + trunc(r.Detail, 1000)})
	}
}
