// vcheck: one binary, one sub-command per property.
//
//	vcheck <ID> <quick|thorough> [--replay file]
package main

import (
	"fmt"
	"os"
	"os/signal"
	"sort"
	"syscall"

	"verif/internal/core"
	"verif/internal/impl"
)

type checkFn func(c *core.Ctx)

var checks = map[string]checkFn{}

func register(id string, f checkFn) { checks[id] = f }

func main() {
	if len(os.Args) < 3 {
		ids := []string{}
		for k := range checks {
			ids = append(ids, k)
		}
		sort.Strings(ids)
		fmt.Fprintf(os.Stderr, "usage: vcheck <ID> <quick|thorough> [--replay file]\nchecks: %v\n", ids)
		os.Exit(2)
	}
	id, tier := os.Args[1], os.Args[2]
	f, ok := checks[id]
	if !ok {
		fmt.Fprintf(os.Stderr, "unknown check %s\n", id)
		os.Exit(2)
	}
	if tier != "quick" && tier != "thorough" {
		fmt.Fprintf(os.Stderr, "tier must be quick or thorough\n")
		os.Exit(2)
	}
	c := core.NewCtx(id, tier)
	for i := 3; i < len(os.Args); i++ {
		if os.Args[i] == "--replay" && i+1 < len(os.Args) {
			c.ReplayFile = os.Args[i+1]
			i++
		}
	}
	code := 0
	// the private Go build cache of this process is removed on every way out
	sig := make(chan os.Signal, 1)
	signal.Notify(sig, syscall.SIGINT, syscall.SIGTERM)
	go func() {
		<-sig
		impl.CleanupCache()
		os.Exit(2)
	}()
	func() {
		defer func() {
			if r := recover(); r != nil {
				impl.CleanupCache()
				// a harness failure is not a verdict about the property: report it
				// loudly, exit 2 (neither "held" nor "violation")
				fmt.Fprintf(os.Stderr, "HARNESS ERROR in %s: %v\n", id, r)
				code = 2
				panic(r)
			}
		}()
		f(c)
	}()
	if code == 0 {
		code = c.Finish()
	}
	impl.CleanupCache()
	os.Exit(code)
}
