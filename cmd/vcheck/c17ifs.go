package main

import (
	"fmt"
	"strings"

	"verif/internal/core"
	"verif/internal/gobatch"
	"verif/internal/impl"
)

// c17IfShapes: one-line ifs inside block-form ifs.  For generated programs tinyfo's refusals are not judged, so a
// tinyfo that panics on a shape goes unnoticed (seed C17j turned these programs into refusals); like the type groups
// these few shapes must be ACCEPTED - the unchanged tinyfo and fc both translate them - and run with the reference
// output for every valuation of the two conditions.  Shapes: a one-line if without else as the last statement of the
// then-block / of an elif-block of an outer if that has its own else; a one-line if with its own else there; the
// one-line if followed by another statement.
func c17IfShapes(c *core.Ctx, sc *impl.Scratch, tiny, fc, foi string) {
	type shape struct {
		name, body string
		out        func(a, b bool) string
	}
	shapes := []shape{
		{"one-line if-only last in then-block", "  if a then\n    say \"t\"\n    if b then say \"x\"\n  else\n    say \"y\"\n", func(a, b bool) string {
			if a && b {
				return "[t][x]"
			} else if a {
				return "[t]"
			}
			return "[y]"
		}},
		{"one-line if-only alone in then-block", "  if a then\n    if b then say \"x\"\n  else\n    say \"y\"\n", func(a, b bool) string {
			if a && b {
				return "[x]"
			} else if a {
				return ""
			}
			return "[y]"
		}},
		{"one-line if-else last in then-block", "  if a then\n    say \"t\"\n    if b then say \"x\" else say \"z\"\n  else\n    say \"y\"\n", func(a, b bool) string {
			if a && b {
				return "[t][x]"
			} else if a {
				return "[t][z]"
			}
			return "[y]"
		}},
		{"one-line if-only last in elif-block", "  if a then\n    say \"t\"\n  elif b then\n    if a then say \"x\"\n  else\n    say \"y\"\n", func(a, b bool) string {
			if a {
				return "[t]"
			} else if b {
				return ""
			}
			return "[y]"
		}},
		{"one-line if-only followed by a statement", "  if a then\n    if b then say \"x\"\n    say \"u\"\n  else\n    say \"y\"\n", func(a, b bool) string {
			if a && b {
				return "[x][u]"
			} else if a {
				return "[u]"
			}
			return "[y]"
		}},
	}
	var progs []gobatch.Prog
	var wants, names []string
	for si, sh := range shapes {
		x := fmt.Sprintf("_i%d", si)
		var sb, want strings.Builder
		fmt.Fprintf(&sb, "let sh%s (a:bool) (b:bool) =\n%s\nlet run%s () =\n", x, sh.body, x)
		for _, a := range []bool{true, false} {
			for _, b := range []bool{true, false} {
				fmt.Fprintf(&sb, "  sh%s %v %v\n  say \";\"\n", x, a, b)
				want.WriteString(sh.out(a, b) + "[;]")
			}
		}
		progs = append(progs, gobatch.Prog{Defs: sb.String(), Run: "run" + x})
		wants = append(wants, want.String())
		names = append(names, sh.name)
	}
	te := &gobatch.Env{Sc: sc, FC: tiny, FCArgs: []string{foi}, Prelude: c17Prelude}
	fe := &gobatch.Env{Sc: sc, FC: fc, FCArgs: []string{foi}, Prelude: c17Prelude}
	tres := te.Run(progs)
	fres := fe.Run(progs)
	for k := range progs {
		c.Count(1, 1, 1, 2)
		c.DistinctNT(progs[k].Defs, true)
		tr, fr := tres[k], fres[k]
		switch {
		case tr.Status == "ok" && tr.Stdout == wants[k] && fr.Status == "ok" && fr.Stdout == wants[k]:
			c.Outcome("all-three-agree")
		case !(tr.Status == "ok" && tr.Stdout == wants[k]):
			sig := "C17:tinyfo:if-shape:" + tr.Status
			c.Outcome(sig)
			c.Violation(sig, fmt.Sprintf("tinyfo on %s: status=%s stdout=%q expected %q %s (fc: %s %q)\nprogram:\n%s", names[k], tr.Status, tr.Stdout, wants[k], firstLines(tr.Detail, 4), fr.Status, fr.Stdout, progs[k].Defs),
				map[string]any{"program": progs[k].Defs, "expected": wants[k], "observed": tr.Status + ": " + tr.Stdout + " " + trunc(tr.Detail, 1200), "fc_output": fr.Stdout})
		default:
			sig := "C17:fc-differs:if-shape:" + fr.Status
			c.Outcome(sig)
			c.Violation(sig, fmt.Sprintf("fc on %s: status=%s stdout=%q expected %q %s\nprogram:\n%s", names[k], fr.Status, fr.Stdout, wants[k], firstLines(fr.Detail, 4), progs[k].Defs),
				map[string]any{"program": progs[k].Defs, "expected": wants[k], "observed": fr.Status + ": " + fr.Stdout})
		}
	}
	c.Set("if_shape_programs", len(progs))
}
