package main

import (
	"encoding/json"
	"os"
)

// replayCase is the common part of every replay file's "case" object.
type replayCase struct {
	Choices  []int             `json:"choices"`
	Kind     string            `json:"kind"`
	Input    map[string]string `json:"input"`
	Expected string            `json:"expected"`
	Observed string            `json:"observed"`
	Raw      map[string]any    `json:"-"`
}

func loadReplay(path string) (*replayCase, error) {
	b, err := os.ReadFile(path)
	if err != nil {
		return nil, err
	}
	var top struct {
		Check string          `json:"check"`
		Case  json.RawMessage `json:"case"`
	}
	if err := json.Unmarshal(b, &top); err != nil {
		return nil, err
	}
	rc := &replayCase{}
	json.Unmarshal(top.Case, rc)
	json.Unmarshal(top.Case, &rc.Raw)
	return rc, nil
}
