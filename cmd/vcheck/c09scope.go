package main

import (
	"fmt"
	"strings"

	"verif/internal/core"
	"verif/internal/explore"
	"verif/internal/gobatch"
	"verif/internal/impl"
)

// c09Scope: the union a match is checked against is the type of ITS target.  The target `v` is a parameter
// of type Bg = Zqa | Zqb | Zqc; another binder - the payload variable of a match arm, a lambda parameter, a let
// of an inner block, a parameter of a local function - is called `v` too (or `p`: the control) and has another
// type (Sm = Zqa | Zqb sharing its case names with Bg, int, or Ot = Zqx | Zqy).  The match on `v` is placed
// where that binder is NOT in scope (a later arm, an earlier arm, after the whole construct) or where it is
// (inside: then the binder's type decides).  A scope that outlives its construct makes the check look at the
// wrong union (after seed C09i).
type c09Scope struct {
	leak  int // 0 arm binder, 1 lambda parameter, 2 let of an inner block, 3 parameter of a local function
	ptype int // 0 Sm, 1 int, 2 Ot
	bname int // 0 "v" (the outer variable's name), 1 "p"
	pos   int // 0 later (later arm / later statement), 1 earlier, 2 inside the binder's scope, 3 after the whole match statement (leak 0)
	mask  int // cases of the real target type that have an arm
	deflt bool
	real  int // type of the match target according to lexical scoping: 0 Sm, 2 Ot, 3 Bg
}

var c09ScopeUniverse = map[int][]string{0: {"Zqa", "Zqb"}, 2: {"Zqx", "Zqy"}, 3: {"Zqa", "Zqb", "Zqc"}}

func c09ScopeDriver() func(c *explore.Chooser) *c09Case {
	return func(c *explore.Chooser) *c09Case {
		s := &c09Scope{}
		s.leak = c.Choose(4)
		s.ptype = c.Choose(3)
		s.bname = c.Choose(2)
		if s.leak == 0 {
			s.pos = c.Choose(4)
		} else {
			s.pos = c.Choose(3)
		}
		s.real = 3
		if s.pos == 2 && s.bname == 0 {
			s.real = s.ptype
			if s.ptype == 1 {
				c.Skip("a match on an int")
			}
		}
		uni := c09ScopeUniverse[s.real]
		s.mask = 1 + c.Choose(1<<len(uni)-1)
		s.deflt = c.Bool()
		cs := &c09Case{host: 200 + s.leak, n: len(uni), scope: s}
		for i, nm := range uni {
			if s.mask&(1<<i) == 0 && !s.deflt {
				cs.uncovered = append(cs.uncovered, nm)
			}
		}
		cs.accept = len(cs.uncovered) == 0
		cs.src = c09ScopeRender(s, "")
		return cs
	}
}

func c09ScopeRender(s *c09Scope, x string) string {
	var sb strings.Builder
	if x == "" {
		sb.WriteString("package main\nimport frt\nimport slice\n\n")
	}
	r := strings.NewReplacer("@", x)
	sb.WriteString(r.Replace(`type Sm@ =
  | Zqa@
  | Zqb@

let mkSm@ (i:int) =
  if i = 0 then
    Zqa@
  else
    Zqb@

let sm@ (s:Sm@) =
  match s with
  | Zqa@ -> 10
  | Zqb@ -> 20

type Ot@ =
  | Zqx@
  | Zqy@

let ot@ (o:Ot@) =
  match o with
  | Zqx@ -> 30
  | Zqy@ -> 40

type Bg@ =
  | Zqa@
  | Zqb@
  | Zqc@

`))
	pt := []string{"Sm" + x, "int", "Ot" + x}[s.ptype]
	b := []string{"v", "p"}[s.bname]
	use := []string{"sm" + x + " " + b, b + " + 1", "ot" + x + " " + b}[s.ptype]
	pv := []string{"(mkSm" + x + " 1)", "3", "Zqy" + x}[s.ptype]
	// the match on v, at indentation ind
	m := func(ind string) string {
		var mb strings.Builder
		mb.WriteString(ind + "match v with\n")
		for i, nm := range c09ScopeUniverse[s.real] {
			if s.mask&(1<<i) != 0 {
				fmt.Fprintf(&mb, "%s| %s%s -> %d\n", ind, nm, x, i+1)
			}
		}
		if s.deflt {
			fmt.Fprintf(&mb, "%s| _ -> 9\n", ind)
		}
		return mb.String()
	}
	// body of the binder's scope at indentation ind: the use of the binder, or the match
	inside := func(ind string) string {
		if s.pos == 2 {
			if s.bname == 1 {
				// the binder must be used (Go rejects unused variables)
				return ind + "let z = " + use + "\n" + ind + "let q =\n" + m(ind+"  ") + ind + "q + z - z\n"
			}
			return m(ind)
		}
		return ind + use + "\n"
	}
	fmt.Fprintf(&sb, "type W%s =\n  | Wi%s of int\n  | Wr%s of %s\n  | Wn%s\n\n", x, x, x, pt, x)
	fmt.Fprintf(&sb, "let f%s (v:Bg%s) (w:W%s) =\n", x, x, x)
	switch s.leak {
	case 0:
		arms := func(ind string) string {
			var ab strings.Builder
			if s.pos == 1 {
				fmt.Fprintf(&ab, "%s| Wi%s k ->\n%s  let q =\n%s%s  q + k\n", ind, x, ind, m(ind+"    "), ind)
			} else {
				fmt.Fprintf(&ab, "%s| Wi%s k -> k\n", ind, x)
			}
			fmt.Fprintf(&ab, "%s| Wr%s %s ->\n%s", ind, x, b, inside(ind+"  "))
			if s.pos == 0 {
				fmt.Fprintf(&ab, "%s| Wn%s ->\n%s", ind, x, m(ind+"  "))
			} else {
				fmt.Fprintf(&ab, "%s| Wn%s -> 5\n", ind, x)
			}
			return ab.String()
		}
		if s.pos == 3 {
			sb.WriteString("  let r =\n    match w with\n" + arms("    ") + "  let q =\n" + m("    ") + "  r + q\n")
		} else {
			sb.WriteString("  match w with\n" + arms("  "))
		}
	case 1, 2, 3:
		var binder string
		switch s.leak {
		case 1:
			binder = fmt.Sprintf("  let g = fun (%s:%s) ->\n%s  let r = g %s\n", b, pt, inside("            "), pv)
		case 2:
			binder = fmt.Sprintf("  let r =\n    if 1 < 2 then\n      let %s = %s\n%s    else\n      0\n", b, pv, inside("      "))
		case 3:
			binder = fmt.Sprintf("  let g (%s:%s) =\n%s  let r = g %s\n", b, pt, inside("    "), pv)
		}
		q := "  let q =\n" + m("    ")
		switch s.pos {
		case 0:
			sb.WriteString(binder + q + "  r + q\n")
		case 1:
			sb.WriteString(q + binder + "  r + q\n")
		case 2:
			sb.WriteString(binder + "  r\n")
		}
	}
	return sb.String()
}

// the value of f v w (vi: index of v's case in Bg; wi: 0 Wi 100, 1 Wr pv, 2 Wn)
func c09ScopeWant(s *c09Scope, vi, wi int) int {
	useV := []int{20, 4, 40}[s.ptype] // use of pv: sm (mkSm 1), 3 + 1, ot Zqy
	mOn := func(i int) int {
		if s.mask&(1<<i) != 0 {
			return i + 1
		}
		return 9
	}
	mv := mOn(vi)
	in := useV
	if s.pos == 2 {
		if s.bname == 0 {
			in = mOn(1) // pv is the second case of its union
		} else {
			in = mv
		}
	}
	if s.leak != 0 {
		if s.pos == 2 {
			return in
		}
		return in + mv
	}
	r := 0
	switch wi {
	case 0:
		r = 100
		if s.pos == 1 {
			r = mv + 100
		}
	case 1:
		r = in
	case 2:
		r = 5
		if s.pos == 0 {
			r = mv
		}
	}
	if s.pos == 3 {
		r += mv
	}
	return r
}

func c09ExecScope(c *core.Ctx, fc string, sc *impl.Scratch, part []*c09Case) {
	env := &gobatch.Env{Sc: sc, FC: fc, FCArgs: []string{sc.PkgAllFoi()}, Prelude: "package main\nimport frt\nimport slice\n\nlet zzUse () =\n  [1] |> slice.Head |> frt.Printf1 \"%d\"\n\n"}
	progs := make([]gobatch.Prog, len(part))
	wants := make([]string, len(part))
	for k, cs := range part {
		x := fmt.Sprintf("_%d", k)
		s := cs.scope
		var sb, want strings.Builder
		sb.WriteString(c09ScopeRender(s, x))
		fmt.Fprintf(&sb, "\nlet run%s () =\n", x)
		pv := []string{"(mkSm" + x + " 1)", "3", "Zqy" + x}[s.ptype]
		for vi, vn := range c09ScopeUniverse[3] {
			for wi, w := range []string{"(Wi" + x + " 100)", "(Wr" + x + " " + pv + ")", "Wn" + x} {
				fmt.Fprintf(&sb, "  f%s %s%s %s |> frt.Printf1 \"%d.%d=%%d\\n\"\n", x, vn, x, w, vi, wi)
				fmt.Fprintf(&want, "%d.%d=%d\n", vi, wi, c09ScopeWant(s, vi, wi))
			}
		}
		progs[k] = gobatch.Prog{Defs: sb.String(), Run: "run" + x}
		wants[k] = want.String()
	}
	res := env.Run(progs)
	for k, r := range res {
		cs := part[k]
		c.Count(1, 0, 0, 1)
		c.AddInt("executed_scope_programs", 1)
		if r.Status == "ok" && r.Stdout == wants[k] {
			c.Outcome("executed-ok")
			continue
		}
		c.Outcome("executed-" + r.Status + "-mismatch")
		c.Violation("C09:scope-exec:"+r.Status, fmt.Sprintf("accepted match program (target named like another binder) misbehaves when run on every constructor value: status=%s expected %q got %q %s", r.Status, wants[k], r.Stdout, firstLines(r.Detail, 4)),
			map[string]any{"choices": cs.choices, "kind": "exec", "input": map[string]string{"t.fo": cs.src}, "expected": wants[k], "observed": r.Status + ": " + r.Stdout + r.Detail})
	}
}
