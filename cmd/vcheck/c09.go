package main

import (
	"fmt"
	"os"
	"path/filepath"
	"regexp"
	"sort"
	"strings"
	"sync"
	"time"

	"verif/internal/core"
	"verif/internal/explore"
	"verif/internal/gobatch"
	"verif/internal/impl"
)

// C09: a union match without default is accepted exactly when it covers every case.

func init() { register("C09", checkC09) }

type c09Case struct {
	choices   []int
	n         int
	payload   []bool
	arms      []int // indices of cases, in arm order
	forms     []int // per arm: 0 bind-and-use, 1 '_', 2 no pattern (payload cases); 0 for bare
	deflt     bool
	naming    int // 0 Zqa, Zqb, ...; 1 names that are prefixes of one another / differ only in letter case
	target    int // what is matched: 0 an annotated parameter, 1 the result of a call, 2 a let-bound constructor value, 3 like 2 on a generic union (instantiation inferred)
	host      int // 0 top-level body, 1 if branch, 2 lambda body, 3 let rhs, 4 arm of outer match, 5 pipe stage, 6 block arm bodies, 7 initialiser of a top-level variable
	src       string
	src2      string // second file (two-file host)
	accept    bool
	uncovered []string
	dup       bool // one arm is written twice (the copy-paste slip): counts once
	scope     *c09Scope
	defaultOnly bool // the match consists of the default arm alone
}

// naming scheme 1: case names that are prefixes of one another or differ only in the case of a letter
var c09PrefixNames = []string{"Zq", "Zqq", "ZqQ", "Zqqq", "ZqqQ"}

func (cs *c09Case) nm(i int) string {
	if cs.naming == 1 {
		return c09PrefixNames[i]
	}
	return c09Name(i)
}

func c09Name(i int) string {
	if i >= 26 {
		return fmt.Sprintf("Zq%c%c", 'a'+i/26-1, 'a'+i%26)
	}
	return fmt.Sprintf("Zq%c", 'a'+i)
}

const c09Hosts = 8

func c09Driver(maxN, hostMaxN int) func(c *explore.Chooser) *c09Case {
	return func(c *explore.Chooser) *c09Case {
		cs := &c09Case{}
		cs.n = 1 + c.Choose(maxN)
		cs.payload = make([]bool, cs.n)
		for i := range cs.payload {
			cs.payload[i] = c.Bool()
		}
		// non-empty ordered selection of distinct arms
		remaining := []int{}
		for i := 0; i < cs.n; i++ {
			remaining = append(remaining, i)
		}
		for {
			// first arm is mandatory; afterwards choice 0 = stop
			var pick int
			if len(cs.arms) == 0 {
				pick = c.Choose(len(remaining))
			} else {
				p := c.Choose(len(remaining) + 1)
				if p == 0 {
					break
				}
				pick = p - 1
			}
			cs.arms = append(cs.arms, remaining[pick])
			remaining = append(remaining[:pick:pick], remaining[pick+1:]...)
			if len(remaining) == 0 {
				break
			}
		}
		for _, a := range cs.arms {
			if cs.payload[a] {
				cs.forms = append(cs.forms, c.Choose(3))
			} else {
				cs.forms = append(cs.forms, 0)
			}
		}
		cs.deflt = c.Bool()
		if cs.n <= hostMaxN {
			cs.host = c.Choose(c09Hosts)
		}
		if cs.host == 0 && cs.n >= 2 && cs.n <= hostMaxN {
			cs.naming = c.Choose(2)
		}
		if cs.naming == 0 && cs.host == 0 && cs.n <= hostMaxN {
			// the type of the target comes from an annotation or from inference (call result, let-bound value)
			cs.target = c.Choose(6)
		}
		// a repeated arm (for the plain host / naming / target): the number of ARMS may then reach the number of
		// cases although a case is missing - coverage is about distinct case names (after seed C09h)
		if cs.host == 0 && cs.naming == 0 && cs.target == 0 && cs.n <= hostMaxN && !cs.deflt {
			if d := c.Choose(len(cs.arms) + 1); d > 0 {
				at := c.Choose(2) // directly behind the original, or as the last arm
				arm, form := cs.arms[d-1], cs.forms[d-1]
				if at == 0 {
					cs.arms = append(cs.arms[:d:d], append([]int{arm}, cs.arms[d:]...)...)
					cs.forms = append(cs.forms[:d:d], append([]int{form}, cs.forms[d:]...)...)
				} else {
					cs.arms = append(cs.arms, arm)
					cs.forms = append(cs.forms, form)
				}
				cs.dup = true
			}
		}
		covered := map[int]bool{}
		for _, a := range cs.arms {
			covered[a] = true
		}
		for i := 0; i < cs.n; i++ {
			if !covered[i] {
				cs.uncovered = append(cs.uncovered, cs.nm(i))
			}
		}
		cs.accept = cs.deflt || len(cs.uncovered) == 0
		cs.src = c09Render(cs, "")
		return cs
	}
}

// c09DefaultOnlyDriver: a match that consists of the default arm alone - it "ends with a default arm", so the
// statement demands acceptance (fc refuses it by design: the recorded finding C09:default-only-match-rejected)
func c09DefaultOnlyDriver() func(c *explore.Chooser) *c09Case {
	return func(c *explore.Chooser) *c09Case {
		cs := &c09Case{defaultOnly: true, accept: true, deflt: true}
		cs.n = 1 + c.Choose(3)
		cs.payload = make([]bool, cs.n)
		for i := range cs.payload {
			cs.payload[i] = c.Bool()
		}
		var sb strings.Builder
		sb.WriteString("package main\nimport frt\nimport slice\n\ntype U =\n")
		for i := 0; i < cs.n; i++ {
			if cs.payload[i] {
				fmt.Fprintf(&sb, "  | %s of int\n", c09Name(i))
			} else {
				fmt.Fprintf(&sb, "  | %s\n", c09Name(i))
			}
		}
		sb.WriteString("\nlet f (u:U) =\n  match u with\n  | _ -> 999\n")
		cs.src = sb.String()
		return cs
	}
}

// c09Render renders the program; suffix makes all names unique (for batching).
func c09Render(cs *c09Case, suffix string) string {
	var sb strings.Builder
	if suffix == "" {
		sb.WriteString("package main\nimport frt\nimport slice\n\n")
	}
	un := "U" + suffix
	if cs.target == 3 {
		fmt.Fprintf(&sb, "type %s<T> =\n", un)
	} else {
		fmt.Fprintf(&sb, "type %s =\n", un)
	}
	for i := 0; i < cs.n; i++ {
		if cs.payload[i] {
			pt := "int"
			if cs.target == 3 {
				pt = "T"
			}
			fmt.Fprintf(&sb, "  | %s%s of %s\n", cs.nm(i), suffix, pt)
		} else {
			fmt.Fprintf(&sb, "  | %s%s\n", cs.nm(i), suffix)
		}
	}
	sb.WriteString("\n")
	arms := func(ind string, block bool) string {
		var ab strings.Builder
		for k, a := range cs.arms {
			nm := cs.nm(a) + suffix
			val := fmt.Sprint(100 + a)
			pat := nm
			if cs.payload[a] {
				switch cs.forms[k] {
				case 0:
					pat = nm + " x"
					val = "x + " + fmt.Sprint(100+a)
				case 1:
					pat = nm + " _"
				}
			}
			if block {
				fmt.Fprintf(&ab, "%s| %s ->\n%s  let w = %s\n%s  w\n", ind, pat, ind, val, ind)
			} else {
				fmt.Fprintf(&ab, "%s| %s -> %s\n", ind, pat, val)
			}
		}
		if cs.deflt {
			fmt.Fprintf(&ab, "%s| _ -> 999\n", ind)
		}
		return ab.String()
	}
	fn := "f" + suffix
	switch cs.host {
	case 0:
		ctor0 := cs.nm(0) + suffix
		if cs.payload[0] {
			ctor0 += " 1"
		} else if cs.target == 3 {
			ctor0 += "<int> ()"
		}
		switch cs.target {
		case 0:
			fmt.Fprintf(&sb, "let %s (u:%s) =\n  match u with\n%s", fn, un, arms("  ", false))
		case 1:
			fmt.Fprintf(&sb, "let id%s (w:%s) = w\n\nlet %s (u:%s) =\n  match id%s u with\n%s", un, un, fn, un, un, arms("  ", false))
		case 2:
			fmt.Fprintf(&sb, "let %s (u:%s) =\n  let v = %s\n  match v with\n%s", fn, un, ctor0, arms("  ", false))
		case 3:
			fmt.Fprintf(&sb, "let %s (i:int) =\n  let v = %s\n  match v with\n%s", fn, ctor0, arms("  ", false))
		case 4:
			// the target's type is not known where the match is parsed (un-annotated lambda parameter)
			fmt.Fprintf(&sb, "let %s (us:[]%s) =\n  us |> slice.Map (fun v ->\n    match v with\n%s    )\n", fn, un, arms("    ", false))
		case 5:
			// the target is the result of a generic library call
			fmt.Fprintf(&sb, "let %s (us:[]%s) =\n  match slice.Head us with\n%s", fn, un, arms("  ", false))
		}
	case 1:
		fmt.Fprintf(&sb, "let %s (u:%s) =\n  if 1 < 2 then\n    match u with\n%s  else\n    0\n", fn, un, arms("    ", false))
	case 2:
		fmt.Fprintf(&sb, "let %s (u:%s) =\n  let g = fun (v:%s) ->\n            match v with\n%s  g u\n", fn, un, un, arms("            ", false))
	case 3:
		fmt.Fprintf(&sb, "let %s (u:%s) =\n  let r = match u with\n%s  r + 0\n", fn, un, arms("          ", false))
	case 4:
		fmt.Fprintf(&sb, "let %s (u:%s) =\n  match u with\n  | _ ->\n    match u with\n%s", fn, un, arms("    ", false))
		// outer match is default-only: illegal; use a string match instead
		sb.Reset()
		if suffix == "" {
			sb.WriteString("package main\nimport frt\nimport slice\n\n")
		}
		fmt.Fprintf(&sb, "type %s =\n", un)
		for i := 0; i < cs.n; i++ {
			if cs.payload[i] {
				fmt.Fprintf(&sb, "  | %s%s of int\n", cs.nm(i), suffix)
			} else {
				fmt.Fprintf(&sb, "  | %s%s\n", cs.nm(i), suffix)
			}
		}
		fmt.Fprintf(&sb, "\nlet %s (u:%s) =\n  match \"k\" with\n  | \"k\" ->\n    match u with\n%s  | _ -> 0\n", fn, un, arms("    ", false))
	case 5:
		fmt.Fprintf(&sb, "let %s (u:%s) =\n  [u] |> slice.Map (fun (v:%s) ->\n    match v with\n%s    ) |> slice.Head\n", fn, un, un, arms("    ", false))
	case 6:
		fmt.Fprintf(&sb, "let %s (u:%s) =\n  match u with\n%s", fn, un, arms("  ", true))
	case 7:
		// the initialiser of a top-level VARIABLE (after seed C09k: diagnostics collected per definition and raised for
		// functions only); the target is a constructor value
		ctor0 := cs.nm(0) + suffix
		if cs.payload[0] {
			ctor0 = "(" + ctor0 + " 1)"
		}
		fmt.Fprintf(&sb, "let gv%s = match %s with\n%s\nlet %s (u:%s) =\n  gv%s\n", suffix, ctor0, arms("          ", false), fn, un, suffix)
	}
	return sb.String()
}

// c09LargeDriver: unions with many cases (sizes around 8, 16, 32, 64 and a prime in between) - payload
// on no / every second / every case, arms in declaration or reverse order, nothing omitted or exactly
// one case omitted at every position (thorough: also every pair among the first, middle and last three),
// with and without default.  All small unions are enumerated completely; a bookkeeping structure that
// changes behaviour with the size (a bitmask, a fixed array, a map after a linear list) shows only here.
func c09LargeDriver(sizes []int, pairs bool) func(c *explore.Chooser) *c09Case {
	return func(c *explore.Chooser) *c09Case {
		cs := &c09Case{host: 0}
		cs.n = sizes[c.Choose(len(sizes))]
		cs.payload = make([]bool, cs.n)
		pm := c.Choose(3)
		for i := range cs.payload {
			cs.payload[i] = pm == 2 || (pm == 1 && i%2 == 0)
		}
		reverse := c.Bool()
		omit := map[int]bool{}
		if pairs && c.Bool() {
			cand := []int{0, 1, 2, cs.n/2 - 1, cs.n / 2, cs.n/2 + 1, cs.n - 3, cs.n - 2, cs.n - 1}
			a := c.Choose(len(cand))
			b := c.Choose(len(cand))
			if cand[a] >= cand[b] {
				c.Skip("unordered pair")
			}
			omit[cand[a]], omit[cand[b]] = true, true
		} else if o := c.Choose(cs.n + 1); o > 0 {
			omit[o-1] = true
		}
		for i := 0; i < cs.n; i++ {
			k := i
			if reverse {
				k = cs.n - 1 - i
			}
			if !omit[k] {
				cs.arms = append(cs.arms, k)
				f := 0
				if cs.payload[k] {
					f = k % 3
				}
				cs.forms = append(cs.forms, f)
			}
		}
		cs.deflt = c.Bool()
		for i := 0; i < cs.n; i++ {
			if omit[i] {
				cs.uncovered = append(cs.uncovered, c09Name(i))
			}
		}
		cs.accept = cs.deflt || len(cs.uncovered) == 0
		cs.src = c09Render(cs, "")
		return cs
	}
}

// c09PairDriver: two matches on the SAME union in one fc invocation - in two functions of one file,
// in two files, or the second nested in the first arm of the first.  State that survives from one
// exhaustiveness check to the next (a cached cover table, a set that is not reset) shows only here.
func c09PairDriver(maxN int) func(c *explore.Chooser) *c09Case {
	return func(c *explore.Chooser) *c09Case {
		cs := &c09Case{host: 100 + c.Choose(3)} // 100 sequential, 101 nested, 102 two files
		cs.n = 2 + c.Choose(maxN-1)
		cs.payload = make([]bool, cs.n)
		for i := range cs.payload {
			cs.payload[i] = c.Bool()
		}
		type sel struct {
			arms  []int
			deflt bool
		}
		pick := func() sel {
			var s sel
			for i := 0; i < cs.n; i++ {
				if c.Bool() {
					s.arms = append(s.arms, i)
				}
			}
			if len(s.arms) == 0 {
				c.Skip("no arm")
			}
			s.deflt = c.Bool()
			return s
		}
		a, b := pick(), pick()
		unc := func(s sel) []string {
			if s.deflt {
				return nil
			}
			var out []string
			for i := 0; i < cs.n; i++ {
				found := false
				for _, x := range s.arms {
					if x == i {
						found = true
					}
				}
				if !found {
					out = append(out, c09Name(i))
				}
			}
			return out
		}
		ua, ub := unc(a), unc(b)
		cs.uncovered = append(append([]string{}, ua...), ub...)
		cs.accept = len(ua) == 0 && len(ub) == 0
		arms := func(s sel, ind string, inner string) string {
			var sb strings.Builder
			for k, x := range s.arms {
				pat := c09Name(x)
				if cs.payload[x] {
					pat += " _"
				}
				if k == 0 && inner != "" {
					fmt.Fprintf(&sb, "%s| %s ->\n%s", ind, pat, inner)
				} else {
					fmt.Fprintf(&sb, "%s| %s -> %d\n", ind, pat, 100+x)
				}
			}
			if s.deflt {
				fmt.Fprintf(&sb, "%s| _ -> 999\n", ind)
			}
			return sb.String()
		}
		var ty strings.Builder
		ty.WriteString("type U =\n")
		for i := 0; i < cs.n; i++ {
			if cs.payload[i] {
				fmt.Fprintf(&ty, "  | %s of int\n", c09Name(i))
			} else {
				fmt.Fprintf(&ty, "  | %s\n", c09Name(i))
			}
		}
		head := "package main\nimport frt\nimport slice\n\n"
		switch cs.host {
		case 100:
			cs.src = head + ty.String() + "\nlet f (u:U) =\n  match u with\n" + arms(a, "  ", "") + "\nlet g (u:U) =\n  match u with\n" + arms(b, "  ", "")
		case 101:
			inner := "    match u with\n" + arms(b, "    ", "")
			cs.src = head + ty.String() + "\nlet f (u:U) =\n  match u with\n" + arms(a, "  ", inner)
		case 102:
			cs.src = head + ty.String() + "\nlet f (u:U) =\n  match u with\n" + arms(a, "  ", "")
			cs.src2 = "package main\n\nlet g (u:U) =\n  match u with\n" + arms(b, "  ", "")
		}
		return cs
	}
}

func checkC09(c *core.Ctx) {
	sc, err := impl.New(c.Repo)
	if err != nil {
		panic(err)
	}
	defer sc.Close()
	fc, err := sc.BuildFC()
	if err != nil {
		panic(err)
	}
	c.Set("rule", "cases are enumerated by the choice-tree explorer: number of union cases n, payload mask, ordered non-empty selection of distinct arms, pattern form per payload arm (bind / _ / none), default arm yes/no, hosting position (n<=3); distinct = distinct program text; non-trivial = n >= 2 (so that a proper subset of the cases exists)")
	c.Assumption("a default arm that is not last and arms naming a foreign case are outside the space (the statement's accept/reject clause is about coverage)")
	c.Assumption("the diagnostic is only required to contain the name of a really uncovered case somewhere; its wording is not matched")
	if c.ReplayFile != "" {
		c09Replay(c, fc, sc)
		return
	}
	maxN, hostN := 4, 3
	if c.Thorough() {
		maxN, hostN = 5, 3
	}
	drv := c09Driver(maxN, hostN)
	jobs := make(chan *c09Case, 1024)
	var wg sync.WaitGroup
	var acceptedMu sync.Mutex
	var accepted, acceptedScope []*c09Case
	for w := 0; w < c.Workers; w++ {
		wg.Add(1)
		go func(w int) {
			defer wg.Done()
			dir := sc.TempDir("c09_")
			defer os.RemoveAll(dir)
			for cs := range jobs {
				if c.TooManyViolations() {
					continue
				}
				ok := c09RunOne(c, fc, sc.PkgAllFoi(), dir, cs)
				if ok && cs.scope != nil {
					acceptedMu.Lock()
					acceptedScope = append(acceptedScope, cs)
					acceptedMu.Unlock()
				} else if ok && cs.n <= 3 && cs.host < 100 && cs.host != 7 && cs.target == 0 && cs.naming == 0 && !cs.dup {
					acceptedMu.Lock()
					accepted = append(accepted, cs)
					acceptedMu.Unlock()
				}
			}
		}(w)
	}
	var cur *c09Case
	st := explore.Explore(-1, func(ch *explore.Chooser) { cur = drv(ch) }, func(ch *explore.Chooser) bool {
		cur.choices = append([]int{}, ch.Choices...)
		if c.Expired() {
			return false
		}
		jobs <- cur
		return true
	})
	{
		pd := c09PairDriver(3)
		var cur2 *c09Case
		st2 := explore.Explore(-1, func(ch *explore.Chooser) { cur2 = pd(ch) }, func(ch *explore.Chooser) bool {
			cur2.choices = append([]int{}, ch.Choices...)
			if c.Expired() {
				return false
			}
			jobs <- cur2
			return true
		})
		c.Count(0, st2.States, st2.Transitions, 0)
		c.Set("two_match_histories", st2.Executions)
	}
	{
		// around the word sizes too (a bit set of covered cases: 8, 16, 32, 64)
		sizes := []int{7, 8, 9, 13, 16, 17, 33, 64, 65, 66}
		if c.Thorough() {
			sizes = []int{6, 7, 8, 9, 13, 15, 16, 17, 26, 27, 31, 32, 33, 63, 64, 65, 66, 127, 128, 129, 130, 257}
		}
		ld := c09LargeDriver(sizes, c.Thorough())
		var cur3 *c09Case
		st3 := explore.Explore(-1, func(ch *explore.Chooser) { cur3 = ld(ch) }, func(ch *explore.Chooser) bool {
			cur3.choices = append([]int{}, ch.Choices...)
			if c.Expired() {
				return false
			}
			jobs <- cur3
			return true
		})
		c.Count(0, st3.States, st3.Transitions, 0)
		c.Set("large_unions", map[string]any{"sizes": sizes, "programs": st3.Executions - st3.Skipped})
	}
	{
		sd := c09ScopeDriver()
		var cur4 *c09Case
		st4 := explore.Explore(-1, func(ch *explore.Chooser) { cur4 = sd(ch) }, func(ch *explore.Chooser) bool {
			cur4.choices = append([]int{}, ch.Choices...)
			if c.Expired() {
				return false
			}
			jobs <- cur4
			return true
		})
		c.Count(0, st4.States, st4.Transitions, 0)
		c.Set("target_named_like_another_binder", map[string]any{"programs": st4.Executions - st4.Skipped, "space": "binder kind (arm payload, lambda parameter, inner-block let, local function parameter) x binder type (union sharing case names with the target's, int, unrelated union) x binder name (same as the target / other) x position of the match (later, earlier, inside the binder's scope, after the whole construct) x every non-empty arm subset x default"})
	}
	{
		dd := c09DefaultOnlyDriver()
		var cur5 *c09Case
		st5 := explore.Explore(-1, func(ch *explore.Chooser) { cur5 = dd(ch) }, func(ch *explore.Chooser) bool {
			cur5.choices = append([]int{}, ch.Choices...)
			jobs <- cur5
			return true
		})
		c.Count(0, st5.States, st5.Transitions, 0)
		c.Set("default_only_matches", st5.Executions)
	}
	close(jobs)
	wg.Wait()
	c.Count(0, st.States, st.Transitions, 0)
	c.Set("explorer", map[string]any{"executions": st.Executions, "max_depth": st.MaxDepth, "stopped_early": st.Stopped})
	c.Set("max_cases", maxN)
	// accepted programs with n <= 3: compile and run on every constructor value
	if c.ViolationCount() == 0 {
		c09RunAccepted(c, fc, sc, accepted)
		sort.Slice(acceptedScope, func(i, j int) bool { return fmt.Sprint(acceptedScope[i].choices) < fmt.Sprint(acceptedScope[j].choices) })
		var wg2 sync.WaitGroup
		for i := 0; i < len(acceptedScope); i += 100 {
			j := min(i+100, len(acceptedScope))
			wg2.Add(1)
			go func(part []*c09Case) {
				defer wg2.Done()
				if !c.Expired() {
					c09ExecScope(c, fc, sc, part)
				}
			}(acceptedScope[i:j])
		}
		wg2.Wait()
		c09ZeroValue(c, fc, sc)
	}
}

var c09Word = regexp.MustCompile(`Zq[A-Za-z]*`)

// returns true if the program was accepted as expected
func c09RunOne(c *core.Ctx, fc, foi, dir string, cs *c09Case) bool {
	os.Remove(filepath.Join(dir, "gen_t.go"))
	os.Remove(filepath.Join(dir, "gen_t2.go"))
	os.WriteFile(filepath.Join(dir, "t.fo"), []byte(cs.src), 0o644)
	args := []string{"t.fo"}
	if cs.host == 5 || cs.target >= 4 {
		args = []string{foi, "t.fo"}
	}
	if cs.src2 != "" {
		os.WriteFile(filepath.Join(dir, "t2.fo"), []byte(cs.src2), 0o644)
		args = append(args, "t2.fo")
	}
	r := impl.RunWithRetry(dir, 20*time.Second, 60*time.Second, fc, args...)
	_, statErr := os.Stat(filepath.Join(dir, "gen_t.go"))
	genExists := statErr == nil
	if cs.src2 != "" {
		// two files: "the" output is the one of the file holding the (first) incomplete match; for accepted
		// cases both must exist; for rejected ones the offending file's must not
		_, e2 := os.Stat(filepath.Join(dir, "gen_t2.go"))
		if cs.accept {
			genExists = genExists && e2 == nil
		} else {
			genExists = genExists && e2 == nil
		}
	}
	c.Count(1, 0, 0, 1)
	c.DistinctNT(cs.src+cs.src2, cs.n >= 2)
	c.Hist("by_n", fmt.Sprint(cs.n), 1)
	c.Hist("by_host", fmt.Sprint(cs.host), 1)
	exp := "reject"
	if cs.accept {
		exp = "accept"
	}
	c.Hist("expected", exp, 1)
	c.Sample(map[string]any{"program": cs.src, "expected": exp})
	rep := func(obs string) map[string]any {
		return map[string]any{"choices": cs.choices, "input": map[string]string{"t.fo": cs.src, "t2.fo": cs.src2}, "expected": exp, "observed": obs}
	}
	if r.TimedOut {
		c.Outcome("hang")
		c.Violation("C09:hang", "fc did not terminate on a match program", rep("timeout"))
		return false
	}
	if cs.target >= 4 {
		// the type of the target is not evident where the match is written: fc may refuse such a match altogether
		// (outside the documented subset).  What the property still demands: an incomplete default-less match
		// is never ACCEPTED.
		switch {
		case r.Exit != 0 && !genExists:
			c.Outcome("target-type-not-evident:rejected")
		case r.Exit == 0 && genExists && cs.accept:
			c.Outcome("target-type-not-evident:accepted-complete")
		case r.Exit == 0 && !cs.accept:
			c.Outcome("wrongly-accepted")
			c.Violation(fmt.Sprintf("C09:wrongly-accepted:target%d", cs.target), fmt.Sprintf("a match without default that omits %v was accepted (target whose type is inferred)", cs.uncovered), rep(fmt.Sprintf("exit=0 gen=%v", genExists)))
		default:
			c.Outcome("inconsistent-exit-and-output")
			c.Violation("C09:inconsistent", fmt.Sprintf("exit=%d but output exists=%v", r.Exit, genExists), rep(r.Out()))
		}
		return false
	}
	if cs.accept {
		if r.Exit == 0 && genExists {
			c.Outcome("accepted")
			return true
		}
		c.Outcome("wrongly-rejected")
		if cs.defaultOnly && strings.Contains(r.Out(), "Only default case") {
			c.Violation("C09:default-only-match-rejected", fmt.Sprintf("a match that consists of the default arm alone was rejected: %s", strings.TrimSpace(r.Out())), rep(fmt.Sprintf("exit=%d gen=%v out=%s", r.Exit, genExists, r.Out())))
			return false
		}
		c.Violation(fmt.Sprintf("C09:wrongly-rejected:host%d", cs.host), fmt.Sprintf("a match that covers every case (or has a default arm) was rejected: exit=%d %s", r.Exit, strings.TrimSpace(r.Out())), rep(fmt.Sprintf("exit=%d gen=%v out=%s", r.Exit, genExists, r.Out())))
		return false
	}
	// must be rejected
	if r.Exit == 0 {
		c.Outcome("wrongly-accepted")
		c.Violation(fmt.Sprintf("C09:wrongly-accepted:host%d", cs.host), fmt.Sprintf("a match without default that omits %v was accepted", cs.uncovered), rep(fmt.Sprintf("exit=0 gen=%v", genExists)))
		return false
	}
	if genExists {
		c.Outcome("rejected-but-wrote-output")
		c.Violation("C09:rejected-with-output", "rejected match but gen file was written", rep(fmt.Sprintf("exit=%d gen=true", r.Exit)))
		return false
	}
	named := c09Word.FindAllString(r.Out(), -1)
	ok := false
	for _, nm := range named {
		for _, u := range cs.uncovered {
			if nm == u {
				ok = true
			}
		}
	}
	if !ok {
		c.Outcome("rejected-without-naming")
		c.Violation("C09:diagnostic-names-no-uncovered-case", fmt.Sprintf("diagnostic %q names none of the uncovered cases %v", strings.TrimSpace(r.Out()), cs.uncovered), rep(r.Out()))
		return false
	}
	c.Outcome("rejected")
	return false
}

// c09RunAccepted compiles the accepted programs (n<=3) in batches and runs
// every function on every constructor value: the emitted "never reached"
// panic must not fire and the selected arm must be the constructor's.
func c09RunAccepted(c *core.Ctx, fc string, sc *impl.Scratch, accepted []*c09Case) {
	if len(accepted) == 0 {
		return
	}
	// deterministic order (workers append concurrently)
	sort.Slice(accepted, func(i, j int) bool { return fmt.Sprint(accepted[i].choices) < fmt.Sprint(accepted[j].choices) })
	limit := 900
	if c.Thorough() {
		limit = len(accepted)
	}
	c.Set("accepted_programs_n_le_3", len(accepted))
	if len(accepted) > limit {
		// quick: an evenly spaced subset in enumeration order (a fixed stride, not a random sample)
		stride := (len(accepted) + limit - 1) / limit
		var sub []*c09Case
		for i := 0; i < len(accepted); i += stride {
			sub = append(sub, accepted[i])
		}
		c.Note(fmt.Sprintf("execution pass: every %d-th of the %d accepted programs with n<=3 (quick tier); thorough runs all", stride, len(accepted)))
		accepted = sub
	}
	const per = 300
	var wg sync.WaitGroup
	sem := make(chan struct{}, c.Workers)
	for i := 0; i < len(accepted); i += per {
		j := i + per
		if j > len(accepted) {
			j = len(accepted)
		}
		part := accepted[i:j]
		base := i
		wg.Add(1)
		sem <- struct{}{}
		go func() {
			defer wg.Done()
			defer func() { <-sem }()
			if c.Expired() {
				return
			}
			c09ExecBatch(c, fc, sc, part, base)
		}()
	}
	wg.Wait()
}

func c09ExecBatch(c *core.Ctx, fc string, sc *impl.Scratch, part []*c09Case, base int) {
	env := &gobatch.Env{Sc: sc, FC: fc, FCArgs: []string{sc.PkgAllFoi()}, Prelude: "package main\nimport frt\nimport slice\n\nlet zzUse () =\n  [1] |> slice.Head |> frt.Printf1 \"%d\"\n\n"}
	progs := make([]gobatch.Prog, len(part))
	wants := make([]string, len(part))
	for k, cs := range part {
		suf := fmt.Sprintf("_%d", k)
		var sb, want strings.Builder
		sb.WriteString(c09Render(cs, suf))
		fmt.Fprintf(&sb, "\nlet run%s () =\n", suf)
		for i := 0; i < cs.n; i++ {
			nm := c09Name(i) + suf
			arg := nm
			if cs.payload[i] {
				arg = "(" + nm + " 7)"
			}
			fmt.Fprintf(&sb, "  f%s %s |> frt.Printf1 \"%d=%%d\\n\"\n", suf, arg, i)
			w := 999
			for ai, a := range cs.arms {
				if a == i {
					w = 100 + a
					if cs.payload[a] && cs.forms[ai] == 0 {
						w = 7 + 100 + a
					}
				}
			}
			fmt.Fprintf(&want, "%d=%d\n", i, w)
		}
		progs[k] = gobatch.Prog{Defs: sb.String(), Run: "run" + suf}
		wants[k] = want.String()
	}
	res := env.Run(progs)
	for k, r := range res {
		cs := part[k]
		c.Count(1, 0, 0, 1)
		c.AddInt("executed_accepted_programs", 1)
		if r.Status == "ok" && r.Stdout == wants[k] {
			c.Outcome("executed-ok")
			continue
		}
		c.Outcome("executed-" + r.Status + "-mismatch")
		c.Violation("C09:exec:"+r.Status, fmt.Sprintf("accepted match program misbehaves when run on every constructor value: status=%s expected %q got %q %s", r.Status, wants[k], r.Stdout, firstLines(r.Detail, 4)),
			map[string]any{"choices": cs.choices, "kind": "exec", "input": map[string]string{"t.fo": cs.src}, "expected": wants[k], "observed": r.Status + ": " + r.Stdout + r.Detail})
	}
}

func firstLines(s string, n int) string {
	ls := strings.Split(strings.TrimSpace(s), "\n")
	if len(ls) > n {
		ls = ls[:n]
	}
	return strings.Join(ls, " | ")
}

func c09Replay(c *core.Ctx, fc string, sc *impl.Scratch) {
	rp, err := loadReplay(c.ReplayFile)
	if err != nil {
		panic(err)
	}
	dir := sc.TempDir("c09r_")
	os.WriteFile(filepath.Join(dir, "t.fo"), []byte(rp.Input["t.fo"]), 0o644)
	r := impl.Run(dir, 60*time.Second, "", fc, sc.PkgAllFoi(), "t.fo")
	_, statErr := os.Stat(filepath.Join(dir, "gen_t.go"))
	fmt.Printf("expected: %s\nobserved: exit=%d gen_exists=%v\n%s", rp.Expected, r.Exit, statErr == nil, r.Out())
	c.Count(1, 1, 1, 1)
	c.Sample(rp.Input["t.fo"])
	acc := r.Exit == 0 && statErr == nil
	if (rp.Expected == "accept") != acc {
		c.Violation("C09:replay", "replayed case still disagrees", map[string]any{"input": rp.Input, "expected": rp.Expected})
	}
}
