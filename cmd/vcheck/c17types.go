package main

import (
	"fmt"
	"strings"

	"verif/internal/core"
	"verif/internal/explore"
	"verif/internal/gobatch"
	"verif/internal/impl"
)

// c17TypeGroups: the declarations a program of the subset starts with.  Non-generic records and unions that
// mention one another are written as one `type .. and .. and ..` group (the shape of fc's own ast.fo, which
// tinyfo translated while fc was bootstrapped); a member may name a type that is defined later in the group.
// Every order of the members behind a leading union x every way the functions look THROUGH a field whose
// type was still undefined where the field was declared (a chain x.f.g, a let-bound x.f, a match on x.f,
// handing x.f to a function).  Unlike the generated programs these must be accepted by tinyfo: the group
// forms are spelled out here, not left to tinyfo's judgement (after seed C17h).
type c17TG struct {
	order   []string
	useA    int // 0 c.arg.value, 1 let a = c.arg / a.value, 2 valOf c.arg
	useW    int // 0 match w.inner with, 1 let i = w.inner / match i with
	grouped bool
}

var c17TGDecl = map[string]string{
	"Ex": "Ex@ =\n  | Num@ of int\n  | Call@ of Ci@\n",
	"Ci": "Ci@ = {name@: string; arg@: Ar@}\n",
	"Ar": "Ar@ = {label@: string; value@: int}\n",
	"Wr": "Wr@ = {inner@: Ex@; tag@: int}\n",
}

func (t *c17TG) render(x string) string {
	var sb strings.Builder
	for k, n := range t.order {
		if k == 0 || !t.grouped {
			sb.WriteString("type " + c17TGDecl[n])
			if !t.grouped {
				sb.WriteString("\n")
			}
		} else {
			sb.WriteString("and " + c17TGDecl[n])
		}
	}
	sb.WriteString("\nlet valOf@ (a:Ar@) : int =\n  a.value@\n\nlet useA@ (e:Ex@) : int =\n  match e with\n  | Num@ k -> k\n")
	switch t.useA {
	case 0:
		sb.WriteString("  | Call@ c -> c.arg@.value@ + 100\n")
	case 1:
		sb.WriteString("  | Call@ c ->\n    let a = c.arg@\n    a.value@ + 100\n")
	case 2:
		sb.WriteString("  | Call@ c -> valOf@ c.arg@ + 100\n")
	}
	hasWr := false
	for _, n := range t.order {
		if n == "Wr" {
			hasWr = true
		}
	}
	if hasWr {
		sb.WriteString("\nlet useW@ (w:Wr@) : int =\n")
		if t.useW == 0 {
			sb.WriteString("  match w.inner@ with\n")
		} else {
			sb.WriteString("  let i = w.inner@\n  match i with\n")
		}
		sb.WriteString("  | Num@ k -> k + w.tag@\n  | Call@ c -> useA@ (Call@ c) + w.tag@\n")
	}
	sb.WriteString("\nlet run@ () =\n  let a = {label@=\"x\"; value@=7}\n  let c = {name@=\"f\"; arg@=a}\n  let e = Call@ c\n  useA@ e |> frt.Printf1 \"%d\\n\"\n  useA@ (Num@ 4) |> frt.Printf1 \"%d\\n\"\n  c.arg@.label@ |> frt.Printf1 \"%s\\n\"\n")
	if hasWr {
		sb.WriteString("  let w = {inner@=e; tag@=5}\n  useW@ w |> frt.Printf1 \"%d\\n\"\n  useW@ {inner@=Num@ 3; tag@=5} |> frt.Printf1 \"%d\\n\"\n")
	}
	return strings.ReplaceAll(sb.String(), "@", x)
}

func (t *c17TG) want() string {
	w := "107\n4\nx\n"
	for _, n := range t.order {
		if n == "Wr" {
			w += "112\n8\n"
		}
	}
	return w
}

func c17TypeGroups(c *core.Ctx, sc *impl.Scratch, tiny, fc, foi string) {
	var all []*c17TG
	perms := func(xs []string) [][]string {
		var out [][]string
		var rec func(cur, rest []string)
		rec = func(cur, rest []string) {
			if len(rest) == 0 {
				out = append(out, append([]string{}, cur...))
				return
			}
			for i := range rest {
				r2 := append(append([]string{}, rest[:i]...), rest[i+1:]...)
				rec(append(cur, rest[i]), r2)
			}
		}
		rec(nil, xs)
		return out
	}
	st := explore.Explore(-1, func(ch *explore.Chooser) {
		t := &c17TG{}
		t.grouped = ch.Choose(2) == 0
		withWr := ch.Bool()
		if t.grouped {
			rest := []string{"Ci", "Ar"}
			if withWr {
				rest = append(rest, "Wr")
			}
			ps := perms(rest)
			t.order = append([]string{"Ex"}, ps[ch.Choose(len(ps))]...)
		} else {
			// separate declarations in dependency order: the control
			t.order = []string{"Ar", "Ci", "Ex"}
			if withWr {
				t.order = append(t.order, "Wr")
			}
		}
		t.useA = ch.Choose(3)
		if withWr {
			t.useW = ch.Choose(2)
		}
		all = append(all, t)
	}, func(ch *explore.Chooser) bool { return true })
	c.Count(0, st.States, st.Transitions, 0)
	progs := make([]gobatch.Prog, len(all))
	for k, t := range all {
		x := fmt.Sprintf("_%d", k)
		progs[k] = gobatch.Prog{Defs: t.render(x), Run: "run" + x}
	}
	te := &gobatch.Env{Sc: sc, FC: tiny, FCArgs: []string{foi}, Prelude: c17Prelude}
	fe := &gobatch.Env{Sc: sc, FC: fc, FCArgs: []string{foi}, Prelude: c17Prelude}
	tres := te.Run(progs)
	fres := fe.Run(progs)
	forward := 0
	for k, t := range all {
		src := t.render("")
		c.Count(1, 0, 0, 2)
		c.DistinctNT(src, t.grouped)
		if t.grouped {
			forward++
		}
		if k < 3 {
			c.Sample(map[string]any{"program": src, "expected_stdout": t.want()})
		}
		tr, fr := tres[k], fres[k]
		switch {
		case tr.Status == "ok" && tr.Stdout == t.want() && fr.Status == "ok" && fr.Stdout == t.want():
			c.Outcome("all-three-agree")
		case !(tr.Status == "ok" && tr.Stdout == t.want()):
			sig := "C17:tinyfo:type-group:" + tr.Status
			c.Outcome(sig)
			c.Violation(sig, fmt.Sprintf("tinyfo on a program whose types form a `type .. and ..` group: status=%s stdout=%q expected %q %s (fc: %s %q)\nprogram:\n%s", tr.Status, tr.Stdout, t.want(), firstLines(tr.Detail, 4), fr.Status, fr.Stdout, src),
				map[string]any{"program": src, "expected": t.want(), "observed": tr.Status + ": " + tr.Stdout + " " + trunc(tr.Detail, 1200), "fc_output": fr.Stdout})
		default:
			sig := "C17:fc-differs:type-group:" + fr.Status
			c.Outcome(sig)
			c.Violation(sig, fmt.Sprintf("fc on a program whose types form a `type .. and ..` group: status=%s stdout=%q expected %q %s\nprogram:\n%s", fr.Status, fr.Stdout, t.want(), firstLines(fr.Detail, 4), src),
				map[string]any{"program": src, "expected": t.want(), "observed": fr.Status + ": " + fr.Stdout})
		}
	}
	c.Set("type_group_programs", map[string]any{"programs": len(all), "with_forward_references": forward,
		"space": "a leading union followed by every order of 2 or 3 records joined with `and` (plus separate declarations in dependency order) x 3 ways to look through a field of a later-defined record type x 2 ways to match on a field of union type; all must be accepted by tinyfo"})
}
