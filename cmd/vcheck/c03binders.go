package main

import (
	"fmt"
	"strings"

	"verif/internal/explore"
)

// c03BindersDriver: top-level lets whose documented Go signature depends on the TYPE fc has for a parameter after
// the body bound the same name again somewhere inside - as the payload variable of a match arm, a lambda
// parameter, the variable rule of a string match, a parameter of a local function - with another type.  The
// parameter is used again after that construct in a position whose type reaches the Go text: a component of the
// result tuple, an element of a result slice, the argument a generic package_info function is applied to
// partially (the closure's parameter and result types).  The Go client assigns the function to a variable of
// the documented function type and calls it (after seed C03h: binders that outlive their construct).
func c03BindersDriver() func(c *explore.Chooser, k int) *c03Case {
	ptys := []c03Ty{c03Menu[1], c03Menu[3], c03Menu[8], c03Menu[9]} // string []int R0 U0
	return func(c *explore.Chooser, k int) *c03Case {
		cs := &c03Case{kind: "let-with-inner-binder"}
		binder := c.Choose(4)
		pt := ptys[c.Choose(len(ptys))]
		same := c.Bool()
		use := c.Choose(3)
		if binder == 2 && pt.fo == "string" {
			c.Skip("the binder has the parameter's type")
		}
		b := "q"
		if same {
			b = "p0"
		}
		var fo strings.Builder
		if use == 2 {
			fmt.Fprintf(&fo, "package_info _ =\n  let Keep3x%d<T>: int->T->T->T\n\n", k)
			cs.goDecls = fmt.Sprintf("func Keep3x%d[T any](n int, a T, b T) T {\n\tfmt.Printf(\"Keep3(%%d)\\n\", n)\n\treturn a\n}\n", k)
		}
		fmt.Fprintf(&fo, "let bb%d (p0:%s) (u:U0) (s:string) =\n", k, pt.fo)
		mWant := 0
		switch binder {
		case 0:
			fmt.Fprintf(&fo, "  let m = match u with\n          | X0 %s -> %s + 1\n          | Y0 -> 0\n", b, b)
			mWant = 5
		case 1:
			fmt.Fprintf(&fo, "  let m = slice.Map (fun %s -> %s + 1) [1; 2] |> slice.Last\n", b, b)
			mWant = 3
		case 2:
			fmt.Fprintf(&fo, "  let m = match s with\n          | \"a\" -> 0\n          | %s -> slice.Length [%s; s]\n", b, b)
			mWant = 2
		case 3:
			fmt.Fprintf(&fo, "  let g (%s:int) =\n    %s + 1\n  let m = g 1\n", b, b)
			mWant = 2
		}
		var rt, call string
		switch use {
		case 0:
			fo.WriteString("  (m, p0)\n\n")
			rt = "frt.Tuple2[int, " + pt.gt + "]"
			call = fmt.Sprintf("\tr := d(%s, New_U0_X0(4), \"zz\")\n\tfmt.Println(r.E0, %s)\n", pt.goVal, pt.showOf("r.E1"))
			cs.want = []string{fmt.Sprintf("%d %s", mWant, pt.want)}
		case 1:
			fo.WriteString("  (m, [p0; p0])\n\n")
			rt = "frt.Tuple2[int, []" + pt.gt + "]"
			call = fmt.Sprintf("\tr := d(%s, New_U0_X0(4), \"zz\")\n\tfmt.Println(r.E0, len(r.E1), %s)\n", pt.goVal, pt.showOf("r.E1[1]"))
			cs.want = []string{fmt.Sprintf("%d 2 %s", mWant, pt.want)}
		case 2:
			fmt.Fprintf(&fo, "  Keep3x%d m p0\n\n", k)
			rt = "func(" + pt.gt + ") " + pt.gt
			call = fmt.Sprintf("\tr := d(%s, New_U0_X0(4), \"zz\")\n\tfmt.Println(%s)\n", pt.goVal, pt.showOf("r("+pt.goVal+")"))
			cs.want = []string{fmt.Sprintf("Keep3(%d)", mWant), pt.want}
		}
		cs.fo = fo.String()
		cs.client = fmt.Sprintf("\tvar d func(%s, U0, string) %s = bb%d\n", pt.gt, rt, k) + call
		return cs
	}
}
