package main

import (
	"fmt"
	"os"
	"regexp"
	"sort"
	"strings"
	"sync"

	"verif/internal/core"
	"verif/internal/explore"
	"verif/internal/fo"
	"verif/internal/gobatch"
	"verif/internal/impl"
)

// C01: transpiled programs behave exactly as their Folang source specifies.

func init() { register("C01", checkC01) }

type c01Case struct {
	layout   fo.Layout // nil = the default (tutorial) layout
	choices  []int
	cs       *fo.Case
	src      string
	want     string
	wantDef  string // output under the partial-application defect model
	wantLeak string // output under the string-match-variable defect model (alone / together with the first one)
	wantBoth string
	ood      string
}

var c01Types = []fo.Type{"int", "string", "bool", "unit"}

// c01Enumerate enumerates all cases with exactly `fuel` constructs for the
// profile and hands them to flush in chunks (flush returns false to stop).
func c01Enumerate(p fo.Profile, fuel int, chunk int, flush func([]*c01Case) bool) (explore.Stats, int64) {
	var out []*c01Case
	var total explore.Stats
	var n int64
	stopped := false
	for _, t := range c01Types {
		if stopped {
			break
		}
		var cur *fo.Case
		st := explore.Explore(-1, func(ch *explore.Chooser) {
			g := fo.NewGen(ch, p, "")
			cur = fo.BuildCase(g, t, fuel)
		}, func(ch *explore.Chooser) bool {
			c := &c01Case{choices: append([]int{}, ch.Choices...), cs: cur}
			out = append(out, c)
			n++
			if len(out) >= chunk {
				ok := flush(out)
				out = nil
				if !ok {
					stopped = true
					return false
				}
			}
			return true
		})
		total.Add(st)
	}
	if len(out) > 0 && !stopped {
		if !flush(out) {
			total.Stopped = true
		}
	}
	if stopped {
		total.Stopped = true
	}
	return total, n
}

// suffix all top-level names of the case with _k so that many cases share one file
var c01TopName = regexp.MustCompile(`\b(run|body|lift\d+)\b`)

func c01Suffix(src string, k int) string {
	return c01TopName.ReplaceAllStringFunc(src, func(s string) string { return fmt.Sprintf("%s_%d", s, k) })
}

func checkC01(c *core.Ctx) {
	sc, err := impl.New(c.Repo)
	if err != nil {
		panic(err)
	}
	defer sc.Close()
	fc, err := sc.BuildFC()
	if err != nil {
		panic(err)
	}
	if b, err := os.ReadFile(sc.PkgAllFoi()); err == nil {
		fo.FoiText = string(b)
	}
	c.Set("rule", "programs are enumerated by the choice-tree explorer: result type (int, string, bool, unit) x root position (let-bound, argument, body of its own function / statement, final expression) x every well-typed term with exactly k constructs of the alphabet (every production, every split of k over the holes, every leaf: traced constant or variable in scope); each is transpiled by fc, compiled by go build against the working tree's pkg/* and executed (batched, verdicts only on single-program re-runs); distinct = distinct program text; non-trivial = at least one construct and at least two output events")
	c.Assumption("the documented subset of DESIGN.md 1.3: every let-bound name is used, local function lets only as direct statements of a function body, block-valued constructs parenthesised in operand/argument/target positions, division by zero / Head [] etc. are out of domain (skipped and counted)")
	c.Assumption("reference semantics: strict, left to right, lexical scope (DESIGN.md appendix B); the prelude's traced leaves make order and multiplicity of evaluation visible in stdout")
	if c.ReplayFile != "" {
		c01Replay(c, sc, fc)
		return
	}
	full := fo.Profile{}
	type plan struct {
		p    fo.Profile
		k    int
		name string
	}
	only := func(names ...string) map[string]bool {
		m := map[string]bool{}
		for _, n := range names {
			m[n] = true
		}
		return m
	}
	k2 := plan{fo.Profile{ExtWithReps: true}, 2, "full; round-3 productions only with representatives"}
	if c.Thorough() {
		k2 = plan{full, 2, "full"}
	}
	plans := []plan{{full, 0, "full"}, {full, 1, "full"}, k2,
		{fo.Profile{Only: only("if-else", "if-only", "app-say")}, 3, "if nesting"},
		{fo.Profile{Only: only("let", "lambda-let", "partial-let", "pipe-partial", "local-fun", "lifted-annotated", "lifted-unannotated", "app-add", "app-fnvalue", "app-say")}, 3, "closure constructs"}}
	if c.Thorough() {
		plans = append(plans,
			plan{fo.Profile{Only: only("if-else", "if-only", "match-union-default")}, 3, "if and match nesting"},
			plan{fo.Profile{Only: only("if-else", "if-only", "match-union", "match-union-default", "app-say", "seq", "let")}, 3, "control-flow constructs"},
			plan{fo.Profile{Only: only("if-else", "match-union", "match-union-default", "let", "lambda-let", "partial-let", "pipe-partial", "local-fun", "seq", "lifted-annotated", "lifted-unannotated", "logic", "app-add", "app-fnvalue", "app-say", "if-only", "let-destr", "interp", "field-of-var")}, 3, "control-flow and closure constructs"},
			plan{fo.Profile{Only: only("if-else", "let", "partial-let", "lambda-let", "seq", "app-add", "local-fun", "app-fnvalue")}, 4, "closure core"})
	}
	if os.Getenv("VERIF_C01_CORPUS_ONLY") != "" {
		plans = nil
		c.NotExhaustive("corpus only (debugging switch)")
	}
	used := map[string]int64{}
	var completedPlans []string
	// first the two small hand-kept families (a deadline then cuts only the tail of the big enumeration)
	// the hand-kept boundary corpus
	if !c.Expired() && !c.TooManyViolations() {
		var cc []*c01Case
		for _, k := range fo.Corpus() {
			cc = append(cc, &c01Case{cs: k})
		}
		c01RunCases(c, sc, fc, cc, used)
		c.Set("corpus_programs", len(cc))
	}
	// the scale family: one program per construct kind and size
	if !c.Expired() && !c.TooManyViolations() {
		sizes := []int{3, 9, 10, 11, 17, 33}
		if c.Thorough() {
			sizes = append(sizes, 65, 101, 130)
		}
		var cc []*c01Case
		for _, k := range fo.ScaleCorpus(sizes) {
			cc = append(cc, &c01Case{cs: k})
		}
		c01RunCases(c, sc, fc, cc, used)
		c.Set("scale_family", map[string]any{"sizes": sizes, "programs": len(cc)})
	}
	for _, pl := range plans {
		if c.Expired() || c.TooManyViolations() {
			c.NotExhaustive(fmt.Sprintf("k=%d (%s) not started", pl.k, pl.name))
			break
		}
		complete := true
		st, n := c01Enumerate(pl.p, pl.k, 16*300, func(cases []*c01Case) bool {
			if !c01RunCases(c, sc, fc, cases, used) {
				complete = false
				return false
			}
			return true
		})
		c.Count(0, st.States, st.Transitions, 0)
		c.AddInt("paths_skipped_by_domain_rules", st.Skipped)
		c.Hist("programs_by_fuel", fmt.Sprintf("k=%d %s", pl.k, pl.name), n)
		if !complete || st.Stopped {
			c.NotExhaustive(fmt.Sprintf("k=%d (%s): stopped after %d programs", pl.k, pl.name, n))
			break
		}
		completedPlans = append(completedPlans, fmt.Sprintf("k=%d (%s)", pl.k, pl.name))
		c.Set("plans_completed", completedPlans)
	}
	// alphabet coverage: every production must have been used
	hist := map[string]int64{}
	var missing []string
	for _, n := range fo.ProdNames(full) {
		hist[n] = used[n]
		if used[n] == 0 {
			missing = append(missing, n)
		}
	}
	c.Set("by_construct", hist)
	if len(missing) > 0 {
		sort.Strings(missing)
		c.NotExhaustive("alphabet entries that produced no program: " + strings.Join(missing, ", "))
	}
}

// c01RunCases runs all cases in batches; returns false if stopped early.
func c01RunCases(c *core.Ctx, sc *impl.Scratch, fc string, cases []*c01Case, used map[string]int64) bool {
	const per = 300
	type batch struct{ cases []*c01Case }
	var batches []batch
	for i := 0; i < len(cases); i += per {
		j := i + per
		if j > len(cases) {
			j = len(cases)
		}
		batches = append(batches, batch{cases[i:j]})
	}
	var wg sync.WaitGroup
	ch := make(chan batch)
	var mu sync.Mutex
	complete := true
	for w := 0; w < c.Workers; w++ {
		wg.Add(1)
		go func() {
			defer wg.Done()
			for b := range ch {
				if c.Expired() || c.TooManyViolations() {
					mu.Lock()
					complete = false
					mu.Unlock()
					continue
				}
				c01RunBatch(c, sc, fc, b.cases, used, &mu)
			}
		}()
	}
	for _, b := range batches {
		ch <- b
	}
	close(ch)
	wg.Wait()
	return complete
}

func c01Env(sc *impl.Scratch, fc string) *gobatch.Env {
	return &gobatch.Env{Sc: sc, FC: fc, FCArgs: []string{sc.PkgAllFoi()}, Prelude: fo.Prelude}
}

func c01RunBatch(c *core.Ctx, sc *impl.Scratch, fc string, cases []*c01Case, used map[string]int64, mu *sync.Mutex) {
	env := c01Env(sc, fc)
	var progs []gobatch.Prog
	var live []*c01Case
	for _, cs := range cases {
		cs.want, cs.ood = cs.cs.Expected(false)
		if cs.ood != "" {
			c.AddInt("out_of_domain", 1)
			continue
		}
		cs.wantDef, _ = cs.cs.Expected(true)
		cs.wantLeak, _ = cs.cs.ExpectedUnder(false, true)
		cs.wantBoth, _ = cs.cs.ExpectedUnder(true, true)
		cs.src = cs.cs.Source(nil)
		k := len(progs)
		progs = append(progs, gobatch.Prog{Defs: c01Suffix(cs.src, k), Run: fmt.Sprintf("run_%d", k)})
		live = append(live, cs)
	}
	res := env.Run(progs)
	for i, r := range res {
		cs := live[i]
		c.Count(1, 0, 0, 1)
		events := strings.Count(cs.want, "<") + strings.Count(cs.want, "[") + strings.Count(cs.want, "=")
		c.DistinctNT(cs.src, cs.cs.Fuel >= 1 && events >= 2)
		mu.Lock()
		for n, k := range cs.cs.Used {
			used[n] += int64(k)
		}
		mu.Unlock()
		c.Sample(map[string]any{"program": cs.src, "expected_stdout": cs.want})
		if r.Status == "ok" && r.Stdout == cs.want {
			c.Outcome("agree")
			continue
		}
		sig, what := c01Classify(cs, r)
		c.Outcome(sig)
		c.Violation(sig, fmt.Sprintf("%s\nprogram:\n%s", what, cs.src),
			map[string]any{"choices": cs.choices, "type": cs.cs.Type, "fuel": cs.cs.Fuel, "input": map[string]string{"t.fo": fo.Prelude + cs.src}, "program": cs.src,
				"expected": cs.want, "observed": r.Status + ": " + r.Stdout + " " + trunc(r.Detail, 1500)})
	}
}

var c01GoErr = regexp.MustCompile(`gen_t\.go:\d+:\d+: (.*)`)

// c01Classify gives a violation a specific signature (program shape / failure class).
func c01Classify(cs *c01Case, r gobatch.Result) (sig, what string) {
	if cs.cs.Name != "" {
		// corpus entries are identified by name: the signature names the specific input
		s2, w2 := c01ClassifyGen(cs, r)
		return "C01:corpus:" + cs.cs.Name, strings.TrimPrefix(s2, "C01:") + ": " + w2
	}
	sig, what = c01ClassifyGen(cs, r)
	// generated programs of a shape with a recorded defect (same shape predicate as C06) are identified by
	// the shape and the failure classes that defect produces (rejection or re-association), nothing else
	if r.Status == "fc-reject" || (r.Status == "ok" && sig == "C01:wrong-output") {
		if sh := c06Shape(cs.cs, cs.src); sh != "" {
			return "C01:shape:" + sh, strings.TrimPrefix(sig, "C01:") + ": " + what
		}
	}
	return sig, what
}

func c01ClassifyGen(cs *c01Case, r gobatch.Result) (sig, what string) {
	switch r.Status {
	case "ok":
		if cs.wantLeak != cs.want && (r.Stdout == cs.wantLeak || r.Stdout == cs.wantBoth) {
			return "C01:string-match-variable-visible-in-literal-arms", fmt.Sprintf("the variable of the last rule of a string match is bound in the literal arms too and captures an outer variable of the same name: expected %q, got %q", cs.want, r.Stdout)
		}
		if cs.wantDef != cs.want && r.Stdout == cs.wantDef {
			return "C01:partial-application-argument-re-evaluated", fmt.Sprintf("the supplied argument of a partial application is evaluated at each call of the closure instead of once when the closure is created: expected %q, got %q", cs.want, r.Stdout)
		}
		return "C01:wrong-output", fmt.Sprintf("expected stdout %q, got %q", cs.want, r.Stdout)
	case "fc-reject":
		msg := r.Detail
		if i := strings.LastIndex(msg, "t.fo:"); i >= 0 {
			msg = msg[i:]
		}
		msg = regexp.MustCompile(`\d+:\d+:`).ReplaceAllString(msg, "")
		return "C01:fc-rejects:" + strings.TrimSpace(strings.TrimPrefix(firstLines(msg, 1), "t.fo:")), "fc rejects a program of the documented subset: " + firstLines(r.Detail, 3)
	case "go-build":
		m := c01GoErr.FindStringSubmatch(r.Detail)
		e := "?"
		if m != nil {
			e = m[1]
			e = regexp.MustCompile(`_\d+\b`).ReplaceAllString(e, "")
			e = regexp.MustCompile(`\b(lift|run|body)\d*\b`).ReplaceAllString(e, "f")
			if len(e) > 70 {
				e = e[:70]
			}
		}
		return "C01:go-build:" + e, "the emitted Go does not compile: " + firstLines(r.Detail, 4)
	case "panic":
		return "C01:runtime-panic", fmt.Sprintf("the program panicked: %s (expected stdout %q, got %q)", firstLines(r.Detail, 2), cs.want, r.Stdout)
	}
	return "C01:" + r.Status, fmt.Sprintf("status %s: %s", r.Status, firstLines(r.Detail, 3))
}

func c01Replay(c *core.Ctx, sc *impl.Scratch, fc string) {
	rp, err := loadReplay(c.ReplayFile)
	if err != nil {
		panic(err)
	}
	prog, _ := rp.Raw["program"].(string)
	env := c01Env(sc, fc)
	res := env.Run([]gobatch.Prog{{Defs: c01Suffix(prog, 0), Run: "run_0"}})
	fmt.Printf("status: %s\nstdout: %q\nexpected: %q\n%s\n", res[0].Status, res[0].Stdout, rp.Expected, trunc(res[0].Detail, 3000))
	c.Count(1, 1, 1, 1)
	c.Sample(prog)
	if res[0].Status != "ok" || res[0].Stdout != rp.Expected {
		c.Violation("C01:replay", "replayed program still disagrees", map[string]any{"program": prog, "expected": rp.Expected, "observed": res[0].Stdout})
	}
}
