package main

import (
	"fmt"
	"strings"
	"sync"

	"verif/internal/core"
	"verif/internal/explore"
	"verif/internal/gobatch"
	"verif/internal/impl"
)

// C11: string, raw-string and interpolated literals denote exactly their text.

func init() { register("C11", checkC11) }

const (
	c11Str = iota
	c11Raw
	c11Interp
	c11RawInterp
)

const c11Prelude = "package main\nimport frt\nimport strings\n\nlet keepStrings () =\n  strings.Length \"\"\n\n"

var c11FormNames = []string{`"..."`, "`...`", `$"..."`, "$`...`"}

// hole variables available to interpolated literals and their display forms
var c11Vars = map[string]string{"x": "42", "s": "a%b{c}", "b": "true",
	// display forms by type: negative, beyond 2^53 (not representable as a float64), zero, empty string, slice, tuple
	"n": "-7", "g": "9007199254740993", "z": "0", "e": "", "l": "[1 2]", "t": "{1 a}",
	// floats are "otherwise": Go %v
	"fa": "1.5", "fb": "2", "fd": "0.1"}

// c11FloatF: what the recorded finding prints for the float holes (%f instead of %v)
var c11FloatF = map[string]string{"fa": "1.500000", "fb": "2.000000", "fd": "0.100000"}

var c11VarDefs = map[string]string{"x": "42", "s": "\"a%b{c}\"", "b": "true", "n": "0 - 7", "g": "9007199254740993", "z": "0", "e": "\"\"", "l": "[1; 2]", "t": "(1, \"a\")", "fa": "GoEval<float> \"1.5\"", "fb": "GoEval<float> \"2.0\"", "fd": "GoEval<float> \"0.1\""}

// c11Spec is the specification function: source body -> denoted text; ok=false
// means the statement does not define the body (out of domain).
func c11Spec(form int, body string) (text string, holes []string, ok bool) {
	var out strings.Builder
	isInterp := form == c11Interp || form == c11RawInterp
	isRaw := form == c11Raw || form == c11RawInterp
	for i := 0; i < len(body); i++ {
		c := body[i]
		switch {
		case isRaw && c == '`':
			return "", nil, false
		case !isRaw && c == '"':
			return "", nil, false
		case !isRaw && c == '\\':
			if i+1 >= len(body) {
				return "", nil, false
			}
			i++
			switch body[i] {
			case 'n':
				out.WriteByte('\n')
			case 't':
				out.WriteByte('\t')
			case '\\':
				out.WriteByte('\\')
			case '"':
				out.WriteByte('"')
			case '{', '}':
				if form != c11Interp {
					return "", nil, false
				}
				out.WriteByte(body[i])
			default:
				return "", nil, false
			}
		case isInterp && c == '{':
			j := strings.IndexByte(body[i:], '}')
			if j < 0 {
				return "", nil, false
			}
			name := body[i+1 : i+j]
			disp, known := c11Vars[name]
			if !known {
				return "", nil, false
			}
			out.WriteString(disp)
			holes = append(holes, name)
			i += j
		case isInterp && c == '}':
			return "", nil, false
		default:
			out.WriteByte(c)
		}
	}
	return out.String(), holes, true
}

func c11Literal(form int, body string) string {
	switch form {
	case c11Str:
		return `"` + body + `"`
	case c11Raw:
		return "`" + body + "`"
	case c11Interp:
		return `$"` + body + `"`
	}
	return "$`" + body + "`"
}

type c11Case struct {
	choices []int
	ctx     int // 0: the literal alone on its line; 1: followed on the same line by + "Z" (the token must end where it ends); 2: ("..." and `...` only) as the literal pattern of a string match on the same literal - pattern and expression must denote the same text
	form    int
	body    string
	want    string
	holes   []string
	kind    string
}

var c11Special = []string{"\\", "\"", "`", "{", "}", "%", "$", "n", "t", "\n", "x"}

// contexts: 0 alone, 1 + "Z", 2 pattern (plain and raw strings only), 3 twice in one slice literal on one line
// (joined), 4 as the first of two arguments of a library call
func c11Ctx(c *explore.Chooser, form int) int {
	if form == c11Str || form == c11Raw {
		return c.Choose(5)
	}
	return []int{0, 1, 3, 4}[c.Choose(4)]
}

// driver 1: every string of length <= maxLen over the special alphabet, in each form
func c11SpecialDriver(maxLen int) func(c *explore.Chooser) *c11Case {
	return func(c *explore.Chooser) *c11Case {
		form := c.Choose(4)
		n := c.Choose(maxLen + 1)
		var b strings.Builder
		for i := 0; i < n; i++ {
			b.WriteString(c11Special[c.Choose(len(c11Special))])
		}
		return &c11Case{form: form, body: b.String(), kind: "special-alphabet", ctx: c11Ctx(c, form)}
	}
}

// driver 2: every single character embedded as a<c>b, raw and escaped
func c11CharDriver() func(c *explore.Chooser) *c11Case {
	var chars []string
	for ch := 0x20; ch <= 0x7e; ch++ {
		chars = append(chars, string(rune(ch)))
	}
	// a carriage return is a character like any other between backticks and quotes (after seed C11g, which
	// scanned raw literals with strconv.Unquote - Go's raw-string rule drops carriage returns)
	chars = append(chars, "\n", "\t", "\r", "\r\n", "é", "あ", "😀")
	return func(c *explore.Chooser) *c11Case {
		form := c.Choose(4)
		ch := chars[c.Choose(len(chars))]
		esc := c.Choose(2) == 1
		body := "a" + ch + "b"
		if esc {
			body = "a\\" + ch + "b"
		}
		return &c11Case{form: form, body: body, kind: "single-character", ctx: c11Ctx(c, form)}
	}
}

// driver 3: hole placements
func c11HoleDriver() func(c *explore.Chooser) *c11Case {
	holes := []string{"{x}", "{s}", "{b}"}
	texts := []string{"", "a", "%", "100% ", "\\{", "\\}", "%d", "%s", "%%", " ", "é", "$", "\\n", "\"q\"", "\\\\", "C:\\\\", "\\t"}
	return func(c *explore.Chooser) *c11Case {
		form := 2 + c.Choose(2)
		nh := 1 + c.Choose(2)
		var b strings.Builder
		b.WriteString(texts[c.Choose(len(texts))])
		for i := 0; i < nh; i++ {
			b.WriteString(holes[c.Choose(len(holes))])
			b.WriteString(texts[c.Choose(len(texts))])
		}
		return &c11Case{form: form, body: b.String(), kind: "holes", ctx: c.Choose(2)}
	}
}

// driver 5: hole SEQUENCES - every sequence of 3..maxSeq holes over the three variables (repetitions in every
// pattern: a b a c, a a b, a b b a ...), the holes adjacent or separated by one of three texts.  Whatever an
// emitter does with a repeated hole (share the argument, number it) must still put every value where its hole is.
func c11HoleSeqDriver(maxSeq int) func(c *explore.Chooser) *c11Case {
	holes := []string{"{x}", "{s}", "{b}"}
	seps := []string{"", "-", "%"}
	return func(c *explore.Chooser) *c11Case {
		form := 2 + c.Choose(2)
		n := 3 + c.Choose(maxSeq-2)
		sep := seps[c.Choose(len(seps))]
		var b strings.Builder
		for i := 0; i < n; i++ {
			if i > 0 {
				b.WriteString(sep)
			}
			b.WriteString(holes[c.Choose(len(holes))])
		}
		return &c11Case{form: form, body: b.String(), kind: "hole-sequences", ctx: 0}
	}
}

// driver 6: literals that span source lines - what stands at the START of a continuation line is text like any
// other: blanks, tabs, mixtures (an indentation to a line-based pre-pass, after seed C11i), a % or a hole.
func c11MultiLineDriver() func(c *explore.Chooser) *c11Case {
	ws := []string{"", " ", "  ", "\t", "\t\t", " \t", "\t ", "    \t  "}
	ws2 := []string{"", "\t", "  ", "\t  "}
	return func(c *explore.Chooser) *c11Case {
		form := c.Choose(4)
		pre := []string{"", "a"}[c.Choose(2)]
		nl := []string{"\n", "\r\n"}[c.Choose(2)]
		mids := []string{"x", "", "%"}
		if form >= 2 {
			mids = append(mids, "{x}")
		}
		body := pre + nl + ws[c.Choose(len(ws))] + mids[c.Choose(len(mids))]
		if c.Bool() {
			body += nl + ws2[c.Choose(len(ws2))] + "z"
		}
		return &c11Case{form: form, body: body, kind: "multi-line", ctx: []int{0, 1}[c.Choose(2)]}
	}
}

// driver 4: the display form of a hole value by type
func c11HoleTypeDriver() func(c *explore.Chooser) *c11Case {
	vars := []string{"x", "s", "b", "n", "g", "z", "e", "l", "t", "fa", "fb", "fd"}
	texts := []string{"", "v=", "%", "é"}
	return func(c *explore.Chooser) *c11Case {
		form := 2 + c.Choose(2)
		v := vars[c.Choose(len(vars))]
		before := texts[c.Choose(len(texts))]
		after := texts[c.Choose(len(texts))]
		return &c11Case{form: form, body: before + "{" + v + "}" + after, kind: "hole-value-types", ctx: c.Choose(2)}
	}
}

func checkC11(c *core.Ctx) {
	sc, err := impl.New(c.Repo)
	if err != nil {
		panic(err)
	}
	defer sc.Close()
	fc, err := sc.BuildFC()
	if err != nil {
		panic(err)
	}
	c.Set("rule", "literal bodies are enumerated by the choice-tree explorer in each of the 4 forms (\"...\", `...`, $\"...\", $`...`): every string up to the length bound over the special alphabet { \\ \" ` { } % $ n t newline x }, every single character of printable ASCII plus newline, tab and three multi-byte characters embedded as a<c>b (raw and backslash-escaped), and hole placements (1-2 holes of int/string/bool variables between 14 texts incl. %, %d, \\{, \\}); a per-form specification function maps the source body to the denoted text or declares it out of domain; each literal is transpiled, compiled and printed (batched); distinct = distinct (form, body) in domain; non-trivial = the body contains a character that is special in some layer (\\ \" ` { } % $ newline, non-ASCII)")
	c.Assumption("out of domain (not judged): a backslash before a character other than n t \\ \" (and { } in $\"...\"), an unescaped closing delimiter, a bare } or an unclosed / unknown hole in an interpolated literal")
	maxLen := 2
	if c.Thorough() {
		maxLen = 3
	}
	var cases []*c11Case
	var total explore.Stats
	seen := map[string]bool{}
	collect := func(drv func(c *explore.Chooser) *c11Case) {
		var cur *c11Case
		st := explore.Explore(-1, func(ch *explore.Chooser) { cur = drv(ch) }, func(ch *explore.Chooser) bool {
			text, holes, ok := c11Spec(cur.form, cur.body)
			if !ok {
				c.AddInt("out_of_domain", 1)
				return true
			}
			if cur.ctx == 1 {
				text += "Z"
			}
			if cur.ctx == 2 {
				text = "hit:" + text
			}
			if cur.ctx == 3 {
				text = text + "|" + text
			}
			if cur.ctx == 4 {
				text = "Y" + text
			}
			key := fmt.Sprint(cur.form, cur.ctx) + "|" + cur.body
			if seen[key] {
				return true
			}
			seen[key] = true
			cur.want, cur.holes = text, holes
			cur.choices = append([]int{}, ch.Choices...)
			cases = append(cases, cur)
			return true
		})
		total.Add(st)
	}
	collect(c11SpecialDriver(maxLen))
	collect(c11CharDriver())
	collect(c11HoleDriver())
	collect(c11HoleTypeDriver())
	collect(c11MultiLineDriver())
	if c.Thorough() {
		collect(c11HoleSeqDriver(6))
	} else {
		collect(c11HoleSeqDriver(5))
	}
	c.Count(0, total.States, total.Transitions, 0)
	c.Set("max_len_special_alphabet", maxLen)

	const per = 300
	var wg sync.WaitGroup
	sem := make(chan struct{}, c.Workers)
	for i := 0; i < len(cases); i += per {
		j := i + per
		if j > len(cases) {
			j = len(cases)
		}
		part := cases[i:j]
		wg.Add(1)
		sem <- struct{}{}
		go func() {
			defer wg.Done()
			defer func() { <-sem }()
			if c.Expired() || c.TooManyViolations() {
				c.NotExhaustive("not every batch was run")
				return
			}
			c11RunBatch(c, sc, fc, part)
		}()
	}
	wg.Wait()
	if !c.Expired() && !c.TooManyViolations() {
		c11TwoFiles(c, sc, fc)
	}
}

func c11Program(cs *c11Case, k int) gobatch.Prog {
	var sb strings.Builder
	fmt.Fprintf(&sb, "let run_%d () =\n", k)
	used := map[string]bool{}
	for _, h := range cs.holes {
		if used[h] {
			continue
		}
		used[h] = true
		fmt.Fprintf(&sb, "  let %s = %s\n", h, c11VarDefs[h])
	}
	lit := c11Literal(cs.form, cs.body)
	if cs.ctx == 1 {
		lit += " + \"Z\""
	}
	if cs.ctx == 2 {
		fmt.Fprintf(&sb, "  let v = match %s with\n          | %s -> \"hit:\"\n          | _ -> \"miss:\"\n  frt.Printf1 \"%%s\" v\n  frt.Printf1 \"%%s\" %s\n", lit, lit, lit)
		return gobatch.Prog{Defs: sb.String(), Run: fmt.Sprintf("run_%d", k)}
	}
	if cs.ctx == 3 {
		lit = "strings.Concat \"|\" [" + lit + "; " + lit + "]"
	}
	if cs.ctx == 4 {
		lit = "strings.AppendTail " + lit + " \"Y\""
	}
	fmt.Fprintf(&sb, "  let v = %s\n  frt.Printf1 \"%%s\" v\n", lit)
	return gobatch.Prog{Defs: sb.String(), Run: fmt.Sprintf("run_%d", k)}
}

func c11Sig(cs *c11Case, status string) string {
	// signature: form + the feature of the body that matters
	feat := "other"
	switch {
	case strings.Contains(cs.body, "%") && (cs.form == c11Interp || cs.form == c11RawInterp):
		feat = "percent-in-interpolated-text"
	case cs.form == c11Interp && (strings.Contains(cs.body, `\{`) || strings.Contains(cs.body, `\}`)):
		feat = "escaped-brace"
	case (cs.form == c11Str || cs.form == c11Interp) && strings.Contains(cs.body, "\n"):
		feat = "raw-newline-in-quoted-literal"
	case strings.Contains(cs.body, "\\"):
		feat = "backslash"
	case len(cs.holes) > 0:
		feat = "holes"
	}
	return fmt.Sprintf("C11:%s:%s:%s", c11FormNames[cs.form], feat, status)
}

func c11RunBatch(c *core.Ctx, sc *impl.Scratch, fc string, part []*c11Case) {
	env := &gobatch.Env{Sc: sc, FC: fc, FCArgs: []string{sc.PkgAllFoi()}, Prelude: c11Prelude}
	progs := make([]gobatch.Prog, len(part))
	for k, cs := range part {
		progs[k] = c11Program(cs, k)
	}
	res := env.Run(progs)
	for k, r := range res {
		cs := part[k]
		c.Count(1, 0, 0, 1)
		special := strings.ContainsAny(cs.body, "\\\"`{}%$\n") || len(cs.body) != len([]rune(cs.body))
		c.DistinctNT(fmt.Sprint(cs.form, cs.ctx)+"|"+cs.body, special)
		c.Hist("by_form", c11FormNames[cs.form], 1)
		c.Hist("by_kind", cs.kind, 1)
		c.Sample(map[string]any{"literal": c11Literal(cs.form, cs.body), "denotes": cs.want})
		if r.Status == "ok" && r.Stdout == cs.want {
			c.Outcome("agree")
			continue
		}
		status := r.Status
		if status == "ok" {
			status = "wrong-text"
		}
		c.Outcome(status)
		sig := c11Sig(cs, status)
		if status == "wrong-text" {
			// the recorded finding: a float hole is displayed with %f - attributed only if the output is EXACTLY the
			// expectation with the %f forms substituted
			wantF := cs.want
			hasFloat := false
			for _, h := range cs.holes {
				if f, ok := c11FloatF[h]; ok {
					hasFloat = true
					wantF = strings.Replace(wantF, c11Vars[h], f, 1)
				}
			}
			if hasFloat && r.Stdout == wantF {
				sig = "C11:float-hole-displayed-with-%f"
			}
		}
		c.Violation(sig, fmt.Sprintf("literal %s should denote %q: %s %q %s", c11Literal(cs.form, cs.body), cs.want, r.Status, r.Stdout, firstLines(r.Detail, 3)),
			map[string]any{"choices": cs.choices, "form": c11FormNames[cs.form], "body": cs.body, "input": map[string]string{"t.fo": c11Prelude + progs[k].Defs}, "expected": cs.want, "observed": r.Status + ": " + r.Stdout + " " + trunc(r.Detail, 800)})
	}
}
