package main

import (
	"fmt"
	"strings"

	"verif/internal/explore"
)

// c03TypeParamOrderDriver: package_info signatures that MENTION their type parameters in another order than they
// declare them (slice.Fold<T, S>: (S->T->S)->S->[]T->S is the one in pkg_all.foi), referenced with explicit type
// arguments.  Explicit arguments bind by declaration position; everything fc derives from the instantiated signature -
// the closure of a partial application, the type of a let - must use the same binding.  The Go implementation prints
// the type arguments it was instantiated with (after seed C15h: the parameter list reordered by first mention).
func c03TypeParamOrderDriver() func(c *explore.Chooser, k int) *c03Case {
	type sig struct {
		decl, fo, goSig, goBody string // declared parameters, Folang signature, Go signature, Go body
		targs                   string
		args                    []string
		want                    []string
	}
	return func(c *explore.Chooser, k int) *c03Case {
		cs := &c03Case{kind: "foreign-call-type-parameter-order"}
		named := c.Bool()
		pkg, q := "_", ""
		if named {
			pkg, q = "extp", "extp."
		}
		sigs := []sig{
			{"T, S", "S->T->S", "[T any, S any](a S, b T) S", "fmt.Printf(\"F[%T,%T](%v,%v)\\n\", *new(T), *new(S), a, b)\n\treturn a", "int, string", []string{`"s"`, "1"}, []string{"F[int,string](s,1)", "s"}},
			{"T, S", "(S->T)->[]S->[]T", "[T any, S any](f func(S) T, xs []S) []T", "fmt.Printf(\"F[%T,%T]\\n\", *new(T), *new(S))\n\tvar r []T\n\tfor _, x := range xs {\n\t\tr = append(r, f(x))\n\t}\n\treturn r", "int, string", []string{"strLenq", `["a"; "bb"]`}, []string{"F[int,string]", "[2 2]"}},
			{"A, B, C", "C->A->B->A", "[A any, B any, C any](c C, a A, b B) A", "fmt.Printf(\"F[%T,%T,%T](%v,%v,%v)\\n\", *new(A), *new(B), *new(C), c, a, b)\n\treturn a", "int, string, bool", []string{"true", "1", `"s"`}, []string{"F[int,string,bool](true,1,s)", "1"}},
			{"T, S", "S->S->T->T", "[T any, S any](a S, b S, t T) T", "fmt.Printf(\"F[%T,%T](%v,%v,%v)\\n\", *new(T), *new(S), a, b, t)\n\treturn t", "int, string", []string{`"a"`, `"b"`, "5"}, []string{"F[int,string](a,b,5)", "5"}},
		}
		sg := sigs[c.Choose(len(sigs))]
		fn := fmt.Sprintf("Fo%d", k)
		var fo strings.Builder
		fmt.Fprintf(&fo, "package_info %s =\n  let %s<%s>: %s\n\n", pkg, fn, sg.decl, sg.fo)
		fo.WriteString(fmt.Sprintf("let strLenq%d (s:string) =\n  slice.Length [s; s]\n\n", k))
		args := make([]string, len(sg.args))
		for i, a := range sg.args {
			args[i] = strings.ReplaceAll(a, "strLenq", fmt.Sprintf("strLenq%d", k))
		}
		call := q + fn + "<" + sg.targs + ">"
		show := "frt.Printf1 \"%v\\n\""
		switch c.Choose(4) {
		case 0: // direct, complete
			fmt.Fprintf(&fo, "let fo%d () =\n  %s %s |> %s\n\n", k, call, strings.Join(args, " "), show)
		case 1: // the last argument missing: a closure, bound and applied
			fmt.Fprintf(&fo, "let fo%d () =\n  let p = %s %s\n  p %s |> %s\n\n", k, call, strings.Join(args[:len(args)-1], " "), args[len(args)-1], show)
		case 2: // the last argument piped in
			fmt.Fprintf(&fo, "let fo%d () =\n  %s |> %s %s |> %s\n\n", k, args[len(args)-1], call, strings.Join(args[:len(args)-1], " "), show)
		case 3: // the result bound by a let and handed on
			fmt.Fprintf(&fo, "let fo%d () =\n  let r = %s %s\n  [r] |> slice.Head |> %s\n\n", k, call, strings.Join(args, " "), show)
		}
		impl := fmt.Sprintf("func %s%s {\n\t%s\n}\n", fn, sg.goSig, sg.goBody)
		want := append([]string{}, sg.want...)
		want[0] = strings.Replace(want[0], "F[", "F[", 1)
		if named {
			cs.goDecls = "EXTP:" + impl
		} else {
			cs.goDecls = impl
		}
		cs.fo = fo.String()
		cs.client = fmt.Sprintf("\tfo%d()\n", k)
		cs.want = want
		return cs
	}
}
