package main

import (
	"fmt"
	"os"
	"path/filepath"
	"strings"
	"sync"
	"time"

	"verif/internal/core"
	"verif/internal/explore"
	"verif/internal/fo"
	"verif/internal/impl"
)

// C06: only relative indentation and line structure matter (offside rule).

func init() { register("C06", checkC06) }

// layoutAdapter lets the printer ask the explorer.
type layoutAdapter struct {
	ch     *explore.Chooser
	points []string
	// structuralOnly: the decoration points (blank lines, comments, line ends - local to one line) keep their
	// default; only the points that move tokens between lines and columns are choice points
	structuralOnly bool
}

var c06DecorationPoints = map[string]bool{"blank-lines-before": true, "comment-before": true, "line-end": true, "line-end-before-paren": true,
	"blank-lines-before-def": true, "comment-before-def": true, "end-of-file": true}

func (l *layoutAdapter) Choose(point string, n int) int {
	if l.structuralOnly && c06DecorationPoints[point] {
		return 0
	}
	v := l.ch.Choose(n)
	if v != 0 {
		l.points = append(l.points, fmt.Sprintf("%s=%d", point, v))
	}
	return v
}

type c06Prog struct {
	cs   *fo.Case
	name string
}

// block-owning constructs (the alphabet of C06's programs at k = 2)
var c06Only = map[string]bool{"if-else": true, "if-only": true, "elif": true, "match-union": true, "match-union-default": true, "match-generic-union": true, "match-string-var": true,
	"let": true, "let-destr": true, "local-fun": true, "lambda-let": true, "lambda-map": true, "lambda-pipe": true, "pipe-fn": true, "pipe-partial": true, "pipe-chain": true, "pipe-unit": true,
	"seq": true, "lifted-annotated": true, "lifted-unannotated": true, "interp": true, "field-of-var": true, "partial-let": true, "app-say": true, "app-add": true}

var c06Core = map[string]bool{"if-else": true, "if-only": true, "match-union-default": true, "let": true, "lambda-let": true, "local-fun": true, "pipe-partial": true, "seq": true, "lifted-annotated": true, "app-say": true, "app-add": true}

// c06Programs: set "k1" = all terms with one construct (full alphabet), "core2" = two constructs over the
// core block-owning constructs, "block2" = two constructs over all block-owning constructs, "corpus".
func c06Programs(set string) []*c06Prog {
	var out []*c06Prog
	add := func(p fo.Profile, k int) {
		c01Enumerate(p, k, 1<<30, func(cases []*c01Case) bool {
			for _, cs := range cases {
				if _, ood := cs.cs.Expected(false); ood != "" {
					continue
				}
				out = append(out, &c06Prog{cs: cs.cs, name: fmt.Sprintf("%s#%d", set, len(out))})
			}
			return true
		})
	}
	switch set {
	case "k1":
		add(fo.Profile{}, 1)
	case "core2":
		add(fo.Profile{Only: c06Core}, 2)
	case "block2":
		add(fo.Profile{Only: c06Only}, 2)
	case "corpus":
		for _, k := range fo.Corpus() {
			out = append(out, &c06Prog{cs: k, name: "corpus:" + k.Name})
		}
	case "decls":
		out = append(out, c06DeclPrograms()...)
	}
	return out
}

// c06DeclPrograms: type declarations and package_info blocks whose layout (fields and cases one per
// line, blank lines and comments between them, columns) is explored like any other layout.
func c06DeclPrograms() []*c06Prog {
	unit := []fo.Param{{Unit: true}}
	V := func(n string) fo.Expr { return fo.Var{Name: n} }
	call := func(f string, a ...fo.Expr) fo.Expr { return fo.App{Fn: f, Args: a} }
	mk := func(name string, defs ...fo.Def) *c06Prog {
		return &c06Prog{cs: &fo.Case{Defs: defs, Run: "run", Type: "unit", Name: "", Used: map[string]int{}}, name: "decls:" + name}
	}
	rec := fo.RecordDecl{Name: "Dr", Fields: []fo.FieldDecl{{Name: "A", Type: "int"}, {Name: "B", Type: "string"}, {Name: "C", Type: "[]int"}}}
	grec := fo.RecordDecl{Name: "Dg", TParams: []string{"T"}, Fields: []fo.FieldDecl{{Name: "V", Type: "T"}, {Name: "Vs", Type: "[]T"}}}
	uni := fo.UnionDecl{Name: "Du", Cases: []fo.CaseDecl{{Name: "Di", Payload: "int"}, {Name: "Ds", Payload: "string*int"}, {Name: "Dn"}, {Name: "Dm"}}}
	guni := fo.UnionDecl{Name: "Do", TParams: []string{"T"}, Cases: []fo.CaseDecl{{Name: "Dsome", Payload: "T"}, {Name: "Dnone"}}}
	group := fo.TypeGroup{Decls: []fo.Def{
		fo.UnionDecl{Name: "Ta", Cases: []fo.CaseDecl{{Name: "Ub", Payload: "Tb"}, {Name: "Uz"}}},
		fo.RecordDecl{Name: "Tb", Fields: []fo.FieldDecl{{Name: "Fa", Type: "int"}, {Name: "Fs", Type: "[]Ta"}}},
	}}
	pi := fo.PkgInfoDecl{Pkg: "extq", Lines: []string{"type H", "let Mk: ()->H", "type Box<T>", "let Use: H->int->string", "let Wrap<T>: T->Box<T>"}}
	useRec := fo.FuncDef{Name: "run", Params: unit, Body: fo.B(call("frt.Printf1", fo.StrLit{V: "%d"}, fo.Field{E: V("r"), Name: "A"}),
		fo.Let{Name: "r", Rhs: fo.RecordLit{Rec: "Dr", Fields: []fo.FieldInit{{Name: "A", E: fo.IntLit{V: 1}}, {Name: "B", E: fo.StrLit{V: "b"}}, {Name: "C", E: fo.SliceLit{Es: []fo.Expr{fo.IntLit{V: 2}}}}}}})}
	useUni := fo.FuncDef{Name: "run", Params: unit, Body: fo.B(fo.Match{Target: fo.Ctor{Case: "Di", Arg: fo.IntLit{V: 3}}, Arms: []fo.Arm{
		{Case: "Di", Bind: "i", Body: fo.B(call("frt.Printf1", fo.StrLit{V: "%d"}, V("i")))},
		{Case: "Ds", Bind: "_", Body: fo.B(call("frt.Println", fo.StrLit{V: "s"}))},
	}, Default: fo.B(call("frt.Println", fo.StrLit{V: "d"}))})}
	useAll := fo.FuncDef{Name: "run", Params: unit, Body: fo.B(call("frt.Println", call("extq.Use", call("extq.Mk", fo.UnitLit{}), fo.IntLit{V: 1})))}
	return []*c06Prog{
		mk("record", rec, useRec),
		mk("union", uni, useUni),
		mk("generic-record-and-union", grec, guni, fo.FuncDef{Name: "run", Params: unit, Body: fo.B(call("frt.Println", fo.StrLit{V: "x"}))}),
		mk("type-and-group", group, fo.FuncDef{Name: "run", Params: unit, Body: fo.B(call("frt.Println", fo.StrLit{V: "x"}))}),
		mk("package-info", pi, useAll),
		mk("all-declarations", rec, uni, group, pi, useRec),
	}
}

// the converse clause: pairs of programs that differ only in the block a statement belongs to
func c06ConversePairs() [][2]*fo.Case {
	unit := []fo.Param{{Unit: true}}
	say := func(s string) fo.Expr { return fo.App{Fn: "say", Args: []fo.Expr{fo.StrLit{V: s}}} }
	tb := func(b bool) fo.Expr { return fo.App{Fn: "trB", Args: []fo.Expr{fo.BoolLit{V: b}}} }
	mk := func(name string, body *fo.Block) *fo.Case {
		return &fo.Case{Defs: []fo.Def{fo.FuncDef{Name: "run", Params: unit, Body: body}}, Run: "run", Type: "unit", Name: name, Used: map[string]int{}}
	}
	var pairs [][2]*fo.Case
	// statement after a nested then-block: inside vs after
	pairs = append(pairs, [2]*fo.Case{
		mk("if-only: b inside", &fo.Block{Stmts: []fo.Stmt{fo.ExprStmt{E: fo.If{Cond: tb(false), Then: &fo.Block{Stmts: []fo.Stmt{fo.ExprStmt{E: say("a")}}, Final: say("b")}}}}, Final: say("z")}),
		mk("if-only: b after", &fo.Block{Stmts: []fo.Stmt{fo.ExprStmt{E: fo.If{Cond: tb(false), Then: fo.B(say("a"))}}, fo.ExprStmt{E: say("b")}}, Final: say("z")}),
	})
	// statement after the else-block
	pairs = append(pairs, [2]*fo.Case{
		mk("else: b inside", &fo.Block{Stmts: []fo.Stmt{fo.ExprStmt{E: fo.If{Cond: tb(true), Then: fo.B(say("t")), Else: &fo.Block{Stmts: []fo.Stmt{fo.ExprStmt{E: say("a")}}, Final: say("b")}}}}, Final: say("z")}),
		mk("else: b after", &fo.Block{Stmts: []fo.Stmt{fo.ExprStmt{E: fo.If{Cond: tb(true), Then: fo.B(say("t")), Else: fo.B(say("a"))}}, fo.ExprStmt{E: say("b")}}, Final: say("z")}),
	})
	// statement after the last arm's body
	u := fo.Ctor{Case: "N"}
	pairs = append(pairs, [2]*fo.Case{
		mk("arm: b inside", &fo.Block{Stmts: []fo.Stmt{fo.ExprStmt{E: fo.Match{Target: u, Arms: []fo.Arm{{Case: "I", Bind: "_", Body: fo.B(say("i"))}}, Default: &fo.Block{Stmts: []fo.Stmt{fo.ExprStmt{E: say("a")}}, Final: say("b")}}}}, Final: say("z")}),
		mk("arm: b after", &fo.Block{Stmts: []fo.Stmt{fo.ExprStmt{E: fo.Match{Target: u, Arms: []fo.Arm{{Case: "I", Bind: "_", Body: fo.B(say("i"))}}, Default: fo.B(say("a"))}}, fo.ExprStmt{E: say("b")}}, Final: say("z")}),
	})
	// statement after a local function's body
	pairs = append(pairs, [2]*fo.Case{
		mk("local fun: b inside", &fo.Block{Stmts: []fo.Stmt{fo.LetFun{Name: "lf", Params: []fo.Param{{Name: "y", Type: "int"}}, Body: &fo.Block{Stmts: []fo.Stmt{fo.ExprStmt{E: say("a")}, fo.ExprStmt{E: say("b")}}, Final: fo.Var{Name: "y"}}},
			fo.ExprStmt{E: fo.App{Fn: "frt.Printf1", Args: []fo.Expr{fo.StrLit{V: "%d"}, fo.App{Fn: "lf", Args: []fo.Expr{fo.IntLit{V: 1}}}}}}}, Final: say("z")}),
		mk("local fun: b after", &fo.Block{Stmts: []fo.Stmt{fo.LetFun{Name: "lf", Params: []fo.Param{{Name: "y", Type: "int"}}, Body: &fo.Block{Stmts: []fo.Stmt{fo.ExprStmt{E: say("a")}}, Final: fo.Var{Name: "y"}}}, fo.ExprStmt{E: say("b")},
			fo.ExprStmt{E: fo.App{Fn: "frt.Printf1", Args: []fo.Expr{fo.StrLit{V: "%d"}, fo.App{Fn: "lf", Args: []fo.Expr{fo.IntLit{V: 1}}}}}}}, Final: say("z")}),
	})
	return pairs
}

func checkC06(c *core.Ctx) {
	sc, err := impl.New(c.Repo)
	if err != nil {
		panic(err)
	}
	defer sc.Close()
	fc, err := sc.BuildFC()
	if err != nil {
		panic(err)
	}
	if b, err := os.ReadFile(sc.PkgAllFoi()); err == nil {
		fo.FoiText = string(b)
	}
	c.Set("rule", "programs x layouts: programs are all terms with 1 construct over the full alphabet, all terms with 2 constructs over the block-owning constructs and the boundary corpus (the C01 generator); for each abstract program the printer's layout decisions are the choice points of the explorer (block indentation +2/+1/+4/+7, arm column +0/+1/+2, 0-2 blank lines and 5 kinds of own-line comments before every statement / arm / definition, 5 kinds of line ends, if on one line or several, let right-hand side / arm body / lambda body / function body on the same or the next line, break before each |> at 3 columns, 3 ends of file) and every layout with at most d non-default answers is transpiled (one fc process each); distinct = distinct (program, layout); non-trivial = at least one non-default layout answer")
	c.Assumption("deliberately not in the layout grammar (the statement does not list them): omitting the final newline of the file, breaking a line after a binary operator, a token following a multi-line comment on the comment's last line; the explored layouts indent with blanks - tabs and alternating tab/blank indentation occur in the whole-file styles (one layout per program and style, every line's indentation a prefix of one pattern)")
	if c.ReplayFile != "" {
		c06Replay(c, sc, fc)
		return
	}
	type phase struct {
		set   string
		bound int
	}
	phases := []phase{{"corpus", 1}, {"decls", 1}, {"k1", 1}, {"core2", 1}}
	bound := 1
	if c.Thorough() {
		phases = []phase{{"corpus", 2}, {"decls", 2}, {"k1", 1}, {"block2", 1}, {"k1", 2}}
		bound = 2
	}
	pointHist := map[string]int64{}
	var mu sync.Mutex
	var completed []string
	for _, ph := range phases {
		progs := c06Programs(ph.set)
		c.Hist("programs_by_phase", fmt.Sprintf("%s d<=%d", ph.set, ph.bound), int64(len(progs)))
		if c.Expired() || c.TooManyViolations() {
			c.NotExhaustive(fmt.Sprintf("phase %s (d<=%d) not started", ph.set, ph.bound))
			continue
		}
		var wg sync.WaitGroup
		jobs := make(chan *c06Prog, 64)
		var skipped int64
		for w := 0; w < c.Workers; w++ {
			wg.Add(1)
			go func() {
				defer wg.Done()
				dir := sc.TempDir("c06_")
				defer os.RemoveAll(dir)
				for pr := range jobs {
					if c.Expired() || c.TooManyViolations() {
						mu.Lock()
						skipped++
						mu.Unlock()
						continue
					}
					c06Explore(c, sc, fc, dir, pr, ph.bound, pointHist, &mu)
				}
			}()
		}
		for _, pr := range progs {
			jobs <- pr
		}
		close(jobs)
		wg.Wait()
		if skipped > 0 {
			c.NotExhaustive(fmt.Sprintf("phase %s (d<=%d): %d of %d programs not explored (deadline or violations)", ph.set, ph.bound, skipped, len(progs)))
		} else {
			completed = append(completed, fmt.Sprintf("%s d<=%d", ph.set, ph.bound))
		}
	}
	c.Set("phases_completed", completed)
	c.Set("layout_points_offered", pointHist)
	// converse clause
	for _, pair := range c06ConversePairs() {
		var gens [2]string
		for i, cs := range pair {
			pr := &c06Prog{cs: cs, name: "converse:" + cs.Name}
			dir := sc.TempDir("c06c_")
			gens[i] = c06Explore(c, sc, fc, dir, pr, bound, pointHist, &mu)
			os.RemoveAll(dir)
		}
		c.Count(1, 1, 1, 1)
		if gens[0] == gens[1] && gens[0] != "" {
			c.Violation("C06:converse:"+pair[0].Name, fmt.Sprintf("two programs that differ only in the block a statement belongs to (%s / %s) are translated identically", pair[0].Name, pair[1].Name),
				map[string]any{"program_a": pair[0].Source(nil), "program_b": pair[1].Source(nil)})
		}
	}
}

// c06Explore transpiles every layout of pr with at most bound deviations;
// returns the gen text of the default layout ("" if rejected).
func c06Explore(c *core.Ctx, sc *impl.Scratch, fc, dir string, pr *c06Prog, bound int, pointHist map[string]int64, mu *sync.Mutex) string {
	var base string
	baseOK := false
	first := true
	var curSrc string
	var curPts []string
	var curPrinterPts map[string]int
	curHeader := 0
	headerPoint := strings.HasPrefix(pr.name, "corpus:") || strings.HasPrefix(pr.name, "decls:") || strings.HasPrefix(pr.name, "converse:")
	st := explore.Explore(bound, func(ch *explore.Chooser) {
		// quick tier: the two-construct programs get the structural points only (their lines are of the same kinds
		// as those of the one-construct programs and the corpus, which get every point)
		la := &layoutAdapter{ch: ch, structuralOnly: !c.Thorough() && strings.HasPrefix(pr.name, "core2#")}
		p := fo.NewPrinter(la)
		s := ""
		curHeader = 0
		if headerPoint {
			// the package line and the imports (independent of the program: offered on the hand-kept programs only)
			curHeader = p.L.Choose("file-header", len(c06Headers))
		}
		for _, d := range pr.cs.Defs {
			for k := p.L.Choose("blank-lines-before-def", 3); k > 0; k-- {
				s += "\n"
			}
			switch p.L.Choose("comment-before-def", 3) {
			case 1:
				s += "// c\n"
			case 2:
				s += "/* c\n   c */\n"
			}
			for _, ln := range p.Def(d) {
				s += ln + "\n"
			}
			s += "\n"
		}
		switch p.L.Choose("end-of-file", 3) {
		case 1:
			s += "\n\n"
		case 2:
			s += "// the end\n"
		}
		curSrc, curPts, curPrinterPts = s, la.points, p.Points
	}, func(ch *explore.Chooser) bool {
		src := c06WithHeader(curHeader) + curSrc
		os.Remove(filepath.Join(dir, "gen_t.go"))
		os.WriteFile(filepath.Join(dir, "t.fo"), []byte(src), 0o644)
		r := impl.RunWithRetry(dir, 20*time.Second, 60*time.Second, fc, sc.PkgAllFoi(), "t.fo")
		gen, _ := os.ReadFile(filepath.Join(dir, "gen_t.go"))
		c.Count(1, 0, 0, 1)
		c.DistinctNT(pr.name+fmt.Sprint(ch.Choices), len(curPts) > 0)
		if first {
			first = false
			base, baseOK = string(gen), r.Exit == 0 && len(gen) > 0
			mu.Lock()
			for k, v := range curPrinterPts {
				pointHist[k] += int64(v)
			}
			mu.Unlock()
			c.Sample(map[string]any{"program": curSrc, "layout": "default"})
			if !baseOK {
				c.Outcome("default-layout-rejected")
				sig := "C06:default-layout-rejected"
				if pr.cs.Name != "" {
					sig = "C06:corpus:" + pr.cs.Name
				}
				c.Violation(sig, fmt.Sprintf("fc rejects the default (tutorial) layout of %s: %s\n%s", pr.name, firstLines(r.Out(), 3), curSrc),
					map[string]any{"program": pr.name, "choices": ch.Choices, "input": map[string]string{"t.fo": src}, "observed": r.Out()})
				return false
			}
			return true
		}
		if r.Exit == 0 && string(gen) == base {
			c.Outcome("identical")
			return !c.Expired()
		}
		obs := "different output"
		if r.Exit != 0 {
			obs = "rejected: " + firstLines(r.Out(), 2)
			c.Outcome("layout-rejected")
		} else {
			c.Outcome("layout-changes-output")
			obs = "different output: " + firstDiff(base, string(gen))
		}
		// signature: the layout points that deviate (names only)
		var names []string
		for _, p := range curPts {
			names = append(names, strings.SplitN(p, "=", 2)[0])
		}
		sig := "C06:layout:" + strings.Join(names, "+")
		if pr.cs.Name != "" {
			sig = "C06:corpus:" + pr.cs.Name
		} else if sh := c06Shape(pr.cs, curSrc); sh != "" {
			sig = "C06:shape:" + sh
		}
		c.Sample(map[string]any{"program": curSrc, "layout": curPts})
		c.Violation(sig, fmt.Sprintf("re-layout %v of %s changes the result: %s\n%s", curPts, pr.name, obs, curSrc),
			map[string]any{"program": pr.name, "choices": ch.Choices, "layout": curPts, "input": map[string]string{"t.fo": src}, "expected": "same gen_t.go as the default layout", "observed": obs})
		return !c.TooManyViolations()
	})
	c.Count(0, st.States, st.Transitions, 0)
	c.AddInt("layouts_cut_by_bound", st.CutByBound)
	if !baseOK {
		return ""
	}
	if !c.Expired() && !c.TooManyViolations() {
		c06FixedStyles(c, sc, fc, dir, pr, base)
	}
	return base
}

// c06Styles: whole-file layout styles, one layout each (not bounded by d: every point of a kind gets the same
// answer) x the character the indentation is written with.  The indentation of every line is a prefix of one
// fixed pattern (all blanks / all tabs / tab, blank, tab, blank ...), so "indented as far as" and "indented less
// than" mean the same in every style.  fc measures indentation in characters; a second place that measures it
// differently shows when decorations and tabs meet (after seed C06h).
var c06Styles = []struct {
	name    string
	answers map[string]int
	indent  int // 0 blanks, 1 tabs, 2 alternating tab / blank
}{
	{"tabs", nil, 1},
	{"tabs+blank-lines", map[string]int{"blank-lines-before": 1, "blank-lines-before-def": 1}, 1},
	{"tabs+comment-lines", map[string]int{"comment-before": 1, "comment-before-def": 1}, 1},
	{"tabs+block-comments+line-ends", map[string]int{"comment-before": 4, "line-end": 2, "blank-lines-before": 2}, 1},
	{"tab-blank-alternating+blank-lines+comments", map[string]int{"blank-lines-before": 1, "comment-before": 3, "line-end": 4}, 2},
	{"blanks+blank-lines+comments+wide-indent", map[string]int{"blank-lines-before": 2, "comment-before": 4, "line-end": 3, "block-indent": 2, "arm-column": 2}, 0},
}

type c06StyleAdapter struct{ answers map[string]int }

func (a c06StyleAdapter) Choose(point string, n int) int {
	if v, ok := a.answers[point]; ok && v < n {
		return v
	}
	return 0
}

func c06Reindent(src string, mode int) string {
	if mode == 0 {
		return src
	}
	lines := strings.Split(src, "\n")
	for i, ln := range lines {
		n := 0
		for n < len(ln) && ln[n] == ' ' {
			n++
		}
		var sb strings.Builder
		for k := 0; k < n; k++ {
			if mode == 1 || k%2 == 0 {
				sb.WriteByte('\t')
			} else {
				sb.WriteByte(' ')
			}
		}
		lines[i] = sb.String() + ln[n:]
	}
	return strings.Join(lines, "\n")
}

func c06FixedStyles(c *core.Ctx, sc *impl.Scratch, fc, dir string, pr *c06Prog, base string) {
	for si, stl := range c06Styles {
		if !c.Thorough() && strings.HasPrefix(pr.name, "core2#") && si != 1 && si != 4 {
			// quick tier: the two-construct programs in two of the styles (tabs with blank lines; alternating with comments)
			continue
		}
		p := fo.NewPrinter(c06StyleAdapter{stl.answers})
		s := ""
		for _, d := range pr.cs.Defs {
			for k := p.L.Choose("blank-lines-before-def", 3); k > 0; k-- {
				s += "\n"
			}
			switch p.L.Choose("comment-before-def", 3) {
			case 1:
				s += "// c\n"
			case 2:
				s += "/* c\n   c */\n"
			}
			for _, ln := range p.Def(d) {
				s += ln + "\n"
			}
			s += "\n"
		}
		src := fo.Prelude + s
		if strings.Contains(src, "`") && stl.indent != 0 {
			// a raw string may span lines: its leading blanks are content
			c.AddInt("styles_skipped_raw_string", 1)
			continue
		}
		src = c06Reindent(src, stl.indent)
		os.Remove(filepath.Join(dir, "gen_t.go"))
		os.WriteFile(filepath.Join(dir, "t.fo"), []byte(src), 0o644)
		r := impl.RunWithRetry(dir, 20*time.Second, 60*time.Second, fc, sc.PkgAllFoi(), "t.fo")
		gen, _ := os.ReadFile(filepath.Join(dir, "gen_t.go"))
		c.Count(1, 1, 1, 1)
		c.DistinctNT(pr.name+" style "+stl.name, true)
		c.Hist("layout_styles", stl.name, 1)
		if r.Exit == 0 && string(gen) == base {
			c.Outcome("identical")
			continue
		}
		obs := "different output"
		if r.Exit != 0 {
			obs = "rejected: " + firstLines(r.Out(), 2)
			c.Outcome("layout-rejected")
		} else {
			c.Outcome("layout-changes-output")
			obs = "different output: " + firstDiff(base, string(gen))
		}
		sig := "C06:style:" + stl.name
		if pr.cs.Name != "" {
			sig = "C06:corpus:" + pr.cs.Name
		} else if sh := c06Shape(pr.cs, s); sh != "" {
			sig = "C06:shape:" + sh
		}
		c.Violation(sig, fmt.Sprintf("layout style %s of %s changes the result: %s\n%s", stl.name, pr.name, obs, src[len(fo.Prelude):]),
			map[string]any{"program": pr.name, "style": stl.name, "input": map[string]string{"t.fo": src}, "expected": "same gen_t.go as the default layout", "observed": obs})
		if c.TooManyViolations() {
			return
		}
	}
}

// c06Shape recognises the program shapes of the two layout-sensitive known findings.
// c06Headers: re-layouts of the package line and the import lines of the prelude (0 = as written)
var c06Headers = []func(pkg string, imports []string) string{
	func(pkg string, imports []string) string { return pkg + "\n" + strings.Join(imports, "\n") + "\n" },
	func(pkg string, imports []string) string {
		return "// c\n" + pkg + "\n" + strings.Join(imports, "\n") + "\n"
	},
	func(pkg string, imports []string) string {
		return "\n\n" + pkg + "\n" + strings.Join(imports, "\n") + "\n"
	},
	func(pkg string, imports []string) string {
		return "/* c\n   c */\n" + pkg + "\n" + strings.Join(imports, "\n") + "\n"
	},
	func(pkg string, imports []string) string { return pkg + " // c\n" + strings.Join(imports, "\n") + "\n" },
	func(pkg string, imports []string) string {
		return pkg + "\n\n// c\n\n" + strings.Join(imports, "\n") + "\n"
	},
	func(pkg string, imports []string) string {
		return pkg + "\n" + strings.Join(imports, "\n// c\n\n") + "\n"
	},
	func(pkg string, imports []string) string {
		return pkg + "  \n" + strings.Join(imports, "   \n") + " \t\n"
	},
	func(pkg string, imports []string) string {
		return pkg + "\n" + strings.Join(imports, " /* c */\n") + " // c\n\n\n\n/* c */\n"
	},
}

// c06WithHeader returns the prelude with its first lines (package + imports) laid out by variant k.
func c06WithHeader(k int) string {
	if k == 0 {
		return fo.Prelude
	}
	lines := strings.Split(fo.Prelude, "\n")
	pkg := lines[0]
	var imports []string
	i := 1
	for i < len(lines) && strings.HasPrefix(lines[i], "import ") {
		imports = append(imports, lines[i])
		i++
	}
	return c06Headers[k](pkg, imports) + strings.Join(lines[i:], "\n")
}

func c06Shape(cs *fo.Case, src string) string {
	lines := strings.Split(src, "\n")
	indent := func(s string) int { return len(s) - len(strings.TrimLeft(s, " ")) }
	code := func(s string) string {
		t := strings.TrimSpace(s)
		if strings.HasPrefix(t, "//") || strings.HasPrefix(t, "/*") || strings.HasPrefix(t, "c */") {
			return ""
		}
		return t
	}
	// dangling else: a multi-line if-only (a line "if .. then" with nothing after then, no else at its column before a shallower else/elif)
	for i, ln := range lines {
		t := code(ln)
		if strings.HasPrefix(t, "if ") || strings.HasPrefix(t, "elif ") {
			col := indent(ln)
			// the if is written over several lines (deeper lines follow: its then-block, or a condition that
			// spans lines); find the next code line with indentation <= col
			deeper := false
			for j := i + 1; j < len(lines); j++ {
				tj := code(lines[j])
				if tj == "" {
					continue
				}
				cj := indent(lines[j])
				if cj > col {
					deeper = true
					continue
				}
				if deeper && cj < col && (strings.HasPrefix(tj, "else") || strings.HasPrefix(tj, "elif ")) {
					return "dangling-else"
				}
				break
			}
		}
	}
	// a block whose first statement begins with an interpolated string and that has further statements
	for i, ln := range lines {
		t := code(ln)
		if strings.HasPrefix(t, "$\"") || strings.HasPrefix(t, "$`") {
			col := indent(ln)
			// previous code line must be shallower (this is the first statement of its block)
			prevShallower := false
			for j := i - 1; j >= 0; j-- {
				if code(lines[j]) == "" {
					continue
				}
				prevShallower = indent(lines[j]) < col
				break
			}
			nextSame := false
			for j := i + 1; j < len(lines); j++ {
				if code(lines[j]) == "" {
					continue
				}
				nextSame = indent(lines[j]) == col
				break
			}
			if prevShallower && nextSame {
				return "interp-first-statement-of-block"
			}
		}
	}
	return ""
}

func c06Replay(c *core.Ctx, sc *impl.Scratch, fc string) {
	rp, err := loadReplay(c.ReplayFile)
	if err != nil {
		panic(err)
	}
	dir := sc.TempDir("c06r_")
	os.WriteFile(filepath.Join(dir, "t.fo"), []byte(rp.Input["t.fo"]), 0o644)
	r := impl.Run(dir, 60*time.Second, "", fc, sc.PkgAllFoi(), "t.fo")
	fmt.Printf("fc exit=%d\n%s\n(replay shows the layout variant only; the comparison with the default layout is made by the check itself)\n", r.Exit, r.Out())
	c.Count(1, 1, 1, 1)
	c.Sample(rp.Input["t.fo"])
	if r.Exit != 0 {
		c.Violation("C06:replay", "the replayed layout is still rejected", map[string]any{"input": rp.Input})
	}
}
