package main

import (
	"crypto/sha256"
	"fmt"
	"go/ast"
	"go/parser"
	"go/token"
	"os"
	"path/filepath"
	"sort"
	"strings"
	"sync"
	"time"

	"verif/internal/core"
	"verif/internal/explore"
	"verif/internal/fo"
	"verif/internal/impl"
)

// C05: transpilation is deterministic (independent of dictionary enumeration order).

func init() { register("C05", checkC05) }

type c05Prog struct {
	name  string
	files map[string]string // name -> content
	args  []string          // fc arguments ("@foi" = pkg_all.foi)
	free  int               // free-running repetitions with the unhooked binary (0 = 20)
	// identityOnly: only the all-identity schedule is run under the hook (a program with thousands of
	// enumerations); the free-running repetitions are what it is there for
	identityOnly bool
}

// c05DecompositionFamily: one function with two un-annotated parameters whose types come from a slice
// literal of two pairs [A; B], A and B ranging over all pairs over {p, q, 1, "s"} - so that unifying A with
// B decomposes into up to two component relations that may agree, be independent, or CONFLICT (p = int and
// p = string; p = any and p = int through a package_info sink) - followed by nothing / a sink call on (p, q)
// / on (q, p).  Derived relations of one round are where an order-dependent merge (first one wins) hides;
// well-typed programs never produce conflicting ones, and rejected or silently resolved programs must be
// deterministic as well.
func c05DecompositionFamily(thorough bool) []c05Prog {
	atoms := []string{"p", "q", "1", "\"s\""}
	var shapes []string
	for _, x := range atoms {
		for _, y := range atoms {
			shapes = append(shapes, "("+x+", "+y+")")
		}
	}
	var out []c05Prog
	add := func(name, body string) {
		src := "package main\n\npackage_info _ =\n  let sink: (any*int)->()\n\nlet f p q d =\n" + body + "  (p, q, d)\n"
		out = append(out, c05Prog{name: "decomposition:" + name, files: map[string]string{"t.fo": src}, args: []string{"t.fo"}, free: 3})
	}
	for i, a := range shapes {
		hasVarA := strings.Contains(a, "p") || strings.Contains(a, "q")
		// through an intermediate un-annotated variable d that first gets the composite type A and then meets
		// the sink's (any*int): the component relations are DERIVED in a later round of the resolver
		if hasVarA {
			add(fmt.Sprintf("[d; %s] sink d", a), "  let a = [d; "+a+"]\n  sink d\n")
			add(fmt.Sprintf("sink d [d; %s]", a), "  sink d\n  let a = [d; "+a+"]\n")
		}
		for j, b := range shapes {
			if i == j || !(hasVarA || strings.Contains(b, "p") || strings.Contains(b, "q")) {
				continue
			}
			// directly
			add(fmt.Sprintf("[%s; %s]", a, b), "  let a = ["+a+"; "+b+"]\n")
			// through d
			if thorough || (i+j)%2 == 0 {
				add(fmt.Sprintf("[d; %s] [d; %s]", a, b), "  let a = [d; "+a+"]\n  let b = [d; "+b+"]\n")
			}
		}
	}
	return out
}

func c05Programs(thorough bool) []c05Prog {
	p := func(name, src string) c05Prog {
		return c05Prog{name: name, files: map[string]string{"t.fo": src}, args: []string{"t.fo"}}
	}
	progs := []c05Prog{
		p("two-records-same-fields-unqualified", "package main\n\ntype Ra = {X: int; Y: string}\ntype Rb = {X: int; Y: string}\n\nlet mk () =\n  {X=1; Y=\"a\"}\n"),
		p("two-records-same-fields-permuted-unqualified", "package main\n\ntype Zed = {Name: string; Age: int}\ntype Abc = {Age: int; Name: string}\n\nlet mk (n:string) =\n  let r = {Age=3; Name=n}\n  r.Age\n"),
		p("three-records-same-fields", "package main\n\ntype R1 = {V: int}\ntype R2 = {V: int}\ntype R3 = {V: int}\n\nlet a () =\n  {V=1}\n\nlet b () =\n  {R2.V=2}\n\nlet c () =\n  [{V=3}; {V=4}]\n"),
		p("two-records-same-fields-qualified", "package main\n\ntype Ra = {X: int; Y: string}\ntype Rb = {X: int; Y: string}\n\nlet mka () =\n  {Ra.X=1; Y=\"a\"}\n\nlet mkb () =\n  {Rb.X=1; Y=\"a\"}\n"),
		p("three-records-distinct-fields", "package main\n\ntype Ra = {A: int}\ntype Rb = {B: int; C: string}\ntype Rc = {A: int; C: string}\n\nlet f () =\n  let a = {A=1}\n  let b = {B=2; C=\"x\"}\n  let c = {C=\"y\"; A=3}\n  a.A + b.B + c.A\n"),
		p("generic-and-plain-record-same-fields", "package main\n\ntype G<T> = {V: T; N: int}\ntype P = {V: string; N: int}\n\nlet f () =\n  {V=\"s\"; N=1}\n"),
		p("match-missing-two-of-four", "package main\n\ntype U =\n  | A of int\n  | B\n  | C of string\n  | D\n\nlet f (u:U) =\n  match u with\n  | A x -> x\n  | C _ -> 1\n"),
		p("match-missing-three-of-five", "package main\n\ntype U =\n  | A\n  | B\n  | C\n  | D\n  | E\n\nlet f (u:U) =\n  match u with\n  | C -> 1\n  | A -> 2\n"),
		p("match-exhaustive-five", "package main\n\ntype U =\n  | A\n  | B of int\n  | C\n  | D of string\n  | E\n\nlet f (u:U) =\n  match u with\n  | E -> 1\n  | D _ -> 2\n  | C -> 3\n  | B x -> x\n  | A -> 5\n"),
		p("match-default-three-missing", "package main\n\ntype U =\n  | A\n  | B of int\n  | C\n  | D\n\nlet f (u:U) =\n  match u with\n  | B x -> x\n  | _ -> 0\n"),
		p("package-info-many", "package main\n\npackage_info ext =\n  type Box<T>\n  type Pair<K, V>\n  type H\n  let Mk<T>: T->Box<T>\n  let Get<T>: Box<T>->T\n  let Pr<K, V>: K->V->Pair<K, V>\n  let Hd: ()->H\n  let Use: H->int->string\n\nlet f (x:int) =\n  let b = ext.Mk x\n  let p = ext.Pr (ext.Get b) \"s\"\n  ext.Use (ext.Hd ()) (ext.Get b)\n"),
		p("package-info-types-by-qualified-name", "package main\n\npackage_info shp =\n  type Circle\n  type Sq<T>\n  type Pr<K, V>\n  let MkC: ()->Circle\n  let MkS<T>: T->Sq<T>\n\nlet f (c: shp.Circle) (s: shp.Sq<int>) (p: shp.Pr<int, string>) =\n  1\n\nlet g () =\n  let c = shp.MkC ()\n  let s = shp.MkS 1\n  f c s\n"),
		p("package-info-two-blocks-one-package", "package main\n\npackage_info ext =\n  type H\n  let Hd: ()->H\n  let A1: H->int\n\npackage_info ext =\n  let A2: H->string\n  let A3: int->H\n  type J\n  let Mj: H->J\n\nlet f () =\n  let h = ext.Hd ()\n  let j = ext.Mj (ext.A3 (ext.A1 h))\n  ext.A2 h\n"),
		p("package-info-underscore", "package main\n\npackage_info _ =\n  type W\n  type V<T>\n  let mkW: ()->W\n  let wrap<T>: T->V<T>\n  let unwrap<T>: V<T>->T\n  let useW: W->int->()\n\nlet f () =\n  let v = wrap 3\n  useW (mkW ()) (unwrap v)\n"),
		p("inference-chain", "package main\n\nlet chain a b c d e f =\n  let x = [a; b]\n  let y = [b; c]\n  let z = [c; d]\n  let w = [d; e]\n  let u = [e; f]\n  (x, y, z)\n"),
		p("inference-star", "package main\n\nlet star a b c d e =\n  let p = [a; b]\n  let q = [a; c]\n  let r = [a; d]\n  let s = [a; e; 1]\n  p\n"),
		p("inference-many-independent", "package main\n\nlet many a b c d e f =\n  let p = (a, b)\n  let q = (c, d)\n  let r = (e, f)\n  (p, q, r)\n"),
		p("inference-functions", "package main\n\nlet compose f g x =\n  g (f x)\n\nlet flip f a b =\n  f b a\n\nlet twice f x =\n  compose f f x\n\nlet useAll () =\n  let inc = fun (i:int) -> i + 1\n  twice inc (flip (fun (a:int) (b:int) -> a - b) 1 2)\n"),
		p("generic-two-instantiations", "package main\n\nlet pair a b =\n  (a, b)\n\nlet idf x = x\n\nlet use () =\n  let p = pair 1 \"s\"\n  let q = pair \"t\" true\n  let r = idf p\n  (r, idf q)\n"),
		p("union-constructors-and-records", "package main\n\ntype R = {N: int; S: string}\ntype U =\n  | Rr of R\n  | Ii of int\n  | No\n\nlet f (u:U) =\n  match u with\n  | Rr r -> r.N\n  | Ii i -> i\n  | No -> 0\n\nlet g () =\n  [Rr {N=1; S=\"a\"}; Ii 2; No]\n"),
		p("type-and-group", "package main\n\ntype A =\n  | Ab of B\n  | Ac of C\n  | An\nand B = {Bn: int; Bc: []C}\nand C = {Cn: string}\n\nlet f (a:A) =\n  match a with\n  | Ab b -> b.Bn\n  | Ac c -> 1\n  | An -> 2\n"),
		// degenerate repetitions (after seed C05h): whatever fc makes of them - reject, emit twice, keep one - it must
		// make the same of them every time; "keep one per key" through a dictionary is where enumeration order gets in
		p("match-repeated-rule", "package main\n\ntype U =\n  | A of int\n  | B\n  | C of string\n\nlet f (u:U) =\n  match u with\n  | A x -> x\n  | B -> 2\n  | A y -> y + 1\n  | C _ -> 3\n"),
		p("match-repeated-rule-nested", "package main\n\ntype U =\n  | A of int\n  | B\n  | C of string\n\nlet f (u:U) (v:U) =\n  match u with\n  | B ->\n    match v with\n    | A k -> k\n    | C _ -> 1\n    | A k -> k + 1\n    | B -> 4\n  | A x -> x\n  | B -> 2\n  | C _ -> 3\n"),
		p("match-repeated-rule-and-default", "package main\n\ntype U =\n  | A\n  | B\n  | C\n  | D\n\nlet f (u:U) =\n  match u with\n  | D -> 1\n  | A -> 2\n  | D -> 3\n  | A -> 4\n  | _ -> 0\n"),
		p("string-match-repeated-literal", "package main\n\nlet f (s:string) =\n  match s with\n  | \"a\" -> 1\n  | \"b\" -> 2\n  | \"a\" -> 3\n  | _ -> 0\n"),
		p("record-literal-repeated-field", "package main\n\ntype R = {A: int; B: int}\n\nlet f () =\n  {A=1; B=2; A=3}\n"),
		p("function-defined-twice", "package main\n\nlet f (a:int) =\n  a + 1\n\nlet g () =\n  f 1\n\nlet f (a:int) =\n  a + 2\n\nlet h () =\n  f 2\n"),
		p("union-case-declared-twice", "package main\n\ntype U =\n  | A of int\n  | B\n  | A of string\n\nlet f (u:U) =\n  match u with\n  | A _ -> 1\n  | B -> 2\n"),
		p("record-field-declared-twice", "package main\n\ntype R = {A: int; B: string; A: string}\n\nlet f (r:R) =\n  r.A\n"),
		p("package-info-entry-twice", "package main\n\npackage_info ext =\n  type H\n  let Hd: ()->H\n  let Use: H->int\n  let Hd: int->H\n  type H\n\nlet f () =\n  ext.Use (ext.Hd ())\n"),
		p("type-declared-twice", "package main\n\ntype R = {A: int}\ntype R = {A: int; B: int}\n\nlet f () =\n  {A=1}\n"),
		// rules that name something that is not a case of the union (a typo, a renamed case) next to cases no rule names
		// (after seed C05i: one mixed list of offenders, decided by whichever entry comes first)
		p("match-foreign-case-with-default", "package main\n\ntype U =\n  | A of int\n  | B\n  | C\n\nlet f (u:U) =\n  match u with\n  | A x -> x\n  | Bogus _ -> 1\n  | _ -> 0\n"),
		p("match-two-foreign-cases-with-default", "package main\n\ntype U =\n  | A of int\n  | B\n  | C\n  | D\n\nlet f (u:U) =\n  match u with\n  | Zed _ -> 2\n  | A x -> x\n  | Bogus _ -> 1\n  | _ -> 0\n"),
		p("match-foreign-case-no-default", "package main\n\ntype U =\n  | A of int\n  | B\n  | C\n\nlet f (u:U) =\n  match u with\n  | A x -> x\n  | Bogus _ -> 1\n  | B -> 2\n"),
		p("match-foreign-bare-case-complete", "package main\n\ntype U =\n  | A of int\n  | B\n\nlet f (u:U) =\n  match u with\n  | A x -> x\n  | Bogus -> 1\n  | B -> 2\n"),
		p("syntax-error", "package main\n\nlet f ( =\n  1\n"),
		p("unknown-variable", "package main\n\ntype R = {A: int}\ntype S = {A: int}\n\nlet f () =\n  nosuch {A=1}\n"),
		p("record-literal-no-match", "package main\n\ntype R = {A: int}\ntype S = {B: int}\n\nlet f () =\n  {C=1}\n"),
	}
	progs = append(progs, c05Prog{name: "two-files-with-foi", files: map[string]string{
		"a.fo": "package main\nimport frt\nimport slice\n\ntype Ra = {X: int}\ntype Rb = {Y: int}\n\nlet fa () =\n  [1; 2] |> slice.Map (frt.Sprintf1 \"%d\")\n",
		"b.fo": "package main\n\nlet fb () =\n  let r = {X=1}\n  let s = {Y=2}\n  fa ()\n"},
		args: []string{"@foi", "a.fo", "b.fo"}})
	if thorough {
		progs = append(progs,
			p("inference-chain-long", "package main\n\nlet chain a b c d e f g h =\n  let x1 = [a; b]\n  let x2 = [c; d]\n  let x3 = [e; f]\n  let x4 = [g; h]\n  let y1 = [b; c]\n  let y2 = [f; g]\n  let z = [d; e]\n  (x1, x4)\n"),
			p("four-records-two-pairs", "package main\n\ntype A1 = {P: int}\ntype A2 = {P: int}\ntype B1 = {Q: string; P: int}\ntype B2 = {P: int; Q: string}\n\nlet f () =\n  let a = {P=1}\n  let b = {P=2; Q=\"q\"}\n  (a, b)\n"),
			p("match-missing-four-of-five", "package main\n\ntype U =\n  | A\n  | B\n  | C\n  | D\n  | E\n\nlet f (u:U) =\n  match u with\n  | C -> 1\n"),
		)
	}
	return progs
}

const c05MaxDecisions = 3000

func c05RealPrograms(sc *impl.Scratch, thorough bool) []c05Prog {
	var out []c05Prog
	if b, err := os.ReadFile(filepath.Join(sc.Src, "samples", "filelist.txt")); err == nil {
		for _, ln := range strings.Split(string(b), "\n") {
			f := strings.Fields(ln)
			if len(f) == 0 {
				continue
			}
			if src, err := os.ReadFile(filepath.Join(sc.Src, "samples", f[0])); err == nil {
				out = append(out, c05Prog{name: "sample:" + f[0], files: map[string]string{f[0]: string(src)}, args: []string{"@foi", f[0]}, free: 3})
			}
		}
	}
	for _, k := range fo.Corpus() {
		out = append(out, c05Prog{name: "corpus:" + k.Name, files: map[string]string{"t.fo": fo.Prelude + k.Source(nil)}, args: []string{"@foi", "t.fo"}, free: 3})
	}
	{
		var sb strings.Builder
		sb.WriteString("package main\n\n")
		for _, d := range c07Pool(thorough) {
			sb.WriteString(d.src + "\n")
		}
		out = append(out, c05Prog{name: "c07-pool", files: map[string]string{"t.fo": sb.String()}, args: []string{"t.fo"}, free: 3})
	}
	// a LARGE file: 320 root statements, each function with a union match that binds a payload (temporaries drawn
	// from counters during emission) and a record literal.  Anything that depends on the size of a file - batching,
	// worker pools, chunked emission - shows only here; what such code does is not under the dictionary scheduler,
	// so the program runs under the identity schedule and 20 free-running repetitions (seed C05f: root statements
	// emitted on four goroutines from 256 statements on)
	{
		var sb strings.Builder
		sb.WriteString("package main\n\ntype Sh =\n  | Ci of int\n  | Re of int*int\n  | No\n\ntype Pt = {X: int; Y: int}\n\n")
		for i := 0; i < 320; i++ {
			fmt.Fprintf(&sb, "let area%d (s:Sh) =\n  match s with\n  | Ci r -> r * %d\n  | Re p ->\n    let (a, b) = p\n    a * b\n  | No ->\n    let q = {X=%d; Y=0}\n    q.X\n\n", i, i+1, i)
		}
		out = append(out, c05Prog{name: "large-file-320-definitions", files: map[string]string{"t.fo": sb.String()}, args: []string{"t.fo"}, identityOnly: true})
	}
	if thorough {
		if rec, err := c04Recipe(filepath.Join(sc.Src, "fc", "fc_all.sh")); err == nil {
			files := map[string]string{}
			var args []string
			ok := true
			for _, a := range rec {
				if strings.HasSuffix(a, ".foi") {
					args = append(args, "@foi")
					continue
				}
				b, err := os.ReadFile(filepath.Join(sc.Src, "fc", a))
				if err != nil {
					ok = false
					break
				}
				files[a] = string(b)
				args = append(args, a)
			}
			if ok {
				out = append(out, c05Prog{name: "fc-self-compile", files: files, args: args, free: 3})
			}
		}
	}
	return out
}

type c05Obs struct {
	exit  int
	files string // canonical: name=sha256 ...
	out   string
	trace []c05Decision
}

type c05Decision struct {
	op     string
	n      int
	menu   int
	chosen int
	caller string
}

func c05Observe(dir string, r impl.Result) (string, map[string]string) {
	ents, _ := os.ReadDir(dir)
	var names []string
	contents := map[string]string{}
	for _, e := range ents {
		if strings.HasPrefix(e.Name(), "gen_") {
			b, _ := os.ReadFile(filepath.Join(dir, e.Name()))
			names = append(names, fmt.Sprintf("%s=%x", e.Name(), sha256.Sum256(b)))
			contents[e.Name()] = string(b)
		}
	}
	sort.Strings(names)
	return fmt.Sprintf("exit=%d %s", r.Exit, strings.Join(names, " ")), contents
}

func checkC05(c *core.Ctx) {
	sc, err := impl.New(c.Repo)
	if err != nil {
		panic(err)
	}
	defer sc.Close()
	fcv, err := sc.GoBuild("fc", "fc_verif", "verif")
	if err != nil {
		panic(err)
	}
	fc, err := sc.BuildFC()
	if err != nil {
		panic(err)
	}
	c.Set("rule", "programs x dictionary-enumeration schedules: the fc built with -tags verif returns, at every dict.Keys/Values/KVs call with n >= 2 entries, the permutation (relative to the canonical sorted order) that the schedule selects from a menu - all n! for n <= 4, else identity, reverse, each element moved to the front / to the back; the explorer enumerates every schedule with at most d non-identity answers (one fc process per schedule, its decision trace fed back into the choice tree with strict replay); distinct = distinct (program, schedule); non-trivial = the schedule has at least one non-identity answer at an enumeration with >= 2 entries")
	c.Assumption("menu argument: a consumer that takes the first match, lets the last write win or folds commutatively depends only on which element comes first/last among a subset, which the menu realises for every element; emission in enumeration order is exposed by the reverse")
	c.Assumption("the diagnostic text of a rejected program may name a different uncovered case under a different order; only output files and exit status are judged")
	bound := 1
	if c.Thorough() {
		bound = 2
	}
	c.Set("deviation_bound", bound)
	// unhooked map iteration elsewhere?
	if sites := c05ScanMapRanges(sc.Src); len(sites) > 0 {
		c.Set("map_range_sites_outside_the_hook", sites)
		c.NotExhaustive("nondeterminism outside the dictionary scheduler (range over a map outside dict.Keys/Values/KVs, goroutines, select, clocks, random numbers, process ids): " + strings.Join(sites, ", ") + " (covered only by the free-running repeated runs)")
	}
	progs := c05Programs(c.Thorough())
	fam := c05DecompositionFamily(c.Thorough())
	c.Set("decomposition_family_programs", len(fam))
	progs = append(progs, fam...)
	// realistic programs: the repository's samples (with pkg_all.foi), the boundary corpus of C01 / C06 (with
	// the prelude: records with shared field names, generic records, unions, a type-and group), the definition
	// pool of C07 as one file; thorough: fc's own sources with the fc_all.sh recipe (1 113 enumerations, 9 425
	// single-deviation schedules of 2 s each - run last, under the deadline, reported as capped if cut)
	real := c05RealPrograms(sc, c.Thorough())
	c.Set("realistic_programs", len(real))
	progs = append(progs, real...)
	var wg sync.WaitGroup
	sem := make(chan struct{}, c.Workers)
	sitesSeen := map[string]int{}
	var mu sync.Mutex
	for i := range progs {
		wg.Add(1)
		sem <- struct{}{}
		go func(pr *c05Prog) {
			defer wg.Done()
			defer func() { <-sem }()
			c05Explore(c, sc, fcv, fc, pr, bound, func(site string, n int) {
				mu.Lock()
				if n > sitesSeen[site] {
					sitesSeen[site] = n
				}
				mu.Unlock()
			})
		}(&progs[i])
	}
	wg.Wait()
	c.Set("enumeration_sites_max_entries", sitesSeen)
	c.Set("programs", len(progs))
}

func c05Explore(c *core.Ctx, sc *impl.Scratch, fcv, fc string, pr *c05Prog, bound int, site func(string, int)) {
	dir := sc.TempDir("c05_")
	defer os.RemoveAll(dir)
	for n, s := range pr.files {
		os.WriteFile(filepath.Join(dir, n), []byte(s), 0o644)
	}
	args := []string{}
	for _, a := range pr.args {
		if a == "@foi" {
			a = sc.PkgAllFoi()
		}
		args = append(args, a)
	}
	sched := filepath.Join(dir, "sched")
	trace := filepath.Join(dir, "trace")
	clean := func() {
		ents, _ := os.ReadDir(dir)
		for _, e := range ents {
			if strings.HasPrefix(e.Name(), "gen_") {
				os.Remove(filepath.Join(dir, e.Name()))
			}
		}
	}
	var base string
	var baseFiles map[string]string
	first := true
	var curObs string
	var curFiles map[string]string
	var curTrace []c05Decision
	hung := false
	drv := func(ch *explore.Chooser) {
		forced := ch.Forced()
		parts := make([]string, len(forced))
		for i, v := range forced {
			parts[i] = fmt.Sprint(v)
		}
		os.WriteFile(sched, []byte(strings.Join(parts, " ")), 0o644)
		os.Remove(trace)
		clean()
		r := impl.RunEnv(dir, 20*time.Second, "", []string{"VERIF_DICT_SCHED=" + sched, "VERIF_DICT_TRACE=" + trace}, fcv, args...)
		if r.TimedOut {
			r = impl.RunEnv(dir, 60*time.Second, "", []string{"VERIF_DICT_SCHED=" + sched, "VERIF_DICT_TRACE=" + trace}, fcv, args...)
		}
		if r.Exit == 97 {
			panic("c05: the hook rejected the schedule (strict replay failed): " + r.Stderr)
		}
		hung = r.TimedOut
		curTrace = nil
		if b, err := os.ReadFile(trace); err == nil {
			for _, ln := range strings.Split(strings.TrimSpace(string(b)), "\n") {
				var d c05Decision
				if _, err := fmt.Sscanf(ln, "%s %d %d %d %s", &d.op, &d.n, &d.menu, &d.chosen, &d.caller); err == nil {
					curTrace = append(curTrace, d)
				}
			}
		}
		if len(curTrace) > c05MaxDecisions {
			// a schedule that makes fc take very many decisions (a loop?): only the first ones become choice points
			c.NotExhaustive(fmt.Sprintf("program %s: an execution took %d enumeration decisions; only the first %d are explored", pr.name, len(curTrace), c05MaxDecisions))
			curTrace = curTrace[:c05MaxDecisions]
		}
		for i, d := range curTrace {
			v := ch.Choose(d.menu)
			if v != d.chosen {
				panic(fmt.Sprintf("c05: decision %d: the process took %d but the explorer chose %d", i, d.chosen, v))
			}
			site(d.caller, d.n)
		}
		curObs, curFiles = c05Observe(dir, r)
	}
	if pr.identityOnly {
		bound = 0
	}
	st := explore.Explore(bound, drv, func(ch *explore.Chooser) bool {
		c.Count(1, 0, 0, 1)
		dev := ch.Deviations()
		c.DistinctNT(pr.name+fmt.Sprint(ch.Choices), dev > 0)
		c.Hist("by_program", pr.name, 1)
		if hung {
			c.Violation("C05:hang", "fc did not terminate under a schedule", map[string]any{"program": pr.name, "choices": ch.Choices, "input": pr.files})
			return false
		}
		if first {
			first = false
			base, baseFiles = curObs, curFiles
			// same schedule => same observation: run the default schedule twice
			c.Sample(map[string]any{"program": pr.name, "decisions_in_default_schedule": len(curTrace), "default_result": trunc(base, 120)})
			return true
		}
		if curObs != base {
			c.Outcome("differs")
			// which decision deviates
			var devs []string
			for i, v := range ch.Choices {
				if v != 0 && i < len(curTrace) {
					devs = append(devs, fmt.Sprintf("decision %d (%s at %s, %d entries): permutation %d of %d", i, curTrace[i].op, curTrace[i].caller, curTrace[i].n, v, curTrace[i].menu))
				}
			}
			caller := "?"
			for i, v := range ch.Choices {
				if v != 0 && i < len(curTrace) {
					caller = curTrace[i].caller
					break
				}
			}
			diff := ""
			for n, b := range baseFiles {
				if curFiles[n] != b {
					diff = n + ": " + firstDiff(b, curFiles[n])
				}
			}
			c.Violation("C05:order-dependent:"+caller, fmt.Sprintf("program %s: result depends on the enumeration order: %v; default %s, now %s; %s", pr.name, devs, trunc(base, 100), trunc(curObs, 100), diff),
				map[string]any{"program": pr.name, "choices": ch.Choices, "deviations": devs, "input": pr.files, "args": pr.args, "expected": base, "observed": curObs, "first_difference": diff})
			return !c.TooManyViolations()
		}
		c.Outcome("same")
		return !c.Expired()
	})
	c.Count(0, st.States, st.Transitions, 0)
	c.AddInt("cut_by_bound", st.CutByBound)
	if st.Stopped && c.ViolationCount() == 0 {
		c.NotExhaustive("exploration of " + pr.name + " stopped early")
	}
	// free-running cross-check with the unhooked binary (real Go map order)
	reps := 20
	if pr.free > 0 {
		reps = pr.free
	}
	for i := 0; i < reps; i++ {
		clean()
		r := impl.Run(dir, 20*time.Second, "", fc, args...)
		obs, _ := c05Observe(dir, r)
		c.AddInt("free_running_runs", 1)
		if obs != base {
			c.Violation("C05:free-running-differs", fmt.Sprintf("program %s: the unhooked fc gave %s, the default schedule %s", pr.name, trunc(obs, 100), trunc(base, 100)),
				map[string]any{"program": pr.name, "input": pr.files, "args": pr.args, "expected": base, "observed": obs})
			break
		}
	}
}

// c05ScanMapRanges lists `range` statements over map-typed expressions in the
// non-test Go sources outside pkg/dict's three hooked functions.
func c05ScanMapRanges(src string) []string {
	var sites []string
	var files []string
	for _, d := range []string{"fc", "pkg/dict", "pkg/frt", "pkg/slice", "pkg/strings", "pkg/buf", "pkg/sys"} {
		ents, _ := os.ReadDir(filepath.Join(src, d))
		for _, e := range ents {
			if strings.HasSuffix(e.Name(), ".go") && !strings.HasSuffix(e.Name(), "_test.go") {
				files = append(files, filepath.Join(d, e.Name()))
			}
		}
	}
	for _, f := range files {
		fset := token.NewFileSet()
		af, err := parser.ParseFile(fset, filepath.Join(src, f), nil, parser.SkipObjectResolution)
		if err != nil {
			continue
		}
		mapVars := map[string]bool{}
		ast.Inspect(af, func(n ast.Node) bool {
			switch v := n.(type) {
			case *ast.ValueSpec:
				if _, ok := v.Type.(*ast.MapType); ok {
					for _, nm := range v.Names {
						mapVars[nm.Name] = true
					}
				}
				for i, val := range v.Values {
					if isMapExpr(val) && i < len(v.Names) {
						mapVars[v.Names[i].Name] = true
					}
				}
			case *ast.AssignStmt:
				for i, val := range v.Rhs {
					if isMapExpr(val) && i < len(v.Lhs) {
						if id, ok := v.Lhs[i].(*ast.Ident); ok {
							mapVars[id.Name] = true
						}
					}
				}
			case *ast.Field:
				if _, ok := v.Type.(*ast.MapType); ok {
					for _, nm := range v.Names {
						mapVars[nm.Name] = true
					}
				}
			}
			return true
		})
		// other sources of nondeterminism the dictionary scheduler does not own: goroutines, select, clocks, random
		// numbers, process ids, addresses used as values
		for _, im := range af.Imports {
			switch strings.Trim(im.Path.Value, "\"") {
			case "time", "math/rand", "math/rand/v2", "crypto/rand", "unsafe":
				if !strings.HasPrefix(f, "pkg/dict/order_verif") {
					sites = append(sites, fmt.Sprintf("%s imports %s", f, im.Path.Value))
				}
			}
		}
		ast.Inspect(af, func(n ast.Node) bool {
			switch v := n.(type) {
			case *ast.GoStmt:
				sites = append(sites, fmt.Sprintf("%s:%d go statement", f, fset.Position(v.Pos()).Line))
			case *ast.SelectStmt:
				sites = append(sites, fmt.Sprintf("%s:%d select statement", f, fset.Position(v.Pos()).Line))
			case *ast.SelectorExpr:
				if id, ok := v.X.(*ast.Ident); ok && id.Name == "os" && (v.Sel.Name == "Getpid" || v.Sel.Name == "Getppid") {
					sites = append(sites, fmt.Sprintf("%s:%d os.%s", f, fset.Position(v.Pos()).Line, v.Sel.Name))
				}
			}
			return true
		})
		for _, d := range af.Decls {
			fd, ok := d.(*ast.FuncDecl)
			if !ok || fd.Body == nil {
				continue
			}
			if strings.HasPrefix(f, "pkg/dict/") && (fd.Name.Name == "KVs" || fd.Name.Name == "Keys" || fd.Name.Name == "Values" || strings.HasPrefix(fd.Name.Name, "verif")) {
				continue
			}
			ast.Inspect(fd.Body, func(n ast.Node) bool {
				rs, ok := n.(*ast.RangeStmt)
				if !ok {
					return true
				}
				isMap := false
				switch x := rs.X.(type) {
				case *ast.Ident:
					isMap = mapVars[x.Name]
				case *ast.SelectorExpr:
					isMap = x.Sel.Name == "Fdict" || mapVars[x.Sel.Name]
				}
				if isMap {
					sites = append(sites, fmt.Sprintf("%s:%d (%s)", f, fset.Position(rs.Pos()).Line, fd.Name.Name))
				}
				return true
			})
		}
	}
	return sites
}

func isMapExpr(e ast.Expr) bool {
	switch v := e.(type) {
	case *ast.CompositeLit:
		_, ok := v.Type.(*ast.MapType)
		return ok
	case *ast.CallExpr:
		if id, ok := v.Fun.(*ast.Ident); ok && id.Name == "make" && len(v.Args) > 0 {
			_, ok := v.Args[0].(*ast.MapType)
			return ok
		}
	}
	return false
}
