package main

import (
	"bytes"
	"fmt"
	"os"
	"os/exec"
	"path/filepath"
	"regexp"
	"sort"
	"strings"
	"time"

	"verif/internal/core"
	"verif/internal/impl"
)

// C04: checked-in generated Go is a fixed point of the self-hosted compiler.

func init() { register("C04", checkC04) }

var c04Assign = regexp.MustCompile(`(?m)^([A-Z_]+)=(\S+)\s*$`)

// c04Recipe extracts the "./fc ..." command of a recipe script with its
// variables substituted; "$1" is kept as is.
func c04Recipe(path string) ([]string, error) {
	b, err := os.ReadFile(path)
	if err != nil {
		return nil, err
	}
	vars := map[string]string{}
	for _, m := range c04Assign.FindAllStringSubmatch(string(b), -1) {
		vars[m[1]] = m[2]
	}
	for _, ln := range strings.Split(string(b), "\n") {
		ln = strings.TrimSpace(ln)
		if strings.HasPrefix(ln, "./fc ") {
			var out []string
			for _, f := range strings.Fields(ln)[1:] {
				if strings.HasPrefix(f, "$") && f != "$1" {
					f = vars[strings.TrimPrefix(f, "$")]
				}
				out = append(out, f)
			}
			return out, nil
		}
	}
	return nil, fmt.Errorf("no ./fc line in %s", path)
}

func copyDir(src, dst string) error {
	out, err := exec.Command("rsync", "-a", src+"/", dst+"/").CombinedOutput()
	if err != nil {
		return fmt.Errorf("rsync: %v %s", err, out)
	}
	return nil
}

func checkC04(c *core.Ctx) {
	sc, err := impl.New(c.Repo)
	if err != nil {
		panic(err)
	}
	defer sc.Close()
	fc1, err := sc.BuildFC()
	if err != nil {
		panic(err)
	}
	c.Set("rule", "finite space enumerated completely: every artefact named by fc/fc_all.sh, samples/filelist.txt (through samples/myfc.sh), cmd/build_sample_md/fc.sh and samples/README.md x compiler generation 1 (built from the checked-in gen_*.go) and 2 (built from generation 1's output); distinct = distinct (artefact, generation); every artefact is non-trivial (a real source file)")
	c.Assumption("gofmt of the installed toolchain is the formatter the repository uses (go fmt); recipes are read from the working tree's scripts")
	src := sc.Src
	type artefact struct {
		dir   string   // directory relative to the repo
		args  []string // fc arguments
		gens  []string // gen files expected (relative to dir)
		label string
	}
	var arts []artefact
	// 1. the compiler
	rec, err := c04Recipe(filepath.Join(src, "fc", "fc_all.sh"))
	if err != nil {
		panic(err)
	}
	a := artefact{dir: "fc", args: rec, label: "fc/fc_all.sh"}
	for _, f := range rec {
		if strings.HasSuffix(f, ".fo") {
			a.gens = append(a.gens, "gen_"+strings.TrimSuffix(filepath.Base(f), ".fo")+".go")
		}
	}
	arts = append(arts, a)
	// 2. samples
	srec, err := c04Recipe(filepath.Join(src, "samples", "myfc.sh"))
	if err != nil {
		panic(err)
	}
	fl, err := os.ReadFile(filepath.Join(src, "samples", "filelist.txt"))
	if err != nil {
		panic(err)
	}
	listed := map[string]bool{}
	for _, ln := range strings.Split(string(fl), "\n") {
		if strings.TrimSpace(ln) == "" {
			continue
		}
		name := strings.Fields(ln)[0]
		listed[name] = true
		args := []string{}
		for _, f := range srec {
			if f == "$1" {
				f = name
			}
			args = append(args, f)
		}
		arts = append(arts, artefact{dir: "samples", args: args, gens: []string{"gen_" + strings.TrimSuffix(name, ".fo") + ".go"}, label: "samples/" + name})
	}
	// 3. the tool
	trec, err := c04Recipe(filepath.Join(src, "cmd", "build_sample_md", "fc.sh"))
	if err != nil {
		panic(err)
	}
	targs := []string{}
	for _, f := range trec {
		if f == "$1" {
			f = "build_sample_md.fo"
		}
		targs = append(targs, f)
	}
	arts = append(arts, artefact{dir: "cmd/build_sample_md", args: targs, gens: []string{"gen_build_sample_md.go"}, label: "cmd/build_sample_md/build_sample_md.fo"})

	// regenerate runs every recipe with compiler fcbin in a fresh copy of the tree
	// and returns raw outputs keyed by repo-relative path.
	regenerate := func(fcbin string, tag string) (map[string][]byte, string) {
		work := sc.TempDir("c04_" + tag + "_")
		if err := copyDir(src, work); err != nil {
			panic(err)
		}
		outs := map[string][]byte{}
		for _, a := range arts {
			for _, g := range a.gens {
				os.Remove(filepath.Join(work, a.dir, g))
			}
			r := impl.RunWithRetry(filepath.Join(work, a.dir), 120*time.Second, 300*time.Second, fcbin, a.args...)
			c.Count(1, 0, 1, 0)
			if r.Exit != 0 || r.TimedOut {
				c.Violation("C04:regeneration-fails:"+a.label, fmt.Sprintf("%s compiler fails on %s: exit=%d %s", tag, a.label, r.Exit, firstLines(r.Out(), 4)),
					map[string]any{"artefact": a.label, "generation": tag, "args": a.args, "observed": r.Out()})
				continue
			}
			for _, g := range a.gens {
				b, err := os.ReadFile(filepath.Join(work, a.dir, g))
				if err != nil {
					c.Violation("C04:missing-output:"+a.dir+"/"+g, fmt.Sprintf("%s compiler did not write %s/%s", tag, a.dir, g), map[string]any{"artefact": a.label, "generation": tag})
					continue
				}
				outs[a.dir+"/"+g] = b
			}
		}
		return outs, work
	}

	// generation 1
	gen1, work1 := regenerate(fc1, "gen1")
	keys := []string{}
	for k := range gen1 {
		keys = append(keys, k)
	}
	sort.Strings(keys)
	for _, k := range keys {
		c.Count(0, 1, 0, 1)
		c.DistinctNT("gen1:"+k, true)
		fm, err := impl.Gofmt(gen1[k])
		if err != nil {
			c.Violation("C04:gofmt-fails:"+k, fmt.Sprintf("regenerated %s is not valid Go: %v", k, err), map[string]any{"file": k})
			continue
		}
		want, err := os.ReadFile(filepath.Join(src, k))
		if err != nil {
			c.Violation("C04:no-checked-in-file:"+k, "no checked-in counterpart for "+k, map[string]any{"file": k})
			continue
		}
		if !bytes.Equal(fm, want) {
			c.Outcome("gen1-differs")
			d := firstDiff(string(want), string(fm))
			c.Violation("C04:gen1-differs:"+k, fmt.Sprintf("regenerating %s does not reproduce the checked-in file: %s", k, d),
				map[string]any{"file": k, "first_difference": d})
		} else {
			c.Outcome("gen1-identical")
		}
		c.Sample(map[string]any{"artefact": k, "generation": 1, "bytes": len(fm)})
	}
	// unlisted samples/gen_*.go are reported, not judged
	if ents, err := os.ReadDir(filepath.Join(src, "samples")); err == nil {
		var unlisted []string
		for _, e := range ents {
			n := e.Name()
			if strings.HasPrefix(n, "gen_") && strings.HasSuffix(n, ".go") {
				fo := strings.TrimSuffix(strings.TrimPrefix(n, "gen_"), ".go") + ".fo"
				if !listed[fo] {
					unlisted = append(unlisted, n)
				}
			}
		}
		c.Set("unlisted_sample_gen_files_not_judged", unlisted)
	}
	if c.ViolationCount() > 0 {
		c.NotExhaustive("generation 2 skipped because generation 1 already differs")
		return
	}
	// README via the rebuilt tool (built from the regenerated gen_build_sample_md.go)
	{
		tdir := filepath.Join(work1, "cmd", "build_sample_md")
		bin := filepath.Join(sc.Bin, "bsm_regen")
		cmd := exec.Command("go", "build", "-o", bin, ".")
		cmd.Dir = tdir
		cmd.Env = impl.GoEnv()
		if out, err := cmd.CombinedOutput(); err != nil {
			c.Violation("C04:tool-does-not-build", "build_sample_md does not build from its regenerated source: "+firstLines(string(out), 4), map[string]any{"observed": string(out)})
		} else {
			sdir := filepath.Join(work1, "samples")
			os.Remove(filepath.Join(sdir, "README.md"))
			r := impl.Run(sdir, 60*time.Second, "", bin, "filelist.txt")
			c.Count(1, 1, 1, 1)
			c.DistinctNT("readme", true)
			got, _ := os.ReadFile(filepath.Join(sdir, "README.md"))
			want, _ := os.ReadFile(filepath.Join(src, "samples", "README.md"))
			if r.Exit != 0 || !bytes.Equal(got, want) {
				c.Outcome("readme-differs")
				c.Violation("C04:readme-differs", "samples/README.md is not what the rebuilt build_sample_md produces: "+firstDiff(string(want), string(got)), map[string]any{"exit": r.Exit})
			} else {
				c.Outcome("readme-identical")
			}
		}
	}
	// generation 2: compiler built from generation 1's raw output + wrapper.go
	fc2 := filepath.Join(sc.Bin, "fc_gen2")
	{
		cmd := exec.Command("go", "build", "-o", fc2, ".")
		cmd.Dir = filepath.Join(work1, "fc")
		cmd.Env = impl.GoEnv()
		if out, err := cmd.CombinedOutput(); err != nil {
			c.Violation("C04:gen2-compiler-does-not-build", "the compiler does not build from its own regenerated output: "+firstLines(string(out), 4), map[string]any{"observed": string(out)})
			return
		}
	}
	reps := 1
	if c.Thorough() {
		reps = 3
	}
	for rep := 0; rep < reps; rep++ {
		gen2, work2 := regenerate(fc2, fmt.Sprintf("gen2r%d", rep))
		for _, k := range keys {
			c.Count(0, 1, 0, 1)
			c.DistinctNT("gen2:"+k, true)
			if !bytes.Equal(gen1[k], gen2[k]) {
				c.Outcome("gen2-differs")
				c.Violation("C04:gen2-differs:"+k, fmt.Sprintf("second-generation output of %s differs from first-generation output: %s", k, firstDiff(string(gen1[k]), string(gen2[k]))), map[string]any{"file": k})
			} else {
				c.Outcome("gen2-identical")
			}
		}
		os.RemoveAll(work2)
	}
	if c.Thorough() {
		// repeat generation 1 (exposes order dependence on the largest input that exists)
		for rep := 0; rep < 3; rep++ {
			again, w := regenerate(fc1, fmt.Sprintf("gen1r%d", rep))
			for _, k := range keys {
				c.Count(0, 1, 0, 1)
				if !bytes.Equal(gen1[k], again[k]) {
					c.Violation("C04:gen1-not-reproducible:"+k, "two runs of the generation-1 compiler give different output for "+k, map[string]any{"file": k})
				}
			}
			os.RemoveAll(w)
		}
	}
	c.Set("artefacts", len(keys)+1)
}

func firstDiff(a, b string) string {
	al := strings.Split(a, "\n")
	bl := strings.Split(b, "\n")
	for i := 0; i < len(al) || i < len(bl); i++ {
		var x, y string
		if i < len(al) {
			x = al[i]
		}
		if i < len(bl) {
			y = bl[i]
		}
		if x != y {
			return fmt.Sprintf("line %d: checked-in/first %q vs regenerated/second %q", i+1, trunc(x, 120), trunc(y, 120))
		}
	}
	return "identical"
}

func trunc(s string, n int) string {
	if len(s) > n {
		return s[:n] + "..."
	}
	return s
}
