package main

// Every generated program (k <= 2) must be evaluable by the reference evaluator: a panic here is a generator bug
// (a hole capturing a variable of another type, a missing library model), found before any fc run.

import (
	"fmt"
	"testing"

	"verif/internal/fo"
)

func TestGenEnumerate(t *testing.T) {
	for k := 0; k <= 2; k++ {
		n := 0
		c01Enumerate(fo.Profile{}, k, 1000, func(cases []*c01Case) bool {
			for _, cs := range cases {
				func() {
					defer func() {
						if r := recover(); r != nil {
							fmt.Printf("PANIC %v\n%s\n", r, cs.cs.Source(nil))
							t.Fail()
						}
					}()
					cs.cs.Expected(false)
					cs.cs.Expected(true)
					n++
				}()
			}
			return !t.Failed()
		})
		fmt.Println("k", k, "programs", n)
	}
}
