package main

import (
	"fmt"
	"strings"

	"verif/internal/core"
	"verif/internal/gobatch"
	"verif/internal/impl"
)

// c09ZeroValue: "the emitted 'never reached' panic is unreachable in accepted programs" - also for the one value of
// a union type that no constructor builds: the zero value a documented library function hands out (frt.Empty<U> (),
// dict.Item of a missing key, the value half of a missed TryFind).  A complete, accepted match is run on it.
func c09ZeroValue(c *core.Ctx, fc string, sc *impl.Scratch) {
	env := &gobatch.Env{Sc: sc, FC: fc, FCArgs: []string{sc.PkgAllFoi()}, Prelude: "package main\nimport frt\nimport slice\nimport dict\n\nlet zzUse () =\n  [1] |> slice.Head |> frt.Printf1 \"%d\"\n\n"}
	types := "type Uz =\n  | Za of int\n  | Zb\n\nlet fz (u:Uz) =\n  match u with\n  | Za x -> x\n  | Zb -> 0\n\n"
	progs := []gobatch.Prog{
		{Defs: types + "let run_z0 () =\n  fz (frt.Empty<Uz> ()) |> frt.Printf1 \"%d\\n\"\n", Run: "run_z0"},
		{Defs: strings.ReplaceAll(types, "z", "y") + "let run_y0 () =\n  let d = dict.New<string, Uy> ()\n  let (v, ok) = dict.TryFind d \"k\"\n  fy v |> frt.Printf1 \"%d\\n\"\n  frt.Printf1 \"%v\\n\" ok\n", Run: "run_y0"},
	}
	res := env.Run(progs)
	for i, r := range res {
		c.Count(1, 1, 1, 1)
		c.DistinctNT(progs[i].Defs, true)
		c.AddInt("zero_value_programs", 1)
		if r.Status == "ok" {
			c.Outcome("executed-ok")
			continue
		}
		sig := "C09:zero-value-exec:" + r.Status
		if (r.Status == "panic" || r.Status == "crash") && strings.Contains(r.Detail+r.Stdout, "Never reached here") {
			sig = "C09:zero-value-of-union-reaches-never-reached"
		}
		c.Outcome(sig)
		c.Violation(sig, fmt.Sprintf("a complete, accepted match run on the zero value of its union type (program %d): %s %s", i, r.Status, firstLines(r.Detail, 3)),
			map[string]any{"kind": "exec", "input": map[string]string{"t.fo": progs[i].Defs}, "expected": "any arm, or at least not the 'never reached' panic", "observed": r.Status + ": " + r.Stdout + trunc(r.Detail, 600)})
	}
}
