package main

import (
	"fmt"
	"strings"
	"sync"

	"verif/internal/core"
	"verif/internal/fo"
	"verif/internal/gobatch"
	"verif/internal/impl"
)

// c02FieldAccess: a record field whose type has to be UNIFIED WITH A COMPOUND GENERIC TYPE - the []T of
// slice.Head / Take / Length, the A*B of frt.Fst, the T->[]U of slice.Collect, the T->U of slice.Map through a
// lambda or the _.Field shorthand - on annotated parameters (the record type is known where the access is
// written, or becomes known from the other argument of the same call).  fc cannot relate an unresolved field
// access to a compound type and relies on a later look at the resolved expression; how often and where it looks
// again decides whether the element type is found: let-bound, as the final expression, inside a tuple, piped or
// applied directly (seed C02h removed the second look for lets; the final-expression forms were a genuine defect
// of the pinned tree, reported as a side remark by that seed's author and repaired).  Not in the family: frt.Fst r.Pr on
// an un-annotated lambda parameter - fc needs the tuple type where the call is written (the domain rule of this check).
const c02FieldPrelude = `type Rf = {Items: []int; Nm: string; Pr: int*string}

`

func c02FieldAccess(c *core.Ctx, sc *impl.Scratch, fc string, foi string) {
	type use struct {
		param, expr, piped, gt string
	}
	uses := []use{
		{"(p:Rf)", "slice.Head p.Items", "p.Items |> slice.Head", "int"},
		{"(p:Rf)", "frt.Fst p.Pr", "p.Pr |> frt.Fst", "int"},
		{"(p:Rf)", "frt.Snd p.Pr", "p.Pr |> frt.Snd", "string"},
		{"(p:Rf)", "slice.Take 1 p.Items", "p.Items |> slice.Take 1", "[]int"},
		{"(p:Rf)", "slice.Length p.Items", "p.Items |> slice.Length", "int"},
		{"(p:Rf)", "slice.Map inc p.Items", "p.Items |> slice.Map inc", "[]int"},
		{"(p:Rf)", "[p.Items; p.Items]", "", "[][]int"},
		{"(p:Rf)", "slice.PushLast p.Nm [\"a\"]", "[\"a\"] |> slice.PushLast p.Nm", "[]string"},
		{"(rs:[]Rf)", "slice.Collect _.Items rs", "rs |> slice.Collect _.Items", "[]int"},
		{"(rs:[]Rf)", "slice.Map _.Nm rs", "rs |> slice.Map _.Nm", "[]string"},
		{"(rs:[]Rf)", "slice.Map _.Items rs", "rs |> slice.Map _.Items", "[][]int"},
		{"(rs:[]Rf)", "slice.Map (fun r -> slice.Head r.Items) rs", "rs |> slice.Map (fun r -> slice.Head r.Items)", "[]int"},
		{"(rs:[]Rf)", "slice.Collect (fun r -> slice.Take 1 r.Items) rs", "rs |> slice.Collect (fun r -> slice.Take 1 r.Items)", "[]int"},
		{"(rs:[]Rf)", "slice.Filter (fun r -> slice.IsEmpty r.Items) rs", "rs |> slice.Filter (fun r -> slice.IsEmpty r.Items)", "[]Rf"},
		{"(rs:[]Rf)", "slice.Head rs |> _.Items", "", "[]int"},
	}
	type fn struct{ name, src, want string }
	var fns []fn
	k := 0
	for _, u := range uses {
		for form := 0; form < 2; form++ {
			e := u.expr
			if form == 1 {
				if u.piped == "" {
					continue
				}
				e = u.piped
			}
			pgt := map[string]string{"(p:Rf)": "Rf", "(rs:[]Rf)": "[]Rf"}[u.param]
			for pos := 0; pos < 4; pos++ {
				name := fmt.Sprintf("f_%d", 800000+k)
				k++
				var body, rt string
				switch pos {
				case 0: // let-bound, returned
					body, rt = "  let h = "+e+"\n  h\n", u.gt
				case 1: // the final expression
					body, rt = "  "+e+"\n", u.gt
				case 2: // let-bound, inside a tuple
					body, rt = "  let h = "+e+"\n  (h, 1)\n", "frt.Tuple2["+u.gt+", int]"
				case 3: // after another statement, final
					body, rt = "  say \"x\"\n  "+e+"\n", u.gt
				}
				fns = append(fns, fn{name, "let " + name + " " + u.param + " =\n" + body, "(" + pgt + ") " + rt})
			}
		}
	}
	env := &gobatch.Env{Sc: sc, FC: fc, FCArgs: []string{sc.PkgAllFoi()}, Prelude: fo.Prelude + c02FieldPrelude, NoRunMain: true}
	gens := map[string][2]string{}
	var gmu sync.Mutex
	env.OnGen = func(gen string) {
		gmu.Lock()
		for k, v := range c02ExtractFuncs(gen) {
			gens[k] = v
		}
		gmu.Unlock()
	}
	var progs []gobatch.Prog
	for _, f := range fns {
		progs = append(progs, gobatch.Prog{Defs: f.src + fmt.Sprintf("\nlet run_%s () =\n  say \"x\"\n", f.name), Run: "run_" + f.name})
	}
	res := env.Run(progs)
	for i, f := range fns {
		c.Count(1, 1, 1, 1)
		c.DistinctNT(f.src, true)
		c.Hist("by_construct", "field-access-against-compound-generic", 1)
		g := gens[f.name]
		rep := map[string]any{"input": map[string]string{"t.fo": fo.Prelude + c02FieldPrelude + f.src}, "definition": f.src, "expected": f.want, "observed": res[i].Status + " " + g[0] + " " + trunc(res[i].Detail, 600)}
		if g[0] != "" && g[0] != f.want {
			c.Violation("C02:field-access:signature", fmt.Sprintf("emitted signature %s, principal type %s\n%s", g[0], f.want, f.src), rep)
			continue
		}
		if res[i].Status != "ok" {
			c.Violation("C02:field-access:"+res[i].Status, fmt.Sprintf("%s %s (principal type %s)\n%s", res[i].Status, firstLines(res[i].Detail, 2), f.want, f.src), rep)
			continue
		}
		c.Outcome("agree")
	}
	c.Set("field_access_functions", len(fns))
	_ = strings.TrimSpace
}
