package main

import (
	"time"

	"verif/internal/core"
	"verif/internal/impl"
)

// C13: slice library functions compute their F#-List-style specification.
// The sweep runs in-process in drivers/c13 linked against the scratch copy's pkg/slice.

func init() { register("C13", checkC13) }

func checkC13(c *core.Ctx) {
	sc, err := impl.New(c.Repo)
	if err != nil {
		panic(err)
	}
	defer sc.Close()
	c.Set("rule", "inputs are enumerated by the choice-tree explorer (length, then each element) over []int{0,1,2} and []string{\"\",\"a\",\"b\"} up to the length bound, crossed in-process with every in-range index/count and a fixed family of total function arguments; pairs of slices for Append/Zip, slices of slices for Concat/Collect; distinct = distinct input slices of the unary sweep; non-trivial = non-empty slice")
	c.Assumption("out-of-domain calls (Head/Tail/Last/PopLast/Item of an empty slice or out-of-range index, Take n with n > length, Zip of unequal lengths) are not made")
	c.Assumption("Sort/SortBy: ascending by key and a permutation of the input; stability is not required")
	runDriver(c, sc, "c13", nil, 20*time.Minute, c.Tier)
}
