package main

import (
	"fmt"
	"go/ast"
	"go/parser"
	"go/token"
	"os"
	"path/filepath"
	"strings"
	"sync"
	"time"

	"verif/internal/core"
	"verif/internal/explore"
	"verif/internal/impl"
)

// C08: binary operators group by one fixed table and associate to the left.
//
// Space: every chain of 1..N operators over the 12 non-pipe operators between
// operands of the forms {atom, application, parenthesised sub-chain,
// not-prefixed application}, with line breaks before operators; pipe chains.
// Oracle: independent shunting-yard parse with the table of the property
// statement; observed: the returned expression of the emitted Go function.

func init() { register("C08", checkC08) }

// the published table (from the property statement), NOT read from the code
var c08Rank = map[string]int{
	"|>": 1,
	"&&": 2, "||": 2, "<": 2, ">": 2, "<=": 2, ">=": 2,
	"=": 3, "<>": 3,
	"+": 4, "-": 4,
	"*": 5, "/": 5,
}
var c08Ops = []string{"+", "-", "*", "/", "=", "<>", "<", ">", "<=", ">=", "&&", "||"}

// tree forms are rendered canonically:  (l op r)  g(a,b)  not(x)  atom  part:f(args)
type c08Case struct {
	choices  []int
	src      string // folang body (may span lines; first line unindented)
	expected string // canonical tree
	nops     int
	kind     string
	pty      string // type of the parameters a..r, x, y ("" = int)
}

type c08Operand struct {
	src  string
	tree string
}

func c08ShuntingYard(operands []string, ops []string) string {
	// classic two-stack algorithm, left associative
	var out []string
	var st []string
	reduce := func() {
		op := st[len(st)-1]
		st = st[:len(st)-1]
		r := out[len(out)-1]
		l := out[len(out)-2]
		out = out[:len(out)-2]
		out = append(out, "("+l+" "+op+" "+r+")")
	}
	out = append(out, operands[0])
	for i, op := range ops {
		for len(st) > 0 && c08Rank[st[len(st)-1]] >= c08Rank[op] {
			reduce()
		}
		st = append(st, op)
		out = append(out, operands[i+1])
	}
	for len(st) > 0 {
		reduce()
	}
	return out[0]
}

var c08Atoms = []string{"a", "b", "c", "d", "e", "f", "h", "i", "j", "k", "l", "m", "n", "o", "p", "q", "r"}

// one driver for all chain cases
func c08Driver(maxOps int, formsUpTo int, breaksUpTo int, maxNonAtomic, maxBreaks int) func(c *explore.Chooser) *c08Case {
	return func(c *explore.Chooser) *c08Case {
		n := 1 + c.Choose(maxOps)
		ops := make([]string, n)
		for i := range ops {
			ops[i] = c08Ops[c.Choose(len(c08Ops))]
		}
		operands := make([]c08Operand, n+1)
		nonAtomic := 0
		for i := range operands {
			at := c08Atoms[i]
			form := 0
			if n <= formsUpTo && nonAtomic < maxNonAtomic {
				form = c.Choose(6)
			}
			if form != 0 {
				nonAtomic++
			}
			switch form {
			case 0:
				operands[i] = c08Operand{at, at}
			case 1: // application
				operands[i] = c08Operand{"g " + at + " x", "g(" + at + ",x)"}
			case 2: // parenthesised sub-chain with a loose operator
				operands[i] = c08Operand{"(" + at + " && y)", "(" + at + " && y)"}
			case 3: // not-prefixed application
				operands[i] = c08Operand{"not g " + at + " x", "not(g(" + at + ",x))"}
			case 4: // parenthesised sub-chain with a tight operator and an application inside
				operands[i] = c08Operand{"(g " + at + " x * y)", "(g(" + at + ",x) * y)"}
			case 5: // parenthesised low-high chain
				operands[i] = c08Operand{"(" + at + " - x * y)", "(" + at + " - (x * y))"}
			}
		}
		// line breaks before operators
		brk := make([]int, n)
		nb := 0
		for i := range brk {
			if n <= breaksUpTo && nb < maxBreaks {
				brk[i] = c.Choose(3) // 0 none, 1 break aligned with the statement, 2 break and deeper
				if brk[i] != 0 {
					nb++
				}
			}
		}
		var sb strings.Builder
		sb.WriteString(operands[0].src)
		for i, op := range ops {
			switch brk[i] {
			case 0:
				sb.WriteString(" ")
			case 1:
				sb.WriteString("\n  ")
			case 2:
				sb.WriteString("\n      ")
			}
			sb.WriteString(op + " " + operands[i+1].src)
		}
		trees := make([]string, len(operands))
		for i, o := range operands {
			trees[i] = o.tree
		}
		kind := "plain"
		if nonAtomic > 0 {
			kind = "forms"
		}
		if nb > 0 {
			kind += "+breaks"
		}
		return &c08Case{src: sb.String(), expected: c08ShuntingYard(trees, ops), nops: n, kind: kind}
	}
}

// long chains: beyond the completely enumerated lengths the chain is (a) periodic in every ordered pair of
// operators, at every length up to maxLen, and (b) every sequence of rank classes (one representative
// operator per class) of length 5..rankLen.  A parser that recurses per rank, keeps a fixed-size operator
// stack or re-associates after a number of operands behaves differently only on chains this long.
func c08LongDriver(maxLen, rankLen int) func(c *explore.Chooser) *c08Case {
	reps := []string{"&&", "=", "+", "*"}
	return func(c *explore.Chooser) *c08Case {
		var ops []string
		if c.Choose(2) == 0 {
			n := 5 + c.Choose(maxLen-4)
			o1, o2 := c08Ops[c.Choose(len(c08Ops))], c08Ops[c.Choose(len(c08Ops))]
			for i := 0; i < n; i++ {
				if i%2 == 0 {
					ops = append(ops, o1)
				} else {
					ops = append(ops, o2)
				}
			}
		} else {
			n := 5 + c.Choose(rankLen-4)
			for i := 0; i < n; i++ {
				ops = append(ops, reps[c.Choose(len(reps))])
			}
		}
		var sb strings.Builder
		trees := []string{c08Atoms[0]}
		sb.WriteString(c08Atoms[0])
		for i, op := range ops {
			sb.WriteString(" " + op + " " + c08Atoms[i+1])
			trees = append(trees, c08Atoms[i+1])
		}
		return &c08Case{src: sb.String(), expected: c08ShuntingYard(trees, ops), nops: len(ops), kind: "long"}
	}
}

// very long chains: 64..257 operators of one operator, or alternating two (a parser that bounds its left spine,
// switches representation or re-associates after N operands: seed C08f did at 100)
func c08VeryLongDriver(lengths []int) func(c *explore.Chooser) *c08Case {
	pairs := [][2]string{{"-", "*"}, {"+", "-"}, {"&&", "="}, {"/", "-"}, {"<", "+"}, {"||", "&&"}}
	return func(c *explore.Chooser) *c08Case {
		n := lengths[c.Choose(len(lengths))]
		var o1, o2 string
		if k := c.Choose(len(c08Ops) + len(pairs)); k < len(c08Ops) {
			o1, o2 = c08Ops[k], c08Ops[k]
		} else {
			o1, o2 = pairs[k-len(c08Ops)][0], pairs[k-len(c08Ops)][1]
		}
		if (o1 == "=" || o1 == "<>" || o2 == "=" || o2 == "<>") && n >= 90 {
			// = and <> draw a type variable each and fc stops at its stated capacity of 100 per function with a
			// diagnostic - a limit, not a grouping
			c.Skip("more than 90 equality operators in one function")
		}
		var ops []string
		var sb strings.Builder
		trees := []string{c08Atoms[0]}
		sb.WriteString(c08Atoms[0])
		for i := 0; i < n; i++ {
			op := o1
			if i%2 == 1 {
				op = o2
			}
			ops = append(ops, op)
			at := c08Atoms[(i+1)%len(c08Atoms)]
			sb.WriteString(" " + op + " " + at)
			trees = append(trees, at)
		}
		return &c08Case{src: sb.String(), expected: c08ShuntingYard(trees, ops), nops: len(ops), kind: "very-long"}
	}
}

// well-typed chains (after seed C08g): the chains above are over int parameters whatever the operator, fc does not
// type-check them - an emitter that looks at the inferred TYPE of a node (string concatenation, boolean
// connectives, integer arithmetic) prints those as ever.  Here every chain is well typed over string or int
// parameters: arithmetic chains (string: +) whose operands are atoms, literals, applications, parenthesised
// sub-chains (x op y), (x op (y op r)), ((x op y) op r); comparisons of two such chains; two comparisons joined by
// && or ||.  The grouping demanded is the same: the table, left association, explicit parentheses kept.
func c08TypedDriver(deep bool) func(c *explore.Chooser) *c08Case {
	return func(c *explore.Chooser) *c08Case {
		ty := c.Choose(2)
		pty := []string{"string", "int"}[ty]
		arith := [][]string{{"+"}, {"+", "-", "*", "/"}}[ty]
		small := [][]string{{"+"}, {"+", "*"}}[ty]
		next := 0
		atom := func() string {
			a := c08Atoms[next]
			next++
			return a
		}
		// operand forms; level 0 = all forms, 1 = atom or (x op y)
		operand := func(ops []string, level int) c08Operand {
			at := atom()
			nf := 7
			if level == 1 {
				nf = 2
			}
			switch c.Choose(nf) {
			case 1:
				op := ops[c.Choose(len(ops))]
				return c08Operand{"(" + at + " " + op + " y)", "(" + at + " " + op + " y)"}
			case 2:
				op := ops[c.Choose(len(ops))]
				return c08Operand{"(" + at + " " + op + " (y " + op + " r))", "(" + at + " " + op + " (y " + op + " r))"}
			case 3:
				op := ops[c.Choose(len(ops))]
				return c08Operand{"((" + at + " " + op + " y) " + op + " r)", "((" + at + " " + op + " y) " + op + " r)"}
			case 4:
				if ty == 0 {
					return c08Operand{`"lit"`, `"lit"`}
				}
				return c08Operand{"7", "7"}
			case 5:
				if ty == 0 {
					return c08Operand{"gs " + at + " x", "gs(" + at + ",x)"}
				}
				return c08Operand{"g " + at + " x", "g(" + at + ",x)"}
			case 6:
				// a parenthesised atom: the parentheses group nothing
				return c08Operand{"(" + at + ")", at}
			}
			return c08Operand{at, at}
		}
		chain := func(ops []string, maxOps, level int) ([]c08Operand, []string) {
			n := c.Choose(maxOps + 1)
			var os []string
			for i := 0; i < n; i++ {
				os = append(os, ops[c.Choose(len(ops))])
			}
			var xs []c08Operand
			for i := 0; i <= n; i++ {
				xs = append(xs, operand(ops, level))
			}
			return xs, os
		}
		var operands []c08Operand
		var ops []string
		kind := "typed-" + pty
		switch c.Choose(3) {
		case 0:
			mx := 2
			if deep {
				mx = 3
			}
			operands, ops = chain(arith, mx, 0)
			if len(ops) == 0 {
				c.Skip("no operator")
			}
		case 1:
			kind += "-comparison"
			a, ao := chain(small, 1, 1)
			cmp := []string{"=", "<>", "<", ">", "<=", ">="}[c.Choose(6)]
			b, bo := chain(small, 1, 1)
			operands = append(append(operands, a...), b...)
			ops = append(append(append(ops, ao...), cmp), bo...)
		case 2:
			kind += "-logic"
			cmps := []string{"=", "<>", "<", ">", "<=", ">="}
			a, _ := chain(small, 0, 1)
			c1 := cmps[c.Choose(6)]
			b, _ := chain(small, 0, 1)
			lop := []string{"&&", "||"}[c.Choose(2)]
			d, _ := chain(small, 0, 1)
			c2 := cmps[c.Choose(6)]
			e, _ := chain(small, 0, 1)
			// a = b && d < e is NOT what the table makes of this text (&& and < share a rank): the comparisons are
			// written in parentheses, as a program has to
			l := c08Operand{"(" + a[0].src + " " + c1 + " " + b[0].src + ")", "(" + a[0].tree + " " + c1 + " " + b[0].tree + ")"}
			r := c08Operand{"(" + d[0].src + " " + c2 + " " + e[0].src + ")", "(" + d[0].tree + " " + c2 + " " + e[0].tree + ")"}
			operands, ops = []c08Operand{l, r}, []string{lop}
		}
		var sb strings.Builder
		sb.WriteString(operands[0].src)
		trees := []string{operands[0].tree}
		for i, op := range ops {
			sb.WriteString(" " + op + " " + operands[i+1].src)
			trees = append(trees, operands[i+1].tree)
		}
		return &c08Case{src: sb.String(), expected: c08ShuntingYard(trees, ops), nops: len(ops) + strings.Count(sb.String(), "("), kind: kind, pty: pty}
	}
}

// spacing (after seed C08i: a `-` directly before a digit taken for the sign of a literal): arithmetic chains whose
// operators are written with blanks on both sides, on neither, only before or only after, between atoms and
// integer literals.  How an operator is spaced decides nothing.
func c08SpacingDriver(maxOps int) func(c *explore.Chooser) *c08Case {
	arith := []string{"+", "-", "*", "/"}
	return func(c *explore.Chooser) *c08Case {
		n := 1 + c.Choose(maxOps)
		ops := make([]string, n)
		sp := make([]int, n)
		for i := range ops {
			ops[i] = arith[c.Choose(len(arith))]
			sp[i] = c.Choose(4)
		}
		operands := make([]string, n+1)
		for i := range operands {
			operands[i] = c08Atoms[i]
			if c.Bool() {
				operands[i] = fmt.Sprint(i + 1)
			}
		}
		allDefault := true
		var sb strings.Builder
		sb.WriteString(operands[0])
		for i, op := range ops {
			if sp[i] != 0 {
				allDefault = false
			}
			sb.WriteString([]string{" " + op + " ", op, " " + op, op + " "}[sp[i]] + operands[i+1])
		}
		if allDefault {
			c.Skip("the default spacing is the plain family")
		}
		return &c08Case{src: sb.String(), expected: c08ShuntingYard(operands, ops), nops: n, kind: "spacing"}
	}
}

// pipe chains: e0 |> s1 |> ... with e0 a chain of <= 2 operators
func c08PipeDriver(maxE0Ops, maxStages int) func(c *explore.Chooser) *c08Case {
	return func(c *explore.Chooser) *c08Case {
		n := c.Choose(maxE0Ops + 1)
		ops := make([]string, n)
		for i := range ops {
			ops[i] = c08Ops[c.Choose(len(c08Ops))]
		}
		operands := make([]string, n+1)
		for i := range operands {
			operands[i] = c08Atoms[i]
		}
		ns := 1 + c.Choose(maxStages)
		src := operands[0]
		for i, op := range ops {
			src += " " + op + " " + operands[i+1]
		}
		allOps := append([]string{}, ops...)
		allOperands := append([]string{}, operands...)
		for s := 0; s < ns; s++ {
			form := c.Choose(3)
			brk := c.Choose(2)
			sep := " "
			if brk == 1 {
				sep = "\n  "
			}
			switch form {
			case 0:
				src += sep + "|> p1"
				allOperands = append(allOperands, "p1")
			case 1:
				src += sep + "|> p2 7"
				allOperands = append(allOperands, "part:p2(7)")
			case 2:
				src += sep + "|> p3 7 x"
				allOperands = append(allOperands, "part:p3(7,x)")
			}
			allOps = append(allOps, "|>")
		}
		return &c08Case{src: src, expected: c08ShuntingYard(allOperands, allOps), nops: n + ns, kind: "pipe"}
	}
}

const c08Prelude = `package main
import frt

let g (a:int) (b:int) = a
let gs (a:string) (b:string) = a
let p1 x = x
let p2 a b = b
let p3 a b c = c

`

func c08Render(cases []*c08Case) string {
	var sb strings.Builder
	sb.WriteString(c08Prelude)
	for i, cs := range cases {
		if cs.pty != "" {
			fmt.Fprintf(&sb, "let f%d %s =\n  %s\n\n", i, strings.ReplaceAll("(a:T) (b:T) (c:T) (d:T) (e:T) (f:T) (x:T) (y:T) (r:T)", "T", cs.pty), cs.src)
			continue
		}
		fmt.Fprintf(&sb, "let f%d (a:int) (b:int) (c:int) (d:int) (e:int) (f:int) (x:int) (y:int) (h:int) (i:int) (j:int) (k:int) (l:int) (m:int) (n:int) (o:int) (p:int) (q:int) (r:int) =\n  %s\n\n", i, cs.src)
	}
	return sb.String()
}

// goTree turns an emitted Go expression into the canonical tree form.
func c08GoTree(e ast.Expr) string {
	switch v := e.(type) {
	case *ast.ParenExpr:
		return c08GoTree(v.X)
	case *ast.Ident:
		return v.Name
	case *ast.BasicLit:
		return v.Value
	case *ast.BinaryExpr:
		op := v.Op.String()
		if op == "==" {
			op = "="
		} else if op == "!=" {
			op = "<>"
		}
		return "(" + c08GoTree(v.X) + " " + op + " " + c08GoTree(v.Y) + ")"
	case *ast.UnaryExpr:
		if v.Op == token.NOT {
			return "not(" + c08GoTree(v.X) + ")"
		}
	case *ast.CallExpr:
		name := c08FunName(v.Fun)
		args := make([]string, len(v.Args))
		for i, a := range v.Args {
			args[i] = c08GoTree(a)
		}
		switch name {
		case "frt.OpEqual":
			if len(args) == 2 {
				return "(" + args[0] + " = " + args[1] + ")"
			}
		case "frt.OpNotEqual":
			if len(args) == 2 {
				return "(" + args[0] + " <> " + args[1] + ")"
			}
		case "frt.OpNot":
			if len(args) == 1 {
				return "not(" + args[0] + ")"
			}
		case "frt.Pipe", "frt.PipeUnit":
			if len(args) == 2 {
				return "(" + args[0] + " |> " + args[1] + ")"
			}
		}
		return name + "(" + strings.Join(args, ",") + ")"
	case *ast.FuncLit:
		// closure of a partial application: func(_r0 T, ...) R { return f(args..., _r0, ...) }
		if len(v.Body.List) == 1 {
			var call ast.Expr
			switch s := v.Body.List[0].(type) {
			case *ast.ReturnStmt:
				if len(s.Results) == 1 {
					call = s.Results[0]
				}
			case *ast.ExprStmt:
				call = s.X
			}
			if ce, ok := call.(*ast.CallExpr); ok {
				np := 0
				for _, f := range v.Type.Params.List {
					np += len(f.Names)
				}
				if np <= len(ce.Args) {
					args := []string{}
					for _, a := range ce.Args[:len(ce.Args)-np] {
						args = append(args, c08GoTree(a))
					}
					// the trailing arguments must be exactly the closure parameters in order
					ok := true
					k := 0
					for _, f := range v.Type.Params.List {
						for _, nm := range f.Names {
							id, isId := ce.Args[len(ce.Args)-np+k].(*ast.Ident)
							if !isId || id.Name != nm.Name {
								ok = false
							}
							k++
						}
					}
					if ok {
						return "part:" + c08FunName(ce.Fun) + "(" + strings.Join(args, ",") + ")"
					}
				}
			}
		}
	}
	return fmt.Sprintf("?<%T>", e)
}

func c08FunName(e ast.Expr) string {
	switch v := e.(type) {
	case *ast.Ident:
		return v.Name
	case *ast.SelectorExpr:
		return c08FunName(v.X) + "." + v.Sel.Name
	case *ast.IndexExpr:
		return c08FunName(v.X)
	case *ast.IndexListExpr:
		return c08FunName(v.X)
	case *ast.ParenExpr:
		return c08FunName(v.X)
	}
	return fmt.Sprintf("?<%T>", e)
}

// parse gen file, return map function name -> canonical tree of the returned expression
func c08ParseGen(path string) (map[string]string, error) {
	fset := token.NewFileSet()
	f, err := parser.ParseFile(fset, path, nil, parser.SkipObjectResolution)
	if err != nil {
		return nil, err
	}
	res := map[string]string{}
	for _, d := range f.Decls {
		fd, ok := d.(*ast.FuncDecl)
		if !ok || fd.Body == nil {
			continue
		}
		if len(fd.Body.List) != 1 {
			res[fd.Name.Name] = fmt.Sprintf("?<body of %d statements>", len(fd.Body.List))
			continue
		}
		switch s := fd.Body.List[0].(type) {
		case *ast.ReturnStmt:
			if len(s.Results) == 1 {
				res[fd.Name.Name] = c08GoTree(s.Results[0])
			}
		case *ast.ExprStmt:
			res[fd.Name.Name] = c08GoTree(s.X)
		}
	}
	return res, nil
}

func checkC08(c *core.Ctx) {
	sc, err := impl.New(c.Repo)
	if err != nil {
		panic(err)
	}
	defer sc.Close()
	fc, err := sc.BuildFC()
	if err != nil {
		panic(err)
	}
	c.Assumption("the grouping of the emitted Go is read with go/parser: every binary node is parenthesised by the emitter or parsed by Go's own precedence, frt.OpEqual/OpNotEqual/OpNot/Pipe calls are the operator nodes")
	c.Set("rule", "cases are enumerated by the choice-tree explorer (number of operators, each operator, operand form per position, line break per operator; pipe stages); distinct = distinct chain source text; non-trivial = at least 2 operators, so that grouping is actually decided")
	c.Assumption("operands are atoms a..f, applications 'g a x', parenthesised sub-chains and 'not g a x'; chains are transpiled only (fc does not type-check), not compiled")

	// enumerate all cases through the explorer
	var cases []*c08Case
	var st explore.Stats
	collect := func(drv func(c *explore.Chooser) *c08Case) {
		var cur *c08Case
		s := explore.Explore(-1, func(ch *explore.Chooser) { cur = drv(ch) }, func(ch *explore.Chooser) bool {
			cur.choices = append([]int{}, ch.Choices...)
			cases = append(cases, cur)
			return true
		})
		st.Add(s)
	}
	if c.ReplayFile != "" {
		c08Replay(c, fc, sc)
		return
	}
	if c.Thorough() {
		collect(c08Driver(4, 3, 4, 2, 2)) // chains <= 4 ops; forms on <= 3 ops (<= 2 non-atomic); <= 2 breaks on all
		collect(c08PipeDriver(2, 3))
		collect(c08LongDriver(16, 8))
		collect(c08VeryLongDriver([]int{64, 99, 100, 101, 102, 103, 130, 257, 513, 1025}))
		collect(c08TypedDriver(true))
		collect(c08SpacingDriver(4))
	} else {
		collect(c08Driver(3, 2, 3, 2, 1)) // chains <= 3 ops; forms on <= 2 ops; <= 1 break
		collect(c08PipeDriver(1, 2))
		collect(c08LongDriver(12, 6))
		collect(c08VeryLongDriver([]int{64, 100, 101, 102, 103, 130, 257}))
		collect(c08TypedDriver(false))
		collect(c08SpacingDriver(3))
	}
	c.Set("explorer", map[string]any{"executions": st.Executions, "max_depth": st.MaxDepth, "bound": "none (complete enumeration of the bounded space)"})
	c.Count(0, st.States, st.Transitions, 0)

	// batches of 500 functions per file
	const per = 500
	type batch struct {
		idx   int
		cases []*c08Case
	}
	var batches []batch
	for i := 0; i < len(cases); i += per {
		j := i + per
		if j > len(cases) {
			j = len(cases)
		}
		batches = append(batches, batch{len(batches), cases[i:j]})
	}
	var wg sync.WaitGroup
	ch := make(chan batch)
	for w := 0; w < c.Workers; w++ {
		wg.Add(1)
		go func() {
			defer wg.Done()
			for b := range ch {
				if c.Expired() || c.TooManyViolations() {
					continue
				}
				c08RunBatch(c, fc, sc, b.cases)
			}
		}()
	}
	for _, b := range batches {
		ch <- b
	}
	close(ch)
	wg.Wait()
}

func c08RunBatch(c *core.Ctx, fc string, sc *impl.Scratch, cases []*c08Case) {
	dir := sc.TempDir("c08_")
	defer os.RemoveAll(dir)
	src := c08Render(cases)
	os.WriteFile(filepath.Join(dir, "t.fo"), []byte(src), 0o644)
	r := impl.RunWithRetry(dir, 60*time.Second, 180*time.Second, fc, "t.fo")
	if r.Exit != 0 || r.TimedOut {
		// isolate: run each case alone
		if len(cases) > 1 {
			for _, cs := range cases {
				c08RunBatch(c, fc, sc, []*c08Case{cs})
			}
			return
		}
		cs := cases[0]
		c.Count(1, 0, 0, 1)
		c.Outcome("rejected")
		c.Violation("C08:chain-rejected", fmt.Sprintf("fc rejected the chain %q: %s", cs.src, strings.TrimSpace(r.Out())),
			map[string]any{"choices": cs.choices, "kind": cs.kind, "input": map[string]string{"t.fo": src}, "expected": cs.expected, "observed": "exit " + fmt.Sprint(r.Exit) + " " + r.Out()})
		return
	}
	trees, err := c08ParseGen(filepath.Join(dir, "gen_t.go"))
	if err != nil {
		if len(cases) > 1 {
			for _, cs := range cases {
				c08RunBatch(c, fc, sc, []*c08Case{cs})
			}
			return
		}
		cs := cases[0]
		c.Count(1, 0, 0, 1)
		c.Violation("C08:emitted-go-unparsable", fmt.Sprintf("emitted Go for %q does not parse: %v", cs.src, err),
			map[string]any{"choices": cs.choices, "input": map[string]string{"t.fo": src}, "expected": cs.expected, "observed": err.Error()})
		return
	}
	for i, cs := range cases {
		got := trees[fmt.Sprintf("f%d", i)]
		c.Count(1, 0, 0, 1)
		c.Hist("by_kind", cs.kind, 1)
		c.Hist("by_operators", fmt.Sprint(cs.nops), 1)
		c.DistinctNT(cs.src, cs.nops >= 2)
		c.Sample(map[string]string{"chain": cs.src, "grouping": cs.expected})
		if got == cs.expected {
			c.Outcome("agree")
			continue
		}
		c.Outcome("disagree")
		sig := "C08:grouping:" + cs.kind
		single := c08Render([]*c08Case{cs})
		c.Violation(sig, fmt.Sprintf("chain %q: expected grouping %s, emitted %s", cs.src, cs.expected, got),
			map[string]any{"choices": cs.choices, "kind": cs.kind, "input": map[string]string{"t.fo": single}, "expected": cs.expected, "observed": got})
	}
}

func c08Replay(c *core.Ctx, fc string, sc *impl.Scratch) {
	rp, err := loadReplay(c.ReplayFile)
	if err != nil {
		panic(err)
	}
	dir := sc.TempDir("c08r_")
	src := rp.Input["t.fo"]
	os.WriteFile(filepath.Join(dir, "t.fo"), []byte(src), 0o644)
	r := impl.Run(dir, 60*time.Second, "", fc, "t.fo")
	fmt.Printf("fc exit=%d\n%s", r.Exit, r.Out())
	trees, err := c08ParseGen(filepath.Join(dir, "gen_t.go"))
	got := ""
	if err == nil {
		got = trees["f0"]
	} else {
		got = err.Error()
	}
	fmt.Printf("expected: %s\nobserved: %s\n", rp.Expected, got)
	c.Count(1, 1, 1, 1)
	c.Sample(src)
	if got != rp.Expected {
		c.Violation("C08:replay", "replayed case still disagrees", map[string]any{"input": rp.Input, "expected": rp.Expected, "observed": got})
	}
}
