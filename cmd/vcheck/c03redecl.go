package main

import (
	"fmt"
	"strings"

	"verif/internal/explore"
)

// c03RedeclDriver: a package_info function declared AGAIN with another arity - the documented way to call a
// variadic Go function (filepath.Join with two, then with three arguments) - with a reference between the two
// declarations and one after the second.  Every call follows the declaration in force where it is written (after
// seed C03j: the reference built at the first use and kept for the run).
func c03RedeclDriver() func(c *explore.Chooser, k int) *c03Case {
	return func(c *explore.Chooser, k int) *c03Case {
		cs := &c03Case{kind: "foreign-call-redeclared"}
		named := c.Bool()
		pkg, q := "_", ""
		if named {
			pkg, q = "extp", "extp."
		}
		first := 2 + c.Choose(2)  // arity of the first declaration
		second := 2 + c.Choose(3) // arity of the second
		if first == second {
			c.Skip("same arity")
		}
		useBetween := c.Bool()
		sig := func(n int) string { return strings.Repeat("string->", n) + "string" }
		args := func(n int) string {
			var a []string
			for i := 0; i < n; i++ {
				a = append(a, fmt.Sprintf("\"a%d\"", i))
			}
			return strings.Join(a, " ")
		}
		want := func(n int) string {
			var a []string
			for i := 0; i < n; i++ {
				a = append(a, fmt.Sprintf("a%d", i))
			}
			return strings.Join(a, "/")
		}
		fn := fmt.Sprintf("Jn%d", k)
		var fo strings.Builder
		fmt.Fprintf(&fo, "package_info %s =\n  let %s: %s\n\n", pkg, fn, sig(first))
		if useBetween {
			fmt.Fprintf(&fo, "let ja%d () =\n  %s%s %s |> frt.Println\n\n", k, q, fn, args(first))
			cs.want = append(cs.want, want(first))
		} else {
			fmt.Fprintf(&fo, "let ja%d () =\n  frt.Println \"-\"\n\n", k)
			cs.want = append(cs.want, "-")
		}
		fmt.Fprintf(&fo, "package_info %s =\n  let %s: %s\n\n", pkg, fn, sig(second))
		fmt.Fprintf(&fo, "let jb%d () =\n  %s%s %s |> frt.Println\n\n", k, q, fn, args(second))
		cs.want = append(cs.want, want(second))
		impl := fmt.Sprintf("func %s(ss ...string) string {\n\tr := \"\"\n\tfor i, s := range ss {\n\t\tif i > 0 {\n\t\t\tr += \"/\"\n\t\t}\n\t\tr += s\n\t}\n\treturn r\n}\n", fn)
		if named {
			cs.goDecls = "EXTP:" + impl
		} else {
			cs.goDecls = impl
		}
		cs.fo = fo.String()
		cs.client = fmt.Sprintf("\tja%d()\n\tjb%d()\n", k, k)
		return cs
	}
}
