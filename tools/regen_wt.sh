#!/bin/sh
# tools/regen_wt.sh <worktree> -- regenerate fc/gen_*.go of a scratch worktree (a seed being rebased onto a repaired tree)
# from the worktree's .fo files with the fc built from /repo's checked-in gen files (the recipe of fc/fc_all.sh + gofmt).
# Conflicted gen files are first reset to HEAD.
set -e
export GOFLAGS=-mod=mod GOPROXY=off GOSUMDB=off GOTOOLCHAIN=local
W=$1
T=$(mktemp -d /tmp/regenwt.XXXXXX)
trap 'rm -rf "$T"' EXIT
rsync -a --exclude .git --exclude /fc/fc /repo/ "$T/r/"
(cd "$T/r/fc" && go build -o "$T/fc1" .)
cd "$W/fc"
for f in $(git diff --name-only --diff-filter=U -- . | sed 's#^fc/##'); do case $f in gen_*.go) git checkout HEAD -- "$f";; esac; done
ARGS=$(grep '^./fc ' fc_all.sh | sed 's/^.\/fc //; s#\$PKG_INFO#../pkg/pkg_all.foi#')
"$T/fc1" $ARGS >/dev/null
gofmt -w gen_*.go
go build -o "$T/fc2" . && echo "fc builds"
go test -vet=off -count=1 ./... | tail -1
git -C "$W" status --short | head
