#!/bin/sh
# tools/run_all.sh [quick|thorough] -- runs every registered check once and prints exit status and wall time
tier=${1:-quick}
cd "$(dirname "$0")/.."
for id in $(python3 -c "import json;print(' '.join(c['property_id'] for c in json.load(open('MANIFEST.json'))['checks']))"); do
  s=$(date +%s)
  ./check.sh $id $tier > /tmp/run_all_$id.log 2>&1
  code=$?
  e=$(date +%s)
  echo "$id exit=$code $((e-s))s $(grep -c '^VIOLATION' /tmp/run_all_$id.log) violations; $(grep "^$id $tier:" /tmp/run_all_$id.log | cut -c1-160)"
done
