#!/usr/bin/env python3
"""tools/seed_note.py <seed-id> <property> <what the change is> -- <what it needs to manifest>"""
import json,sys
sid,prop=sys.argv[1],sys.argv[2]
rest=' '.join(sys.argv[3:])
what,_,needs=rest.partition(' -- ')
p='/verif/seeded/%s/meta.json'%sid
m=json.load(open(p))
m.update({"breaks_property":prop,"change":what,"needs_to_manifest":needs})
json.dump(m,open(p,'w'),indent=1)
print("ok",sid)
