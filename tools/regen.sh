#!/bin/sh
# tools/regen.sh -- regenerate fc/gen_*.go (and the other generated artefacts) after an edit of a .fo file in /repo.
# Workflow (DESIGN.md 1.6): build fc from the checked-in gen_*.go in a scratch copy, run the recipes, gofmt, rebuild from the
# regenerated files, run again and require byte-identical output; then copy the changed generated files back to /repo.
set -e
export GOFLAGS=-mod=mod GOPROXY=off GOSUMDB=off GOTOOLCHAIN=local
T=$(mktemp -d /tmp/regen.XXXXXX)
trap 'rm -rf "$T"' EXIT
rsync -a --exclude .git --exclude /fc/fc /repo/ "$T/r/"
cd "$T/r/fc"
go build -o "$T/fc1" .
ARGS=$(grep '^./fc ' fc_all.sh | sed 's/^.\/fc //; s#\$PKG_INFO#../pkg/pkg_all.foi#')
"$T/fc1" $ARGS >/dev/null
gofmt -w gen_*.go
go build -o "$T/fc2" .
mkdir "$T/g1"; cp gen_*.go "$T/g1/"
"$T/fc2" $ARGS >/dev/null
gofmt -w gen_*.go
for f in gen_*.go; do cmp "$f" "$T/g1/$f" || { echo "NOT A FIXED POINT: $f"; exit 1; }; done
go test -vet=off -count=1 ./... | tail -1
for f in gen_*.go; do cmp -s "$f" "/repo/fc/$f" || { echo "updated fc/$f"; cp "$f" "/repo/fc/$f"; }; done
# tool and samples
cd "$T/r/cmd/build_sample_md" && "$T/fc2" ../../pkg/pkg_all.foi build_sample_md.fo >/dev/null && gofmt -w gen_build_sample_md.go && { cmp -s gen_build_sample_md.go /repo/cmd/build_sample_md/gen_build_sample_md.go || { echo "updated cmd/build_sample_md/gen_build_sample_md.go"; cp gen_build_sample_md.go /repo/cmd/build_sample_md/; }; }
cd "$T/r/samples" && for s in $(sed 's/ .*$//' filelist.txt); do "$T/fc2" ../pkg/pkg_all.foi $s >/dev/null; done && gofmt -w gen_*.go && for f in gen_*.go; do cmp -s "$f" "/repo/samples/$f" || { echo "updated samples/$f"; cp "$f" "/repo/samples/$f"; }; done
echo regen done
