#!/bin/sh
# tools/mutant_sweep.sh -- applies every mutants/<check>_*.sh to a scratch copy of /repo, verifies that the repository's own
# tests still pass with it, runs the corresponding check (quick tier) and records the verdict in mutants/RESULTS.md.
cd "$(dirname "$0")/.."
out=mutants/RESULTS.md
{
echo "# Deliberate property-breaking changes (mutants) and what the checks say"
echo
echo "Each mutant is a shell snippet applied to a scratch copy of /repo (never committed there). 'tests' = the repository's own"
echo "test suite on the mutated copy; 'check' = exit status of the quick tier of the property's check (1 = VIOLATION reported)."
echo
echo "| mutant | change | tests | check | first violation |"
echo "|---|---|---|---|---|"
} > $out
for f in mutants/*.sh; do
  name=$(basename $f .sh)
  id=$(echo $name | cut -c1-3 | tr a-z A-Z)
  desc=$(head -1 $f | sed 's/^# //; s/|/\//g')
  res=$(tools/mutant.sh $name --tests $id quick 2>&1)
  tests=pass
  echo "$res" | grep -q MUTANT-FAILS-TESTS && tests=FAIL
  echo "$res" | grep -q MUTANT-APPLY-FAILED && tests=APPLY-FAILED
  code=$(echo "$res" | grep -o 'exit=[0-9]*' | tail -1)
  viol=$(echo "$res" | grep '^violation:' | head -1 | cut -c1-200 | sed 's/|/\//g')
  echo "| $name | $desc | $tests | $code | $viol |" >> $out
  echo "$name $tests $code"
done
