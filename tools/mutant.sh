#!/bin/sh
# tools/mutant.sh <mutant-name> [--tests] <check-id> [tier]
# Applies /verif/mutants/<name>.sh (a shell snippet run with cwd = scratch copy of /repo) to a scratch copy,
# optionally runs the repository's test suite on it, then runs the check against the copy.
# Evidence of mutant runs goes to a scratch directory, never to /verif/evidence.
set -e
name=$1; shift
tests=0
if [ "$1" = "--tests" ]; then tests=1; shift; fi
id=$1; tier=${2:-quick}
export GOFLAGS=-mod=mod GOPROXY=off GOSUMDB=off GOTOOLCHAIN=local
M=$(mktemp -d /tmp/mutant.XXXXXX)
trap 'rm -rf "$M"' EXIT
rsync -a --exclude .git --exclude /fc/fc --exclude /cmd/build_sample_md/build_sample_md /repo/ "$M/repo/"
(cd "$M/repo" && sh -e /verif/mutants/$name.sh) || { echo "MUTANT-APPLY-FAILED $name"; exit 3; }
if [ $tests = 1 ]; then
  for m in cmd/build_sample_md fc pkg/buf pkg/dict pkg/frt pkg/slice pkg/strings pkg/sys tinyfo; do
    (cd "$M/repo/$m" && go test -vet=off -count=1 ./... >"$M/test.log" 2>&1) || { echo "MUTANT-FAILS-TESTS $name in $m"; tail -20 "$M/test.log"; exit 4; }
  done
  echo "mutant $name: repository tests pass"
fi
mkdir -p "$M/ev"
set +e
VERIF_REPO="$M/repo" VERIF_EVIDENCE_DIR="$M/ev" VERIF_REPLAY_DIR="$M/replays" /verif/check.sh $id $tier > "$M/out.log" 2>&1
code=$?
grep -E "^(VIOLATION|KNOWN-FINDING|violation:|C[0-9]+ (quick|thorough):|HARNESS)" "$M/out.log" | cut -c1-400 | head -12
echo "mutant=$name check=$id tier=$tier exit=$code"
