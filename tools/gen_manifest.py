#!/usr/bin/env python3
"""Regenerates /verif/MANIFEST.json from the table below (kept here so the manifest stays valid)."""
import json, subprocess

CHECKS = {
 # id: (technique, level text, level_note, design_ref)
 "C08": ("bounded-exhaustive enumeration of operator chains (choice-tree explorer) vs. an independent shunting-yard reference parse",
         "Every chain of <=3 (quick) / <=4 (thorough) operators over the 12 non-pipe operators, with operand forms (application, parenthesised sub-chain, not-prefixed application), line breaks before operators and pipe chains, is transpiled by the fc built from the working tree; the grouping of the emitted Go (go/parser) must equal the grouping an independent table-driven parser computes from the published table. Exhaustive within the bound, no sampling.",
         "Trusts go/parser to read the emitted expression and the table as written in the property statement; says nothing about chains longer than the bound.",
         "DESIGN.md C08"),
 "C09": ("bounded-exhaustive enumeration of unions x arm selections x arm forms x hosting positions (choice-tree explorer), one fc process per match; accepted programs compiled and run on every constructor value",
         "Every union with 1..4 (quick) / 1..5 (thorough) cases x every payload mask x every non-empty ordered selection of distinct arms x pattern form per payload arm x with/without default (x 7 hosting positions for n<=3) is given to the fc built from the working tree; accept/reject, absence of output on reject and the named uncovered case must equal a reference set computation. Two-match histories (two matches on the same union in one invocation: two functions, nested, two files; n<=3, all arm subsets) expose state that survives from one exhaustiveness check to the next. Accepted programs with n<=3 are also compiled and executed on every constructor value (never-reached panic must not fire, the constructor's arm must run).",
         "Default-only matches, misplaced default arms, duplicate arms and foreign case names are outside the space. Diagnostic wording is not matched, only the presence of an uncovered case's name.",
         "DESIGN.md C09"),
 "C15": ("bounded-exhaustive enumeration of type expressions (choice-tree explorer over constructors, fuel splits, one redundant parenthesis, leaf rotation) in 5 syntactic positions vs. a reference type printer",
         "Every type expression with <=2 constructors (quick: plus k=3 with minimal parentheses; thorough: k<=3 with every single redundant pair of parentheses and k=4 minimal) over slices, 2/3-tuples, arrows (incl. unit argument/result, right-nesting through parentheses), external generics ext.Box<T>/ext.Pair<K,V>, user generic G<T>, written in each of the 5 positions, is transpiled by the fc built from the working tree; the Go type text found at the corresponding place of gen_*.go (go/parser, normalised with go/types.ExprString) must equal the reference printer's text.",
         "Leaves rotate over the base types instead of the full product; () only as sole parameter or result; emitted files are parsed, not compiled.",
         "DESIGN.md C15"),
 "C04": ("complete enumeration of the finite artefact space (35 artefacts x 2 compiler generations) with byte comparison",
         "The recipes are read from the working tree (fc/fc_all.sh, samples/myfc.sh + filelist.txt, cmd/build_sample_md/fc.sh). Generation 1 = fc built from the checked-in gen_*.go; its gofmt'ed output must equal every checked-in generated file byte for byte, the rebuilt build_sample_md must reproduce samples/README.md, and generation 2 (compiler built from generation 1's raw output + wrapper.go) must reproduce generation 1's raw output exactly. The space is finite and is enumerated completely; thorough repeats both generations 3 times.",
         "gofmt of the installed go1.23.5; unlisted samples/gen_*.go are reported, not judged.",
         "DESIGN.md C04"),
 "C18": ("bounded-exhaustive enumeration of list files x sample contents (choice-tree explorer), one tool process per case, vs. a reference renderer calibrated on the checked-in README",
         "Every list file with 0..2 (quick) / 0..3 (thorough) entries x name kind x 5 title forms x 5 file contents or a missing file x 5 blank-line patterns x final newline is given to the build_sample_md built from the working tree in a fresh directory; x 3 states of the directory before the run (no README.md, a short old one, an old one longer than any rendering); README.md must equal the reference rendering (byte-exact while the reference renderer reproduces the repository's own samples/README.md, structural otherwise, nothing after the last section); an unreadable file must give a non-zero exit and leave README.md absent or untouched.",
         "The fixed header is learnt from the checked-in samples/README.md.",
         "DESIGN.md C18"),
 "C13": ("bounded-exhaustive enumeration of inputs (choice-tree explorer, in-process driver linked against the working tree's pkg/slice) vs. an independent recursive cons-list model",
         "Every []int over {0,1,2} and []string over {\"\",\"a\",\"b\"} of length 0..5 (quick) / 0..7 (thorough) x every in-range index and count x a fixed family of total function arguments; all pairs of slices (Append, Zip) and slices of slices (Concat, Collect); plus the long-slice family that crosses every size at which an implementation may switch algorithm: length 6..20 (thorough 66) x ascending / descending / zigzag pairwise-distinct values x no repetition or one repetition at every pair of positions, Append/Zip at every pair of lengths up to 34 (80), Concat/Collect over 4..7 (10) chunks of length 0, 1 or 3 in every pattern; each of the 29 functions of pkg/slice is compared with a recursive list model (Sort/SortBy: ascending permutation; Map/Iter call order; Forall/Forany/TryFind scan order and early exit).",
         "Out-of-domain calls are not made; stability of Sort is not required; nil-ness of results is not compared (C10 covers equality of differently produced slices).",
         "DESIGN.md C13"),
 "C14": ("explicit-state breadth-first search over dictionary operation sequences vs. a model map, plus bounded-exhaustive argument enumeration for strings/buf/frt (in-process driver linked against the working tree's pkg/*)",
         "dict: BFS over Add on 3 keys x 2 values until the state space (27 map contents) is closed, all observers checked twice in every state, plus every non-deduplicated history up to depth 4 (quick) / 6 (thorough) and ToDict of the same pair lists; strings: every argument of length <= 3 / 4 over {a,b,','} x every affix/separator of length <= 2, SplitN counts -1..3, vs. Go's strings with the documented argument order; buf: all write sequences of <= 3 / 4 strings with interleaved reads; frt: Pipe/PipeUnit/IfElse/IfElseUnit/IfOnly with counting thunks, tuple round trips, Sprintf1/2, Printf1/Println (captured), SInterP over every Go basic kind at boundary values; pkg_all.foi conformance: every function declared in the working tree's pkg/pkg_all.foi is called once from Folang with arguments of the declared types and the result used at the declared type, and the batch must compile against the real Go packages.",
         "Go's strings/fmt are the oracles; the display form for SInterP is %d / %f / the string / %v as the statement says.",
         "DESIGN.md C14"),
 "C12": ("explicit-state breadth-first search over histories of slice-package calls on the real slices (alias-group states, canonicalised; successor = replay + one call)",
         "Roots are literals of length 0..3, slice.New, nil and three literals with repeated elements. States are alias groups of real slice values sharing one backing array (windows read with unsafe, canonicalised by sorted windows + rank pattern of the covered cells); transitions apply every slice-package function to every member, binary functions with every other member or a fresh literal in both positions, Take/Skip with every count; after every transition every live value and every operand must still have the contents it had when produced. Depth 4 (quick) / 6 (thorough, capped at 2e6 states; the cap and the depth completed are reported).",
         "One backing array per state (reduction argument in DESIGN.md C12); element type int; group size capped at 6/7 members (pruned transitions are counted).",
         "DESIGN.md C12"),
 "C10": ("bounded-exhaustive enumeration of types (choice-tree explorer) x complete small value domains x all ordered pairs, executed through transpiled `=`/`<>` functions and frt.OpEqual, vs. equality of canonical value descriptions",
         "Types to nesting depth 2 (quick) / 3 (thorough) plus a selective extra level (containers of unions holding slices) over pairs, triples, records with upper- and lower-case fields, unions, a generic union and slices; record/union types and the functions `a = b`, `a <> b` are emitted by the fc built from the working tree and compiled into the driver; every slice value is built through every producer path (literal, slice.New, nil, Take, Skip, Tail, PopLast, Filter, Map, Append, PushLast, PushHead). For all ordered pairs of values of a type: no panic, = agrees with equality of the canonical descriptions, <> is its negation; transitivity asserted directly on small domains.",
         "Composite types take their component values from the first 2-3 values of the component domains; floats, functions, dictionaries and buffers are not first-order values of the statement.",
         "DESIGN.md C10"),
 "C16": ("deviation-bounded exhaustive mutation of seed programs (choice-tree explorer, every combination of <= d mutation operators), an ill-typed definition grammar and complete enumeration of fault patterns over argument lists; one fc process per case, outcome classification",
         "For the 40 smallest seeds (quick) / all ~125 seeds (thorough: samples, the programs embedded in fc's tests, boundary seeds) every single mutation - del/dup/swap of every token, 18 insertions at every token boundary, 5 re-indentations of every line, truncation at every byte offset, final newline removed - and (thorough) every pair of mutations on the smallest seeds is given to the fc built from the working tree; 30 ill-typed / self-referential definitions (thorough: all ordered pairs of them) plus a systematic grammar of 5145 definitions relating nestings of two un-annotated parameters (cyclic types); every fault pattern {ok, missing input, input is a directory, destination is a directory, destination is a symlink to /dev/full, syntax error, destination holds a longer stale output} over argument lists of 1..3 files. Each run must end as `ok` (exit 0, every gen_X.go rewritten and complete) or `rejected` (non-zero, diagnostic, nothing for the offending file, earlier outputs complete); hang, Go runtime fatal error, incomplete or dirty output violate.",
         "Timeout 10 s with a 30 s re-run (normal runs take milliseconds); running as root, so permission faults are replaced by directory / /dev/full destinations.",
         "DESIGN.md C16"),
 "C05": ("deviation-bounded exhaustive exploration of dictionary-enumeration schedules (controlled scheduler in pkg/dict under build tag verif; stateless explorer with strict replay across the process boundary), plus a free-running repeated-run cross-check",
         "For each of ~24 (quick) / ~27 (thorough) programs chosen so that every dict.Keys/Values/KVs call site sees >= 2 entries (records sharing field names, non-exhaustive matches, several package_info blocks, inference chains and stars, multi-file invocations, rejected programs) every schedule with at most 1 (quick) / 2 (thorough) non-identity permutations - all n! for n <= 4, else identity/reverse/move-to-front/move-to-back - is executed on the fc built with -tags verif; output files (bytes) and exit status must equal those of the all-identity schedule. The unhooked binary is also run 20 times per program and must reproduce the same result; the sources are scanned for map iteration outside the hooked functions.",
         "Menu completeness for n > 4 is argued, not enumerated; diagnostics text is not judged.",
         "DESIGN.md C05"),
 "C07": ("exhaustive enumeration of definition histories and file cuts (choice-tree explorer over dependency-respecting sequences), one fc process per history, per-definition comparison with the minimal history",
         "From a pool of 20 definitions (records, generic record and three users at two instantiations, union, `type ... and ...` group, package_info, top-level variables incl. one initialised by a match and one by a lambda, functions with match temporaries / _.Field lambdas / many type variables, generic function and user, binders that reuse top-level names) every dependency-respecting sequence of up to 4 (quick) / 5 (thorough) distinct definitions x every cut into at most 2 / 3 files of one invocation x a .foi variant for declaration-only first files is transpiled by the fc built from the working tree; for every definition the text of the Go declarations it owns (go/parser), with _vN numbers dropped, must equal its text in the minimal history, and exactly gen_X.go per X.fo argument (none for .foi) must be written. A long-history phase puts 60 and 130 renamed copies of one definition kind (type-and groups with forward references, 8-type-variable functions, match temporaries, package_info blocks, generic instantiations) before the whole pool, in one file and in an earlier file: invocation-wide counters, allocators (limit 100) and caches show only there.",
         "Temporaries are compared modulo any numbering (see DESIGN.md C07 for why first-occurrence renumbering would be too strict).",
         "DESIGN.md C07"),
 "C01": ("bounded-exhaustive type-directed enumeration of programs (choice-tree explorer over productions, fuel splits and leaves), each transpiled by fc, compiled with go build and executed; stdout compared with a reference evaluator (strict, left-to-right, lexically scoped big-step semantics)",
         "Every well-typed program with at most 2 constructs over the full alphabet (about 75 productions: arithmetic, comparison, equality on 5 types, && || not, if/else, if-only, elif, union match in 3 variants, generic-union match, string match, let over 7 binder types, destructuring, local functions, lambdas, full and partial application, pipes, tuples, slices and 15 slice functions, records, constructors, interpolation, sequencing, lifted top-level functions with and without annotations) in every root position, plus all programs with exactly 3 constructs over {if-else, if-only, say} and over the 10 closure constructs; thorough adds exactly 3 constructs over if/match nesting, the control-flow constructs and the 19 control-flow/closure constructs, and exactly 4 over the closure core (plans run smallest first; evidence lists the plans completed). Traced leaves make order and multiplicity of every evaluation visible in stdout, bool/union leaves steer both branches of every if/match/&&/||. Programs are batched 300 per go build; a verdict is only issued on a single-program re-run.",
         "Programs larger than the bound and constructs outside the alphabet are not covered; the reference evaluator is trusted after cross-validation against fc and tinyfo (C17). Known findings: partial-application argument re-evaluation (attributed by a defect model), the dangling-else shape (attributed by a shape predicate on the program text plus failure class) and two corpus programs.",
         "DESIGN.md C01"),
 "C17": ("bounded-exhaustive type-directed enumeration of programs of the tinyfo profile (same explorer and generator as C01), each accepted program transpiled by tinyfo and by fc, compiled and executed; three-way comparison with the reference evaluator",
         "Every program with at most 2 (quick) / 3 (thorough) constructs of the tinyfo profile (annotated functions, + -, comparisons, && || not, if/elif/else, records and unions with match, slices, pairs and destructuring, pipes, partial application, package_info calls) is first given to tinyfo alone - a rejected program is outside the quantifier and only counted, per construct - and every accepted program is compiled and run from tinyfo's Go and from fc's Go: both stdouts must equal the reference evaluator's output.",
         "A reduced .foi (tinyfo cannot read pkg_all.foi); slice literals in argument position are parenthesised, the form tinyfo accepts. The shared partial-application finding is attributed by the defect model.",
         "DESIGN.md C17"),
 "C06": ("deviation-bounded exhaustive exploration of layouts (the printer's layout decisions are the choice points of the explorer) over exhaustively generated programs and the boundary corpus; one fc process per layout; metamorphic oracle (bytes of gen_*.go equal those of the default layout)",
         "Programs: 6 sets of type declarations / package_info blocks (fields and cases one per line, blank lines and comments between them, case column), every term with 1 construct over the full alphabet, every term with 2 constructs over the core (quick) / all (thorough) block-owning constructs, and the hand-kept corpus (incl. inner match / string match / if-only as the last thing of an arm body directly before the outer default arm or next arm). Layout points: block indentation +2/+1/+4/+7, arm column +0/+1/+2, 0-2 blank lines and 5 kinds of own-line comments before every statement, arm and definition, 5 kinds of line ends, if on one or several lines, let right-hand side / arm body / lambda body / function body on the same or next line, a break before each |> at 3 columns, 3 ends of file. Every layout with at most 1 deviation (thorough: 2 on the corpus and the 1-construct programs) must give byte-identical output and exit 0. Converse clause: 4 pairs of programs differing only in the block a statement belongs to must each be stable and must differ from each other.",
         "That the default layout means what the abstract program says is C01's job on the same generator. Omitting the final newline, breaking a line after an operator, tokens after a multi-line comment on its last line and tab indentation are not in the layout grammar.",
         "DESIGN.md C06"),
 "C11": ("bounded-exhaustive enumeration of literal bodies x 4 literal forms (choice-tree explorer), each literal transpiled, compiled and printed; compared with a per-form specification function",
         "Every source body of length <= 2 (quick) / 3 (thorough) over the special alphabet { \\ \" ` { } % $ n t newline x }, every single character of printable ASCII, newline, tab and 3 multi-byte characters embedded as a<c>b raw and escaped, and 1-2 holes of int/string/bool variables between 17 texts (incl. %, %d, %%, \\{, \\}, \\\\, C:\\\\, \\t), each alone on its line and followed on the same line by + \"Z\" (the token must end where the literal ends), in each of the forms \"...\", `...`, $\"...\", $`...`; the printed text must equal what the specification function derives from the source body.",
         "Bodies the statement does not define are out of domain (counted). The hole values travel as arguments; their own text (a%b{c}) is part of the expectation.",
         "DESIGN.md C11"),
 "C02": ("bounded-exhaustive enumeration of function definitions x every subset of erased parameter annotations (choice-tree explorer and the C01 generator with parameters as leaves); emitted signatures compared with an independent Hindley-Milner inference; the emitted package compiled with go build",
         "Every function with up to 2 annotated parameters over 9 parameter types, 9 result types and every body with at most 1 construct of the inference alphabet that uses all parameters (thorough: 2 constructs with 1 parameter, 1 construct with up to 3 parameters), each with every subset of its annotations erased. Oracles: the emitted func signature equals the reference principal type (type parameters T0.. by first occurrence in the parameter list then the result, constraint any, types by the reference type printer); variants whose principal type equals the fully annotated one are emitted byte-identically (modulo name and temporaries); every variant compiles. Library signatures are read from the working tree's pkg/pkg_all.foi by an independent reader. A corpus adds 12-type-variable, compose/flip/ApplyL and chained shapes, and a constraint-graph enumeration (3..4 un-annotated parameters x 3 relation statements - slice literals of 2 or 3 parameters, p + n, frt.Fst (p, n), pairs - in every order, 1.1e5 functions) covers the order in which equivalence classes are built, merged and grounded.",
         "Variants outside the documentation's inference promises are skipped and counted by rule (un-annotated match / field-access / string-match targets, && || not operands, arithmetic on undetermined types, types determined only through match arms, function parameters applied more than once, Sort/Distinct on undetermined element types, body-only type variables).",
         "DESIGN.md C02"),
 "C03": ("complete enumeration of declaration shapes and foreign-call shapes (choice-tree explorer), each paired with a Go client / Go implementation generated from the documentation's naming scheme; compiled together with the emitted code and executed",
         "Records (generic or not, 1..2 / 3 fields over a 12-entry type menu: scalars, []int, 2- and 3-tuples, int->string, ()->int, another record, another union, T, []T), unions (generic or not, 1..2 / 3 cases with a payload from the menu or none), top-level variables of every menu type and functions (0..2 / 3 parameters, unit parameter, unit result, generic), each with a Go client that uses only documented names and types (positional struct literals, explicitly typed field reads, New_U_C functions / package variables, type switch over U_C with .Value, Stringer text, direct calls) plus Folang producers/consumers; package_info signatures (arity 1..3, unit argument, unit result, 0..2 type parameters plus optionally one that occurs only in the result, package _ or a named package) x number of supplied arguments x 5 call forms against a Go implementation that prints position and value of every argument. stdout must equal the documentation model's prediction.",
         "Foreign calls use literal, position-dependent arguments; external generic types (ext.Box<T>) are covered by C15 only.",
         "DESIGN.md C03"),
}
NOT_APPLICABLE = []

def main():
    props=[json.loads(l) for l in open('/verif/properties.jsonl')]
    ids=[p['id'] for p in props]
    checks=[]
    for i in ids:
        if i not in CHECKS: continue
        tech,text,note,ref=CHECKS[i]
        checks.append({
          "property_id": i,
          "quick_cmd": f"./check.sh {i} quick",
          "thorough_cmd": f"./check.sh {i} thorough",
          "evidence_file": f"/verif/evidence/{i}.json",
          "replay_cmd_template": f"./check.sh {i} quick --replay {{path}}",
          "engine": "vcheck",
          "level_claimed": {"category":"model_checking","text":text,"design_ref":ref},
          "level_note": note,
          "technique": tech,
        })
    na=list(NOT_APPLICABLE)
    for i in ids:
        if i not in CHECKS and not any(x['property_id']==i for x in na):
            na.append({"property_id": i, "reason": "check not built yet (work in progress; see DESIGN.md section 3a for the build order)"})
    try:
        hooks_commits=[l.split()[0] for l in subprocess.check_output(['git','-C','/repo','log','--format=%H %s','--grep=^verif hook'],text=True).splitlines()]
    except Exception:
        hooks_commits=[]
    m={
      "version":1,
      "setup_cmd":"./setup.sh",
      "hooks":{
        "guard":"verif",
        "enable":"go build -tags verif (checks build a scratch copy of /repo's working tree with the tag on; only pkg/dict has guarded code)",
        "baseline_off_cmd":"for m in cmd/build_sample_md fc pkg/buf pkg/dict pkg/frt pkg/slice pkg/strings pkg/sys tinyfo; do (cd /repo/$m && GOFLAGS=-mod=mod go test -json -vet=off -count=1 -timeout 25m ./...); done",
        "source_commits":hooks_commits,
        "add_only":True,
      },
      "engines":[{"name":"vcheck","path":"/verif/cmd/vcheck","serves_properties":[c['property_id'] for c in checks],
                  "kind_free_text":"hand-written stateless choice-tree explorer (internal/explore) + explicit-state BFS drivers; every case runs on the implementation built from /repo's working tree in a scratch copy"}],
      "checks":checks,
      "not_applicable":na,
      "notes":"All checks: ./check.sh <ID> <quick|thorough>; replay: ./check.sh <ID> quick --replay <file>. Known findings: /verif/known_findings.txt.",
    }
    json.dump(m,open('/verif/MANIFEST.json','w'),indent=1)
    print("wrote MANIFEST.json with",len(checks),"checks,",len(na),"not_applicable")
main()
