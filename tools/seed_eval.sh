#!/bin/sh
# tools/seed_eval.sh <seed-dir-with-seed_demo> <seed-id> <check-id> [more check ids]
# Confirms a seeded change independently (tests pass with it, its demonstration fails with and passes without it) in a
# scratch copy of /repo, runs the given checks (quick) against the patched copy and stores everything under seeded/<seed-id>/.
set -e
src=$1; sid=$2; shift 2
cd "$(dirname "$0")/.."
export GOFLAGS=-mod=mod GOPROXY=off GOSUMDB=off GOTOOLCHAIN=local
W=$(mktemp -d /tmp/seedeval.XXXXXX)
trap 'rm -rf "$W"' EXIT
rsync -a --exclude .git --exclude /fc/fc --exclude /cmd/build_sample_md/build_sample_md --exclude seed_demo /repo/ "$W/clean/"
rsync -a "$W/clean/" "$W/patched/"
(cd "$W/patched" && git init -q . 2>/dev/null; git apply --whitespace=nowarn "$src/seed_demo/patch.diff" 2>/dev/null || patch -p1 -F3 -s < "$src/seed_demo/patch.diff") || { echo "PATCH-DOES-NOT-APPLY"; exit 3; }
find "$W/patched" -name '*.orig' -delete
tests=pass
for m in cmd/build_sample_md fc pkg/buf pkg/dict pkg/frt pkg/slice pkg/strings pkg/sys tinyfo; do
  (cd "$W/patched/$m" && go test -vet=off -count=1 ./... >"$W/test.log" 2>&1) || { tests="FAIL in $m"; break; }
done
echo "tests with the change: $tests"
set +e
sh "$src/seed_demo/run.sh" "$W/patched" > "$W/demo_patched.log" 2>&1; dp=$?
sh "$src/seed_demo/run.sh" "$W/clean" > "$W/demo_clean.log" 2>&1; dc=$?
echo "demonstration: exit $dp with the change, exit $dc without"
mkdir -p seeded/$sid
cp "$src/seed_demo/patch.diff" seeded/$sid/patch.diff
cp "$src/seed_demo/run.sh" seeded/$sid/demo_run.sh
cp "$src/seed_demo/README.md" seeded/$sid/demo_README.md 2>/dev/null
for f in "$src"/seed_demo/*; do case "$(basename $f)" in patch.diff|run.sh|README.md) ;; *) cp -r "$f" seeded/$sid/ 2>/dev/null;; esac; done
# Go files of a demonstration must not become packages of this module
for g in $(find seeded/$sid -name "*.go"); do mv "$g" "$g.txt"; done
results=""
for id in "$@"; do
  mkdir -p "$W/ev"
  VERIF_REPO="$W/patched" VERIF_EVIDENCE_DIR="$W/ev" VERIF_REPLAY_DIR="$W/replays" ./check.sh $id quick > "$W/check_$id.log" 2>&1
  code=$?
  v=$(grep '^violation:' "$W/check_$id.log" | head -1 | cut -c1-300)
  echo "check $id quick: exit=$code  $v"
  results="$results{\"check\":\"$id\",\"tier\":\"quick\",\"exit\":$code,\"first_violation\":$(printf '%s' "$v" | python3 -c 'import json,sys;print(json.dumps(sys.stdin.read()))')},"
done
python3 - "$sid" "$tests" "$dp" "$dc" "[${results%,}]" <<'PY'
import json,sys,os
sid,tests,dp,dc,res=sys.argv[1:6]
p='seeded/%s/meta.json'%sid
meta={}
if os.path.exists(p):
    meta=json.load(open(p))
meta.update({"seed":sid,"tests_with_change":tests,"demo_exit_with_change":int(dp),"demo_exit_without_change":int(dc),"checks_run":json.loads(res),
  "how_run":"tools/seed_eval.sh: patch applied to a scratch copy of /repo (git apply), repository test suite, demo_run.sh on patched and clean copy, ./check.sh <id> quick with VERIF_REPO=<patched copy>"})
json.dump(meta,open(p,'w'),indent=1)
PY
