#!/usr/bin/env python3
"""Regenerates seeded/README.md from seeded/*/meta.json."""
import json,glob,os
rows=[]
for p in sorted(glob.glob('/verif/seeded/*/meta.json')):
    m=json.load(open(p))
    checks='; '.join('%s: exit %s'%(c['check'],c['exit']) for c in m.get('checks_run',[]))
    rows.append((m['seed'],m.get('breaks_property','?'),m.get('change','?'),m.get('needs_to_manifest','?'),m.get('tests_with_change'),'%s / %s'%(m.get('demo_exit_with_change'),m.get('demo_exit_without_change')),checks))
out=["# Independently seeded property-breaking changes","",
"Each change was written by a sub-agent that saw only the text of one property and its own scratch worktree of the repository",
"(nothing from /verif).  `tools/seed_eval.sh` re-verified every one here in a scratch copy of /repo: the repository's test suite",
"passes with the change, the agent's demonstration (`demo_run.sh`) exits non-zero with the change and 0 without it; then the",
"quick tier of the property's check was run against the patched copy (exit 1 = VIOLATION reported).  Where a first version of a",
"check missed a change, the entry says what was strengthened; the exit status shown is that of the current check.","",
"| seed | breaks | change | needs to manifest | tests | demo with/without | checks (quick) |","|---|---|---|---|---|---|---|"]
for r in rows:
    out.append('| '+' | '.join(str(x).replace('|','/').replace('\n',' ') for x in r)+' |')
open('/verif/seeded/README.md','w').write('\n'.join(out)+'\n')
print(len(rows),'seeds')
