module verif

go 1.23
