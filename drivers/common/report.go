//go:build driver

package main

import (
	"encoding/json"
	"fmt"
	"os"
	"sort"
	"sync"
)

// Report is what a driver prints (one JSON object on the last line of stdout).
type Report struct {
	Evals      int64            `json:"evals"`
	States     int64            `json:"states"`
	Trans      int64            `json:"trans"`
	Validated  int64            `json:"validated"`
	Distinct   int64            `json:"distinct"`
	Nontrivial int64            `json:"nontrivial"`
	Exhaustive bool             `json:"exhaustive"`
	Notes      []string         `json:"notes"`
	Hist       map[string]int64 `json:"hist"`
	Outcomes   map[string]int64 `json:"outcomes"`
	Samples    []any            `json:"samples"`
	Violations []Violation      `json:"violations"`
	Extra      map[string]any   `json:"extra"`
	mu         sync.Mutex
	sampleSeen int64
	vioPerSig  map[string]int
	Suppressed map[string]int64 `json:"violations_per_signature"`
}

type Violation struct {
	Sig    string `json:"sig"`
	What   string `json:"what"`
	Replay any    `json:"replay"`
}

func NewReport() *Report {
	return &Report{Exhaustive: true, Hist: map[string]int64{}, Outcomes: map[string]int64{}, Extra: map[string]any{}, vioPerSig: map[string]int{}, Suppressed: map[string]int64{}}
}

func (r *Report) H(k string, d int64) { r.mu.Lock(); r.Hist[k] += d; r.mu.Unlock() }
func (r *Report) O(k string)          { r.mu.Lock(); r.Outcomes[k]++; r.mu.Unlock() }

func (r *Report) Sample(v any) {
	r.mu.Lock()
	defer r.mu.Unlock()
	r.sampleSeen++
	if len(r.Samples) < 6 {
		r.Samples = append(r.Samples, v)
	} else if r.sampleSeen%9973 == 0 {
		r.Samples[int(r.sampleSeen/9973)%6] = v
	}
}

// V records a violation; at most 3 replays are kept per signature.
func (r *Report) V(sig, what string, replay any) {
	r.mu.Lock()
	defer r.mu.Unlock()
	r.Suppressed[sig]++
	r.vioPerSig[sig]++
	if r.vioPerSig[sig] > 3 {
		return
	}
	r.Violations = append(r.Violations, Violation{sig, what, replay})
}

func (r *Report) TooMany() bool {
	r.mu.Lock()
	defer r.mu.Unlock()
	return len(r.vioPerSig) >= 40
}

func (r *Report) Emit() {
	sort.Slice(r.Violations, func(i, j int) bool { return r.Violations[i].Sig < r.Violations[j].Sig })
	b, err := json.Marshal(r)
	if err != nil {
		fmt.Fprintln(os.Stderr, "report marshal:", err)
		os.Exit(3)
	}
	fmt.Printf("\n@@REPORT %s\n", b)
}
