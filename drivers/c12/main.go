//go:build driver

// C12 driver: explicit-state search over histories of slice-package calls on
// the real slices.  A state is one alias group: the live slice values that
// share one backing array, each with the contents it had when produced.
package main

import (
	"crypto/sha256"
	"fmt"
	"os"
	"sort"
	"strings"
	"unsafe"

	"github.com/karino2/folang/pkg/frt"
	"github.com/karino2/folang/pkg/slice"
)

var rep = NewReport()

type val struct {
	s    []int
	want []int
	how  string // how it was produced (for reports)
}

type op struct {
	fn    string
	m     int  // member index of the group
	other int  // -1: none; 0..k-1: member index; 100+L: fresh literal of length L
	swap  bool // member is the second operand
	n     int  // count for Take/Skip
	focus bool // the result has its own array and becomes the new (singleton) group
}

func (o op) String() string {
	s := fmt.Sprintf("%s(m%d", o.fn, o.m)
	if o.other >= 0 {
		if o.other >= 100 {
			s += fmt.Sprintf(",lit%d", o.other-100)
		} else {
			s += fmt.Sprintf(",m%d", o.other)
		}
		if o.swap {
			s += ",swapped"
		}
	}
	if o.fn == "Take" || o.fn == "Skip" {
		s += fmt.Sprintf(",n=%d", o.n)
	}
	s += ")"
	if o.focus {
		s += "->focus"
	}
	return s
}

type world struct {
	root  int
	group []*val
	fresh int
}

// fresh element values are distinct and not monotone, so that overwrites are
// visible and Sort has something to do
func (w *world) next() int {
	w.fresh++
	return (w.fresh*37)%101 + 1000*(w.fresh/101)
}

func (w *world) lit(n int) []int {
	s := make([]int, 0, n)
	for i := 0; i < n; i++ {
		s = append(s, w.next())
	}
	if n == 0 {
		return []int{}
	}
	return s[:n:n]
}

const nRoots = 9

func newWorld(root int) *world {
	w := &world{root: root}
	var s []int
	how := ""
	switch root {
	case 0, 1, 2, 3:
		s = w.lit(root)
		how = fmt.Sprintf("literal of length %d", root)
	case 4:
		s = slice.New[int]()
		how = "slice.New ()"
	case 5:
		s = nil
		how = "nil slice (an empty result of Filter/Take/Skip/Map)"
	case 6, 7, 8:
		// literals with repeated elements (Distinct, Sort and equality-based code only do something here)
		a, b, c := w.next(), w.next(), w.next()
		s = [][]int{{a, b, a, c}, {a, a, b}, {b, a, b, a, c}}[root-6]
		s = s[:len(s):len(s)]
		how = fmt.Sprintf("literal with repeated elements %v", s)
	}
	w.group = []*val{{s: s, want: append([]int{}, s...), how: how}}
	return w
}

func base(s []int) uintptr {
	if cap(s) == 0 {
		return 0
	}
	return uintptr(unsafe.Pointer(unsafe.SliceData(s)))
}

func shares(a, b []int) bool {
	if cap(a) == 0 || cap(b) == 0 {
		return false
	}
	a0, a1 := base(a), base(a)+uintptr(cap(a))*8
	b0, b1 := base(b), base(b)+uintptr(cap(b))*8
	return a0 < b1 && b0 < a1
}

func eq(a, b []int) bool {
	if len(a) != len(b) {
		return false
	}
	for i := range a {
		if a[i] != b[i] {
			return false
		}
	}
	return true
}

var unaryFns = []string{"PushLast", "PushHead", "PopLast", "Tail", "Map", "Mapi", "Filter", "FilterNone", "Sort", "SortBy", "Distinct", "Collect", "Observers"}
var binaryFns = []string{"Append", "Concat", "Zip", "CollectStored", "ConcatAfterEmpty", "CollectStoredAfterEmpty"}

// outerBad: set by apply when a function changed the LIST of chunks it was given (a [][]int value the program
// still holds): length, the chunks' identity (array, length, capacity) or their contents
var outerBad string

func withOuter(outer [][]int, f func(ss [][]int) []int) []int {
	type hdr struct {
		p        uintptr
		ln, cp   int
		contents []int
	}
	snap := make([]hdr, len(outer))
	for i, c := range outer {
		snap[i] = hdr{base(c), len(c), cap(c), append([]int{}, c...)}
	}
	n := len(outer)
	res := f(outer)
	outerBad = ""
	if len(outer) != n {
		outerBad = "the list's length changed"
	}
	for i, c := range outer[:min(n, len(outer))] {
		h := snap[i]
		if base(c) != h.p || len(c) != h.ln || cap(c) != h.cp || !eq(c, h.contents) {
			outerBad = fmt.Sprintf("chunk %d of the list was %v (len %d), now %v (len %d)", i, h.contents, h.ln, c, len(c))
			break
		}
	}
	return res
}

// apply runs one operation on the world; returns the result slice (nil if the
// function returns no slice of ints), operand copies for the oracle, and ok=false
// if the op is not applicable in this state.
func (w *world) apply(o op) (res []int, isSlice bool, applicable bool, operands [][2][]int) {
	if o.m >= len(w.group) {
		return nil, false, false, nil
	}
	m := w.group[o.m].s
	var other []int
	if o.other >= 100 {
		other = w.lit(o.other - 100)
	} else if o.other >= 0 {
		if o.other >= len(w.group) {
			return nil, false, false, nil
		}
		other = w.group[o.other].s
	}
	snap := func(s []int) [2][]int { return [2][]int{s, append([]int{}, s...)} }
	operands = append(operands, snap(m))
	if o.other >= 0 {
		operands = append(operands, snap(other))
	}
	a, b := m, other
	if o.swap {
		a, b = other, m
	}
	switch o.fn {
	case "PushLast":
		return slice.PushLast(w.next(), m), true, true, operands
	case "PushHead":
		return slice.PushHead(w.next(), m), true, true, operands
	case "PopLast":
		if len(m) == 0 {
			return nil, false, false, nil
		}
		return slice.PopLast(m), true, true, operands
	case "Tail":
		if len(m) == 0 {
			return nil, false, false, nil
		}
		return slice.Tail(m), true, true, operands
	case "Take":
		if o.n > len(m) {
			return nil, false, false, nil
		}
		return slice.Take(o.n, m), true, true, operands
	case "Skip":
		if o.n > len(m) {
			return nil, false, false, nil
		}
		return slice.Skip(o.n, m), true, true, operands
	case "Map":
		return slice.Map(func(x int) int { return x + 5000 }, m), true, true, operands
	case "Mapi":
		return slice.Mapi(func(i, x int) int { return x + 6000 + i }, m), true, true, operands
	case "Filter":
		return slice.Filter(func(x int) bool { return true }, m), true, true, operands
	case "FilterNone":
		return slice.Filter(func(x int) bool { return false }, m), true, true, operands
	case "Sort":
		return slice.Sort(m), true, true, operands
	case "SortBy":
		return slice.SortBy(func(x int) int { return -x }, m), true, true, operands
	case "Distinct":
		return slice.Distinct(m), true, true, operands
	case "Collect":
		return slice.Collect(func(x int) []int { return []int{x, x + 7000} }, m), true, true, operands
	case "Append":
		return slice.Append(a, b), true, true, operands
	case "Concat":
		return withOuter([][]int{a, b}, func(ss [][]int) []int { return slice.Concat(ss) }), true, true, operands
	case "CollectStored":
		// the callback hands out STORED slices (a record field, identity on a slice of slices), not fresh ones
		return withOuter([][]int{a, b}, func(ss [][]int) []int { return slice.Collect(func(x []int) []int { return x }, ss) }), true, true, operands
	case "ConcatAfterEmpty":
		return withOuter([][]int{nil, a, {}, b}, func(ss [][]int) []int { return slice.Concat(ss) }), true, true, operands
	case "CollectStoredAfterEmpty":
		return withOuter([][]int{{}, a, nil, b}, func(ss [][]int) []int { return slice.Collect(func(x []int) []int { return x }, ss) }), true, true, operands
	case "Zip":
		if len(a) != len(b) {
			return nil, false, false, nil
		}
		z := slice.Zip(a, b)
		_ = z
		return nil, false, true, operands
	case "Observers":
		slice.Length(m)
		slice.Len(m)
		slice.IsEmpty(m)
		slice.IsNotEmpty(m)
		if len(m) > 0 {
			slice.Head(m)
			slice.Last(m)
			slice.Item(len(m)-1, m)
		}
		slice.Iter(func(int) {}, m)
		slice.Forall(func(int) bool { return true }, m)
		slice.Forany(func(int) bool { return false }, m)
		slice.TryFind(func(int) bool { return false }, m)
		slice.Fold(func(a, x int) int { return a + x }, 0, m)
		var ft frt.Tuple2[int, bool]
		_ = ft
		return nil, false, true, operands
	}
	panic("unknown fn " + o.fn)
}

// replay rebuilds the state reached by hist from root (no oracle).
func replay(root int, hist []op) *world {
	w := newWorld(root)
	for _, o := range hist {
		res, isSlice, ok, _ := w.apply(o)
		if !ok {
			panic(fmt.Sprintf("replay diverged: %v not applicable", o))
		}
		if !isSlice {
			continue
		}
		w.join(res, o)
	}
	return w
}

// join adds the result to the group (or focuses on it).
func (w *world) join(res []int, o op) (joined bool) {
	nv := &val{s: res, want: append([]int{}, res...), how: o.String()}
	if o.focus {
		w.group = []*val{nv}
		return true
	}
	if len(w.group) > 0 && sharesAny(w.group, res) {
		for _, g := range w.group {
			if base(g.s) == base(res) && len(g.s) == len(res) && cap(g.s) == cap(res) {
				return false // identical window: same value
			}
		}
		w.group = append(w.group, nv)
		return true
	}
	return false
}

func sharesAny(group []*val, s []int) bool {
	for _, g := range group {
		if shares(g.s, s) {
			return true
		}
	}
	return false
}

// key: canonical form of the group: capacity-relative windows sorted, plus the
// rank pattern of the cells inside the union of windows.
func (w *world) key() string {
	if len(w.group) == 0 {
		return "empty"
	}
	// array start = min base - but windows may start later than the array start; use the lowest base as origin
	// and describe each window by (offset from origin, len, cap)
	var origin uintptr
	first := true
	for _, g := range w.group {
		if cap(g.s) == 0 {
			continue
		}
		if first || base(g.s) < origin {
			origin = base(g.s)
			first = false
		}
	}
	type win struct{ off, ln, cp int }
	var ws []win
	cells := map[int]int{}
	for _, g := range w.group {
		if cap(g.s) == 0 {
			kind := "nil"
			if g.s != nil {
				kind = "empty"
			}
			ws = append(ws, win{-1, 0, map[string]int{"nil": 0, "empty": -1}[kind]})
			continue
		}
		off := int((base(g.s) - origin) / 8)
		ws = append(ws, win{off, len(g.s), cap(g.s)})
		for i, x := range g.s {
			cells[off+i] = x
		}
	}
	sort.Slice(ws, func(i, j int) bool {
		if ws[i].off != ws[j].off {
			return ws[i].off < ws[j].off
		}
		if ws[i].ln != ws[j].ln {
			return ws[i].ln < ws[j].ln
		}
		return ws[i].cp < ws[j].cp
	})
	// rank pattern
	idx := []int{}
	for k := range cells {
		idx = append(idx, k)
	}
	sort.Ints(idx)
	vals := []int{}
	for _, k := range idx {
		vals = append(vals, cells[k])
	}
	sorted := append([]int{}, vals...)
	sort.Ints(sorted)
	rank := map[int]int{}
	for i, v := range sorted {
		if _, ok := rank[v]; !ok {
			rank[v] = i
		}
	}
	var sb strings.Builder
	for _, x := range ws {
		fmt.Fprintf(&sb, "%d:%d:%d|", x.off, x.ln, x.cp)
	}
	sb.WriteString("#")
	for i, k := range idx {
		fmt.Fprintf(&sb, "%d=%d,", k, rank[vals[i]])
	}
	return sb.String()
}

type node struct {
	root int
	hist []op
}

func menu(w *world) []op {
	var ops []op
	k := len(w.group)
	for m := 0; m < k; m++ {
		for _, f := range unaryFns {
			ops = append(ops, op{fn: f, m: m, other: -1})
		}
		for n := 0; n <= len(w.group[m].s); n++ {
			ops = append(ops, op{fn: "Take", m: m, other: -1, n: n})
			ops = append(ops, op{fn: "Skip", m: m, other: -1, n: n})
		}
		for _, f := range binaryFns {
			for o := 0; o < k; o++ {
				ops = append(ops, op{fn: f, m: m, other: o})
			}
			for l := 0; l <= 2; l++ {
				ops = append(ops, op{fn: f, m: m, other: 100 + l})
				ops = append(ops, op{fn: f, m: m, other: 100 + l, swap: true})
			}
		}
	}
	return ops
}

// ---- the long family ----
// The breadth-first search above starts from literals of length <= 5; implementations switch algorithm with the
// size and the order of their input (insertion sort below 12 elements, "already sorted except the last
// element" fast paths, maps instead of scans, growth policies of append).  The long family takes roots of
// length 9..65 (thorough: ..257) in 7 orders and 3 storage shapes and explores every sequence of two (thorough,
// for the smaller sizes: three) calls over a reduced menu, keeping EVERY produced value live.

var longOrders = []string{"ascending", "descending", "zigzag", "ascending-last-smallest", "ascending-first-largest", "all-equal", "two-values"}
var longStorage = []string{"exact", "spare-capacity", "window"}

func longRoot(n, order, storage int) ([]int, string) {
	c := make([]int, n)
	for i := range c {
		switch order {
		case 0, 3, 4:
			c[i] = 10 * (i + 1)
		case 1:
			c[i] = 10 * (n - i)
		case 2:
			if i%2 == 0 {
				c[i] = 10 * (i/2 + 1)
			} else {
				c[i] = 10 * (n - i/2)
			}
		case 5:
			c[i] = 50
		case 6:
			c[i] = 10 + 10*(i%2)
		}
	}
	if order == 3 {
		c[n-1] = 5
	}
	if order == 4 {
		c[0] = 10*n + 5
	}
	var s []int
	switch storage {
	case 0:
		s = append(make([]int, 0, n), c...)
	case 1:
		s = append(make([]int, 0, n+3), c...) // three spare cells, as after PopLast / append growth
	case 2:
		big := make([]int, n+5)
		for i := range big {
			big[i] = 7777 + i
		}
		copy(big[2:], c)
		s = big[2 : 2+n] // a window: cells before it, spare capacity behind it
	}
	return s, fmt.Sprintf("long root: %d elements, %s, storage %s", n, longOrders[order], longStorage[storage])
}

func menuLong(w *world) []op {
	var ops []op
	k := len(w.group)
	for m := 0; m < k; m++ {
		for _, f := range unaryFns {
			ops = append(ops, op{fn: f, m: m, other: -1})
		}
		ln := len(w.group[m].s)
		seenN := map[int]bool{}
		for _, n := range []int{0, 1, ln / 2, ln - 1, ln} {
			if n < 0 || n > ln || seenN[n] {
				continue
			}
			seenN[n] = true
			ops = append(ops, op{fn: "Take", m: m, other: -1, n: n})
			ops = append(ops, op{fn: "Skip", m: m, other: -1, n: n})
		}
		for _, f := range binaryFns {
			for o := 0; o < k; o++ {
				ops = append(ops, op{fn: f, m: m, other: o})
			}
			for _, l := range []int{0, 2} {
				ops = append(ops, op{fn: f, m: m, other: 100 + l})
				ops = append(ops, op{fn: f, m: m, other: 100 + l, swap: true})
			}
		}
	}
	return ops
}

func longPhase(sizes []int, depth3 map[int]bool) {
	var states, trans int64
	for _, n := range sizes {
		for order := range longOrders {
			for storage := range longStorage {
				mk := func(hist []op) *world {
					s, how := longRoot(n, order, storage)
					w := &world{root: 1000 + n}
					w.group = []*val{{s: s, want: append([]int{}, s...), how: how}}
					for _, o := range hist {
						res, isSlice, ok, _ := w.apply(o)
						if !ok {
							panic(fmt.Sprintf("long replay diverged: %v", o))
						}
						if isSlice {
							w.group = append(w.group, &val{s: res, want: append([]int{}, res...), how: o.String()})
						}
					}
					return w
				}
				_, how := longRoot(n, order, storage)
				var rec func(hist []op, left int)
				rec = func(hist []op, left int) {
					if rep.TooMany() {
						return
					}
					w0 := mk(hist)
					states++
					for _, o := range menuLong(w0) {
						w := mk(hist)
						outerBad = ""
						res, isSlice, ok, operands := w.apply(o)
						if !ok {
							continue
						}
						trans++
						rep.Trans++
						rep.Evals++
						rep.Validated++
						rep.H("long:fn:"+o.fn, 1)
						bad := ""
						for i, g := range w.group {
							if !eq(g.s, g.want) {
								bad = fmt.Sprintf("value m%d (produced by %s) changed at %s", i, g.how, firstDiff(g.want, g.s))
								break
							}
						}
						if bad == "" {
							for i, p := range operands {
								if !eq(p[0], p[1]) {
									bad = fmt.Sprintf("operand %d changed at %s", i, firstDiff(p[1], p[0]))
								}
							}
						}
						if bad == "" && outerBad != "" {
							bad = "the list of chunks given to the function (a [][]int value) changed: " + outerBad
						}
						h := append(append([]op{}, hist...), o)
						hs := how
						for _, x := range h {
							hs += " ; " + x.String()
						}
						if bad != "" {
							rep.O("mutated")
							rep.V("C12:"+o.fn, fmt.Sprintf("slice.%s changed an existing slice value: %s; history: %s", o.fn, bad, hs),
								map[string]any{"root": how, "history": hs, "observed": bad})
							continue
						}
						rep.O("intact")
						if isSlice && left > 1 {
							_ = res
							rec(h, left-1)
						}
					}
				}
				d := 2
				if depth3[n] {
					d = 3
				}
				rec(nil, d)
				rep.Distinct++
				rep.Nontrivial++
			}
		}
	}
	rep.States += states
	rep.Extra["long_family"] = map[string]any{"sizes": sizes, "orders": longOrders, "storage": longStorage, "histories_extended": states, "transitions": trans}
}

func firstDiff(want, got []int) string {
	if len(want) != len(got) {
		return fmt.Sprintf("length %d -> %d", len(want), len(got))
	}
	for i := range want {
		if want[i] != got[i] {
			return fmt.Sprintf("index %d: %d -> %d", i, want[i], got[i])
		}
	}
	return "?"
}

// ---- reference-like elements ----
// The searches above use []int.  A function may treat elements that are references (slices, interfaces = union
// values, pointers) specially - "clear the popped slot so that the garbage collector can free it".  This phase
// explores every sequence of `depth` calls over a reduced menu on slices of such elements, every produced value
// kept live, from a literal with exact capacity and one with spare capacity.
func refPhase[E any](kind string, mk func(int) E, eq func(a, b E) bool, depth int) {
	type rv struct {
		s, want []E
		how     string
	}
	type rop struct {
		fn   string
		m, o int
		n    int
	}
	fresh := 0
	next := func() E { fresh++; return mk(100 + fresh) }
	same := func(a, b []E) bool {
		if len(a) != len(b) {
			return false
		}
		for i := range a {
			if !eq(a[i], b[i]) {
				return false
			}
		}
		return true
	}
	build := func(root int, hist []rop) ([]*rv, bool) {
		fresh = 0
		var s []E
		if root == 0 {
			s = []E{mk(1), mk(2), mk(3)}
		} else {
			s = append(make([]E, 0, 6), mk(1), mk(2), mk(3))
		}
		live := []*rv{{s: s, want: append([]E{}, s...), how: "root"}}
		for _, o := range hist {
			if o.m >= len(live) || o.o >= len(live) {
				return nil, false
			}
			a, b := live[o.m].s, live[o.o].s
			var res []E
			isSlice := true
			switch o.fn {
			case "PushLast":
				res = slice.PushLast(next(), a)
			case "PushHead":
				res = slice.PushHead(next(), a)
			case "PopLast":
				if len(a) == 0 {
					return nil, false
				}
				res = slice.PopLast(a)
			case "Tail":
				if len(a) == 0 {
					return nil, false
				}
				res = slice.Tail(a)
			case "Take":
				if o.n > len(a) {
					return nil, false
				}
				res = slice.Take(o.n, a)
			case "Skip":
				if o.n > len(a) {
					return nil, false
				}
				res = slice.Skip(o.n, a)
			case "Append":
				res = slice.Append(a, b)
			case "Concat":
				res = slice.Concat([][]E{a, b})
			case "Map":
				res = slice.Map(func(x E) E { return x }, a)
			case "Mapi":
				res = slice.Mapi(func(i int, x E) E { return x }, a)
			case "FilterAll":
				res = slice.Filter(func(x E) bool { return true }, a)
			case "FilterNone":
				res = slice.Filter(func(x E) bool { return false }, a)
			case "Collect":
				res = slice.Collect(func(x E) []E { return []E{x} }, a)
			case "Observers":
				isSlice = false
				slice.Length(a)
				slice.IsEmpty(a)
				if len(a) > 0 {
					slice.Head(a)
					slice.Last(a)
					slice.Item(len(a)-1, a)
				}
				slice.Iter(func(E) {}, a)
				slice.Forall(func(E) bool { return true }, a)
				slice.Forany(func(E) bool { return false }, a)
				slice.TryFind(func(E) bool { return false }, a)
				slice.Fold(func(n int, x E) int { return n + 1 }, 0, a)
				if len(a) == len(b) {
					slice.Zip(a, b)
				}
			}
			if isSlice {
				live = append(live, &rv{s: res, want: append([]E{}, res...), how: fmt.Sprintf("%s(m%d)", o.fn, o.m)})
			}
		}
		return live, true
	}
	fns := []string{"PushLast", "PushHead", "PopLast", "Tail", "Map", "Mapi", "FilterAll", "FilterNone", "Collect", "Observers"}
	var rec func(root int, hist []rop, left int)
	rec = func(root int, hist []rop, left int) {
		if rep.TooMany() {
			return
		}
		live0, ok := build(root, hist)
		if !ok {
			return
		}
		var menu []rop
		for m := range live0 {
			for _, f := range fns {
				menu = append(menu, rop{fn: f, m: m, o: m})
			}
			ln := len(live0[m].s)
			for _, n := range []int{0, 1, ln} {
				if n <= ln {
					menu = append(menu, rop{fn: "Take", m: m, o: m, n: n}, rop{fn: "Skip", m: m, o: m, n: n})
				}
			}
			for o := range live0 {
				menu = append(menu, rop{fn: "Append", m: m, o: o}, rop{fn: "Concat", m: m, o: o})
			}
		}
		for _, o := range menu {
			h := append(append([]rop{}, hist...), o)
			live, ok := build(root, h)
			if !ok {
				continue
			}
			rep.Trans++
			rep.Evals++
			rep.Validated++
			rep.H("ref:"+kind+":"+o.fn, 1)
			bad := ""
			for i, v := range live {
				if !same(v.s, v.want) {
					bad = fmt.Sprintf("value m%d (produced by %s) no longer has the elements it was produced with (length %d)", i, v.how, len(v.want))
					break
				}
			}
			if bad != "" {
				hs := fmt.Sprintf("elements: %s; root%d", kind, root)
				for _, x := range h {
					hs += fmt.Sprintf(" ; %s(m%d", x.fn, x.m)
					if x.fn == "Append" || x.fn == "Concat" {
						hs += fmt.Sprintf(",m%d", x.o)
					}
					if x.fn == "Take" || x.fn == "Skip" {
						hs += fmt.Sprintf(",n=%d", x.n)
					}
					hs += ")"
				}
				rep.O("mutated")
				rep.V("C12:"+o.fn, fmt.Sprintf("slice.%s changed an existing slice value: %s; history: %s", o.fn, bad, hs), map[string]any{"history": hs, "observed": bad})
				continue
			}
			rep.O("intact")
			if left > 1 && len(live) > len(live0) {
				rec(root, h, left-1)
			}
		}
	}
	for root := 0; root < 2; root++ {
		rec(root, nil, depth)
		rep.Distinct++
		rep.Nontrivial++
	}
}

type boxed struct{ v int }

func histString(root int, hist []op) string {
	parts := []string{fmt.Sprintf("root%d", root)}
	for _, o := range hist {
		parts = append(parts, o.String())
	}
	return strings.Join(parts, " ; ")
}

func main() {
	depth := 4
	maxStates := 300000
	maxGroup := 6
	if len(os.Args) > 1 && os.Args[1] == "thorough" {
		depth = 6
		maxStates = 2000000
		maxGroup = 7
	}
	// canonical keys are stored as 128-bit digests (2e6 full keys plus the frontier would not fit the
	// address-space limit the harness gives a driver; a collision among < 2^21 keys has probability < 2^-86)
	seen := map[[16]byte]struct{}{}
	dig := func(k string) [16]byte {
		h := sha256.Sum256([]byte(k))
		var d [16]byte
		copy(d[:], h[:16])
		return d
	}
	var frontier []node
	for r := 0; r < nRoots; r++ {
		w := newWorld(r)
		seen[dig(w.key())] = struct{}{}
		frontier = append(frontier, node{r, nil})
		rep.States++
	}
	completed := 0
	capped := false
	for d := 0; d < depth && len(frontier) > 0 && !capped; d++ {
		var next []node
		for _, n := range frontier {
			w0 := replay(n.root, n.hist)
			for _, o := range menu(w0) {
				w := replay(n.root, n.hist)
				outerBad = ""
				res, isSlice, ok, operands := w.apply(o)
				if !ok {
					continue
				}
				rep.Trans++
				rep.Evals++
				rep.Validated++
				rep.H("fn:"+o.fn, 1)
				touchesShared := len(w.group) > 1 || (isSlice && sharesAny(w.group, res))
				// oracle: every member and every operand keeps its contents
				bad := ""
				for i, g := range w.group {
					if !eq(g.s, g.want) {
						bad = fmt.Sprintf("member m%d (produced by %s) was %v, now %v", i, g.how, g.want, g.s)
						break
					}
				}
				if bad == "" {
					for i, p := range operands {
						if !eq(p[0], p[1]) {
							bad = fmt.Sprintf("operand %d was %v, now %v", i, p[1], p[0])
						}
					}
				}
				if bad == "" && outerBad != "" {
					bad = "the list of chunks given to the function (a [][]int value) changed: " + outerBad
				}
				h := append(append([]op{}, n.hist...), o)
				if bad != "" {
					rep.O("mutated")
					rep.V("C12:"+o.fn, fmt.Sprintf("slice.%s changed an existing slice value: %s; history: %s", o.fn, bad, histString(n.root, h)),
						map[string]any{"root": n.root, "history": histString(n.root, h), "observed": bad})
					continue // do not explore beyond a corrupted state
				}
				rep.O("intact")
				if !isSlice {
					continue
				}
				o2 := o
				if !sharesAny(w.group, res) {
					// own backing array: a new singleton group (this is how values with spare capacity enter)
					o2.focus = true
				}
				h2 := append(append([]op{}, n.hist...), o2)
				if !w.join(res, o2) {
					continue
				}
				if len(w.group) > maxGroup {
					rep.H("pruned:group_too_large", 1)
					continue
				}
				k := w.key()
				if _, dup := seen[dig(k)]; dup {
					continue
				}
				seen[dig(k)] = struct{}{}
				rep.States++
				rep.Distinct++
				if touchesShared {
					rep.Nontrivial++
				}
				if len(h2) <= 3 {
					rep.Sample(map[string]any{"history": histString(n.root, h2), "state": k})
				}
				if d+1 < depth {
					// states of the last level are checked when they are produced; they have no successors to explore
					next = append(next, node{n.root, h2})
				}
				if len(seen) >= maxStates {
					capped = true
					break
				}
			}
			if capped || rep.TooMany() {
				break
			}
		}
		if !capped {
			completed = d + 1
		}
		frontier = next
	}
	if !rep.TooMany() {
		if len(os.Args) > 1 && os.Args[1] == "thorough" {
			longPhase([]int{9, 12, 13, 16, 17, 33, 50, 65, 129, 257}, map[int]bool{9: true, 13: true, 17: true})
		} else {
			longPhase([]int{9, 13, 17, 33, 65}, nil)
		}
	}
	if !rep.TooMany() {
		rd := 3
		refPhase("slices ([][]int)", func(i int) []int { return []int{i, i + 1} }, func(a, b []int) bool { return eq(a, b) }, rd)
		refPhase("interface values (any holding a struct, like union cases)", func(i int) any { return boxed{i} }, func(a, b any) bool { return a == b }, rd)
		refPhase("pointers (*int)", func(i int) *int { v := i; return &v }, func(a, b *int) bool { return (a == nil) == (b == nil) && (a == nil || *a == *b) }, rd)
		rep.Extra["reference_like_element_kinds"] = 3
	}
	rep.Extra["depth_completed"] = completed
	rep.Extra["depth_bound"] = depth
	rep.Extra["states"] = len(seen)
	rep.Extra["frontier_left"] = len(frontier)
	if capped {
		rep.Exhaustive = false
		rep.Notes = append(rep.Notes, fmt.Sprintf("state cap %d reached; depth %d fully explored", maxStates, completed))
	}
	rep.Emit()
}
