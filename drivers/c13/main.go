//go:build driver

// C13 driver: every function of pkg/slice on all small inputs vs. an
// independent cons-list model.
package main

import (
	"fmt"
	"os"
	"strconv"

	"drv/explore"

	"github.com/karino2/folang/pkg/frt"
	"github.com/karino2/folang/pkg/slice"
)

// ---- the list model: recursive definitions over a cons list ----

type L[T any] struct {
	head T
	tail *L[T]
}

func fromSlice[T any](s []T) *L[T] {
	var l *L[T]
	for i := len(s) - 1; i >= 0; i-- {
		l = &L[T]{s[i], l}
	}
	return l
}

func toSlice[T any](l *L[T]) []T {
	out := []T{}
	for ; l != nil; l = l.tail {
		out = append(out, l.head)
	}
	return out
}

func mLen[T any](l *L[T]) int {
	if l == nil {
		return 0
	}
	return 1 + mLen(l.tail)
}
func mItem[T any](i int, l *L[T]) T {
	if i == 0 {
		return l.head
	}
	return mItem(i-1, l.tail)
}
func mLast[T any](l *L[T]) T {
	if l.tail == nil {
		return l.head
	}
	return mLast(l.tail)
}
func mTake[T any](n int, l *L[T]) *L[T] {
	if n == 0 {
		return nil
	}
	return &L[T]{l.head, mTake(n-1, l.tail)}
}
func mSkip[T any](n int, l *L[T]) *L[T] {
	if n == 0 || l == nil {
		return l
	}
	return mSkip(n-1, l.tail)
}
func mPopLast[T any](l *L[T]) *L[T] {
	if l.tail == nil {
		return nil
	}
	return &L[T]{l.head, mPopLast(l.tail)}
}
func mMap[T, U any](f func(T) U, l *L[T]) *L[U] {
	if l == nil {
		return nil
	}
	h := f(l.head)
	return &L[U]{h, mMap(f, l.tail)}
}
func mMapi[T, U any](f func(int, T) U, i int, l *L[T]) *L[U] {
	if l == nil {
		return nil
	}
	h := f(i, l.head)
	return &L[U]{h, mMapi(f, i+1, l.tail)}
}
func mFilter[T any](p func(T) bool, l *L[T]) *L[T] {
	if l == nil {
		return nil
	}
	if p(l.head) {
		return &L[T]{l.head, mFilter(p, l.tail)}
	}
	return mFilter(p, l.tail)
}
func mAppend[T any](a, b *L[T]) *L[T] {
	if a == nil {
		return b
	}
	return &L[T]{a.head, mAppend(a.tail, b)}
}
func mConcat[T any](ls *L[*L[T]]) *L[T] {
	if ls == nil {
		return nil
	}
	return mAppend(ls.head, mConcat(ls.tail))
}
func mZip[T, U any](a *L[T], b *L[U]) *L[frt.Tuple2[T, U]] {
	if a == nil {
		return nil
	}
	return &L[frt.Tuple2[T, U]]{frt.Tuple2[T, U]{E0: a.head, E1: b.head}, mZip(a.tail, b.tail)}
}
func mFold[T, S any](f func(S, T) S, s S, l *L[T]) S {
	if l == nil {
		return s
	}
	return mFold(f, f(s, l.head), l.tail)
}
func mForall[T any](p func(T) bool, l *L[T]) bool {
	if l == nil {
		return true
	}
	if !p(l.head) {
		return false
	}
	return mForall(p, l.tail)
}
func mForany[T any](p func(T) bool, l *L[T]) bool {
	if l == nil {
		return false
	}
	if p(l.head) {
		return true
	}
	return mForany(p, l.tail)
}
func mTryFind[T any](p func(T) bool, l *L[T]) (T, bool) {
	if l == nil {
		var z T
		return z, false
	}
	if p(l.head) {
		return l.head, true
	}
	return mTryFind(p, l.tail)
}
func mMem[T comparable](x T, l *L[T]) bool {
	if l == nil {
		return false
	}
	return l.head == x || mMem(x, l.tail)
}

// distinct keeping first occurrences: d(seen, l)
func mDistinct[T comparable](seen *L[T], l *L[T]) *L[T] {
	if l == nil {
		return nil
	}
	if mMem(l.head, seen) {
		return mDistinct(seen, l.tail)
	}
	return &L[T]{l.head, mDistinct(&L[T]{l.head, seen}, l.tail)}
}

func eqSlice[T comparable](a, b []T) bool {
	if len(a) != len(b) {
		return false
	}
	for i := range a {
		if a[i] != b[i] {
			return false
		}
	}
	return true
}

func multisetEq[T comparable](a, b []T) bool {
	if len(a) != len(b) {
		return false
	}
	m := map[T]int{}
	for _, x := range a {
		m[x]++
	}
	for _, x := range b {
		m[x]--
	}
	for _, v := range m {
		if v != 0 {
			return false
		}
	}
	return true
}

// ---- the sweep ----

var rep = NewReport()

type dom[T comparable] struct {
	name  string
	elems []T
	less  func(a, b T) bool
	fs    []named[func(T) T]
	ps    []named[func(T) bool]
	keyI  []named[func(T) int]
	show  func(T) string
	wide  func(int) T // the i-th value of a wide domain (pairwise distinct, order-preserving), for long slices
}

type named[F any] struct {
	name string
	f    F
}

// call runs f and converts a panic into ok=false
func call(f func()) (ok bool, msg string) {
	defer func() {
		if r := recover(); r != nil {
			ok = false
			msg = fmt.Sprint(r)
		}
	}()
	f()
	return true, ""
}

func check[T comparable](d *dom[T], fn string, input any, got, want []T) {
	rep.Evals++
	rep.Validated++
	rep.H("fn:"+fn, 1)
	if eqSlice(got, want) {
		rep.O("agree")
		return
	}
	rep.O("disagree")
	rep.V("C13:"+fn, fmt.Sprintf("slice.%s on %s %v: expected %v, got %v", fn, d.name, input, want, got),
		map[string]any{"function": fn, "domain": d.name, "input": fmt.Sprint(input), "expected": fmt.Sprint(want), "observed": fmt.Sprint(got)})
}

func checkV[V comparable](dn, fn string, input any, got, want V) {
	rep.Evals++
	rep.Validated++
	rep.H("fn:"+fn, 1)
	if got == want {
		rep.O("agree")
		return
	}
	rep.O("disagree")
	rep.V("C13:"+fn, fmt.Sprintf("slice.%s on %s %v: expected %v, got %v", fn, dn, input, want, got),
		map[string]any{"function": fn, "domain": dn, "input": fmt.Sprint(input), "expected": fmt.Sprint(want), "observed": fmt.Sprint(got)})
}

func panicked(dn, fn string, input any, msg string) {
	rep.Evals++
	rep.O("panic")
	rep.V("C13:"+fn+":panic", fmt.Sprintf("slice.%s on %s %v panicked inside its domain: %s", fn, dn, input, msg),
		map[string]any{"function": fn, "domain": dn, "input": fmt.Sprint(input), "observed": "panic: " + msg})
}

// genSlice enumerates a slice through the explorer: length then elements.
func genSlice[T comparable](c *explore.Chooser, d *dom[T], maxLen int) []T {
	n := c.Choose(maxLen + 1)
	s := make([]T, n)
	for i := range s {
		s[i] = d.elems[c.Choose(len(d.elems))]
	}
	return s
}

// genLong enumerates the long-slice family: length 6..maxLong x 3 base orders of pairwise distinct
// values (ascending, descending, zigzag) x no repetition or one repetition at every pair of positions
// i < j (s[j] = s[i]).  Exhaustive enumeration of all slices stops at length 5-7; this family crosses
// every size at which an implementation may switch algorithm (8, 12, 16, 32, 50, 64 ...).
func genLong[T comparable](c *explore.Chooser, d *dom[T], maxLong int) []T {
	n := 6 + c.Choose(maxLong-5)
	order := c.Choose(3)
	dup := c.Choose(1 + n*(n-1)/2)
	s := make([]T, n)
	for k := range s {
		v := k
		switch order {
		case 1:
			v = n - 1 - k
		case 2:
			if k%2 == 0 {
				v = k / 2
			} else {
				v = n - 1 - k/2
			}
		}
		s[k] = d.wide(v)
	}
	if dup > 0 {
		dup--
		j := 1
		for dup >= j {
			dup -= j
			j++
		}
		s[j] = s[dup]
	}
	return s
}

// genLongAt: the same family at a few LARGER sizes (around the powers of two and Go's own thresholds), with the
// repetition at five position pairs instead of all of them
func genLongAt[T comparable](c *explore.Chooser, d *dom[T], sizes []int) []T {
	n := sizes[c.Choose(len(sizes))]
	order := c.Choose(3)
	dup := c.Choose(6)
	s := make([]T, n)
	for k := range s {
		v := k
		switch order {
		case 1:
			v = n - 1 - k
		case 2:
			if k%2 == 0 {
				v = k / 2
			} else {
				v = n - 1 - k/2
			}
		}
		s[k] = d.wide(v)
	}
	pairs := [][2]int{{0, n - 1}, {n / 2, n/2 + 1}, {0, 1}, {n - 2, n - 1}, {1, n / 2}}
	if dup > 0 {
		p := pairs[dup-1]
		s[p[1]] = s[p[0]]
	}
	return s
}

func sweepUnary[T comparable](d *dom[T], maxLen int) explore.Stats {
	return sweepUnaryGen(d, func(c *explore.Chooser) []T { return genSlice(c, d, maxLen) })
}

func sweepUnaryGen[T comparable](d *dom[T], gen func(c *explore.Chooser) []T) explore.Stats {
	return explore.Explore(-1, func(c *explore.Chooser) {
		s := gen(c)
		// storage shape: exactly sized, or a window of a larger array (cells before it and spare capacity
		// behind it hold other values): the specification is over values, the storage must not matter
		if c.Choose(2) == 1 {
			s = windowOf(d, s)
			rep.H("storage:window-with-spare-capacity", 1)
		} else {
			rep.H("storage:exact", 1)
		}
		l := fromSlice(s)
		in := fmt.Sprint(s)
		rep.Distinct++
		if len(s) >= 1 {
			rep.Nontrivial++
		}
		if len(s) <= 3 {
			rep.Sample(map[string]any{"domain": d.name, "slice": in})
		}
		// observers
		checkV(d.name, "Length", in, slice.Length(s), mLen(l))
		checkV(d.name, "Len", in, slice.Len(s), mLen(l))
		checkV(d.name, "IsEmpty", in, slice.IsEmpty(s), l == nil)
		checkV(d.name, "IsNotEmpty", in, slice.IsNotEmpty(s), l != nil)
		if len(s) > 0 {
			var h, la T
			var tl, pl []T
			if ok, m := call(func() { h = slice.Head(s) }); ok {
				checkV(d.name, "Head", in, h, l.head)
			} else {
				panicked(d.name, "Head", in, m)
			}
			if ok, m := call(func() { la = slice.Last(s) }); ok {
				checkV(d.name, "Last", in, la, mLast(l))
			} else {
				panicked(d.name, "Last", in, m)
			}
			if ok, m := call(func() { tl = slice.Tail(s) }); ok {
				check(d, "Tail", in, tl, toSlice(l.tail))
			} else {
				panicked(d.name, "Tail", in, m)
			}
			if ok, m := call(func() { pl = slice.PopLast(s) }); ok {
				check(d, "PopLast", in, pl, toSlice(mPopLast(l)))
			} else {
				panicked(d.name, "PopLast", in, m)
			}
		}
		for i := 0; i < len(s); i++ {
			var it T
			ii := in + " index " + strconv.Itoa(i)
			if ok, m := call(func() { it = slice.Item(i, s) }); ok {
				checkV(d.name, "Item", ii, it, mItem(i, l))
			} else {
				panicked(d.name, "Item", ii, m)
			}
		}
		for n := 0; n <= len(s); n++ {
			var tk, sk []T
			ii := in + " count " + strconv.Itoa(n)
			if ok, m := call(func() { tk = slice.Take(n, s) }); ok {
				check(d, "Take", ii, tk, toSlice(mTake(n, l)))
			} else {
				panicked(d.name, "Take", ii, m)
			}
			if ok, m := call(func() { sk = slice.Skip(n, s) }); ok {
				check(d, "Skip", ii, sk, toSlice(mSkip(n, l)))
			} else {
				panicked(d.name, "Skip", ii, m)
			}
		}
		for _, e := range d.elems {
			ii := in + " elem " + d.show(e)
			check(d, "PushHead", ii, slice.PushHead(e, s), toSlice(&L[T]{e, l}))
			check(d, "PushLast", ii, slice.PushLast(e, s), toSlice(mAppend(l, &L[T]{e, nil})))
		}
		for _, f := range d.fs {
			ii := in + " f=" + f.name
			// Map must call f on the elements left to right, once each
			var order []T
			got := slice.Map(func(x T) T { order = append(order, x); return f.f(x) }, s)
			check(d, "Map", ii, got, toSlice(mMap(f.f, l)))
			check(d, "Map(call order)", ii, order, s)
			gi := slice.Mapi(func(i int, x T) T {
				if i%2 == 0 {
					return f.f(x)
				}
				return x
			}, s)
			check(d, "Mapi", ii, gi, toSlice(mMapi(func(i int, x T) T {
				if i%2 == 0 {
					return f.f(x)
				}
				return x
			}, 0, l)))
			var idx []int
			slice.Mapi(func(i int, x T) int { idx = append(idx, i); return i }, s)
			want := []int{}
			for i := range s {
				want = append(want, i)
			}
			rep.Evals++
			rep.Validated++
			if !eqSlice(idx, want) {
				rep.V("C13:Mapi", fmt.Sprintf("slice.Mapi passes indices %v on %v", idx, in), map[string]any{"function": "Mapi", "input": in})
			}
			// Collect: f applied to each element gives a slice [x; f x]
			var corder []T
			gc := slice.Collect(func(x T) []T { corder = append(corder, x); return []T{x, f.f(x)} }, s)
			check(d, "Collect(call order)", ii, corder, s)
			check(d, "Collect", ii, gc, toSlice(mConcat(mMap(func(x T) *L[T] { return &L[T]{x, &L[T]{f.f(x), nil}} }, l))))
			// Collect with some empty results
			if len(d.ps) > 0 {
				p := d.ps[0].f
				gc2 := slice.Collect(func(x T) []T {
					if p(x) {
						return []T{x}
					}
					return nil
				}, s)
				check(d, "Collect", ii+" (empty results)", gc2, toSlice(mFilter(p, l)))
			}
		}
		{
			var seenOrder []T
			slice.Iter(func(x T) { seenOrder = append(seenOrder, x) }, s)
			check(d, "Iter", in, seenOrder, toSlice(l))
		}
		for _, p := range d.ps {
			ii := in + " p=" + p.name
			check(d, "Filter", ii, slice.Filter(p.f, s), toSlice(mFilter(p.f, l)))
			{
				// the predicate is asked once per element, left to right
				var asked []T
				slice.Filter(func(x T) bool { asked = append(asked, x); return p.f(x) }, s)
				check(d, "Filter(call order)", ii, asked, s)
			}
			checkV(d.name, "Forall", ii, slice.Forall(p.f, s), mForall(p.f, l))
			checkV(d.name, "Forany", ii, slice.Forany(p.f, s), mForany(p.f, l))
			r := slice.TryFind(p.f, s)
			wv, wok := mTryFind(p.f, l)
			checkV(d.name, "TryFind", ii, fmt.Sprint(r.E0, r.E1), fmt.Sprint(wv, wok))
			// scans are left to right and stop at the first decisive element
			var calls []T
			slice.Forall(func(x T) bool { calls = append(calls, x); return p.f(x) }, s)
			wantCalls := []T{}
			for _, x := range s {
				wantCalls = append(wantCalls, x)
				if !p.f(x) {
					break
				}
			}
			check(d, "Forall(scan order)", ii, calls, wantCalls)
			calls = nil
			slice.Forany(func(x T) bool { calls = append(calls, x); return p.f(x) }, s)
			wantCalls = []T{}
			for _, x := range s {
				wantCalls = append(wantCalls, x)
				if p.f(x) {
					break
				}
			}
			check(d, "Forany(scan order)", ii, calls, wantCalls)
			calls = nil
			slice.TryFind(func(x T) bool { calls = append(calls, x); return p.f(x) }, s)
			check(d, "TryFind(scan order)", ii, calls, wantCalls)
		}
		// Fold: non-commutative folder over the display form
		{
			folder := func(acc string, x T) string { return "(" + acc + "*" + d.show(x) + ")" }
			checkV(d.name, "Fold", in, slice.Fold(folder, "z", s), mFold(folder, "z", l))
		}
		// Distinct
		check(d, "Distinct", in, slice.Distinct(s), toSlice(mDistinct[T](nil, l)))
		// SortBy with every key function: ascending by key, permutation
		for _, k := range d.keyI {
			ii := in + " key=" + k.name
			got := slice.SortBy(k.f, s)
			rep.Evals++
			rep.Validated++
			rep.H("fn:SortBy", 1)
			okAsc := true
			for i := 1; i < len(got); i++ {
				if k.f(got[i-1]) > k.f(got[i]) {
					okAsc = false
				}
			}
			if !okAsc || !multisetEq(got, s) {
				rep.V("C13:SortBy", fmt.Sprintf("slice.SortBy on %s: got %v (ascending=%v, permutation=%v)", ii, got, okAsc, multisetEq(got, s)),
					map[string]any{"function": "SortBy", "input": ii, "observed": fmt.Sprint(got)})
			}
		}
	}, func(c *explore.Chooser) bool { return !rep.TooMany() })
}

func sweepSort[T interface {
	comparable
	~int | ~string
}](d *dom[T], maxLen int) explore.Stats {
	return sweepSortGen(d, func(c *explore.Chooser) []T { return genSlice(c, d, maxLen) })
}

func sweepSortGen[T interface {
	comparable
	~int | ~string
}](d *dom[T], gen func(c *explore.Chooser) []T) explore.Stats {
	return explore.Explore(-1, func(c *explore.Chooser) {
		s := gen(c)
		got := slice.Sort(s)
		rep.Evals++
		rep.Validated++
		rep.H("fn:Sort", 1)
		asc := true
		for i := 1; i < len(got); i++ {
			if got[i-1] > got[i] {
				asc = false
			}
		}
		if !asc || !multisetEq(got, s) {
			rep.V("C13:Sort", fmt.Sprintf("slice.Sort on %s %v: got %v (ascending=%v, permutation=%v)", d.name, s, got, asc, multisetEq(got, s)),
				map[string]any{"function": "Sort", "input": fmt.Sprint(s), "observed": fmt.Sprint(got)})
		}
	}, func(c *explore.Chooser) bool { return !rep.TooMany() })
}

func (d *dom[T]) toDom() *dom[T] { return d }

func sweepBinary[T comparable](d *dom[T], maxLen int) explore.Stats {
	return explore.Explore(-1, func(c *explore.Chooser) {
		a := genSlice(c, d, maxLen)
		b := genSlice(c, d, maxLen)
		in := fmt.Sprint(a, b)
		check(d, "Append", in, slice.Append(a, b), toSlice(mAppend(fromSlice(a), fromSlice(b))))
		if len(a) == len(b) {
			var z []frt.Tuple2[T, T]
			if ok, m := call(func() { z = slice.Zip(a, b) }); ok {
				wz := toSlice(mZip(fromSlice(a), fromSlice(b)))
				checkV(d.name, "Zip", in, fmt.Sprint(z), fmt.Sprint(wz))
				checkV(d.name, "Zip(length)", in, len(z), len(a))
			} else {
				panicked(d.name, "Zip", in, m)
			}
		}
	}, func(c *explore.Chooser) bool { return !rep.TooMany() })
}

// sweepBinaryLong: Append and Zip at every pair of lengths 0..maxLong (pairwise distinct values).
func sweepBinaryLong[T comparable](d *dom[T], maxLong int) explore.Stats {
	return explore.Explore(-1, func(c *explore.Chooser) {
		la, lb := c.Choose(maxLong+1), c.Choose(maxLong+1)
		a, b := make([]T, la), make([]T, lb)
		for i := range a {
			a[i] = d.wide(i)
		}
		for i := range b {
			b[i] = d.wide(la + i)
		}
		in := fmt.Sprint(a, b)
		check(d, "Append", in, slice.Append(a, b), toSlice(mAppend(fromSlice(a), fromSlice(b))))
		if la == lb {
			var z []frt.Tuple2[T, T]
			if ok, m := call(func() { z = slice.Zip(a, b) }); ok {
				checkV(d.name, "Zip", in, fmt.Sprint(z), fmt.Sprint(toSlice(mZip(fromSlice(a), fromSlice(b)))))
			} else {
				panicked(d.name, "Zip", in, m)
			}
		}
	}, func(c *explore.Chooser) bool { return !rep.TooMany() })
}

// sweepNestedLong: Concat / Collect over up to maxOuter chunks of length 0, 1 or 3 (every pattern).
func sweepNestedLong[T comparable](d *dom[T], maxOuter int) explore.Stats {
	return explore.Explore(-1, func(c *explore.Chooser) {
		n := 4 + c.Choose(maxOuter-3)
		ss := make([][]T, n)
		k := 0
		for i := range ss {
			l := []int{0, 1, 3}[c.Choose(3)]
			ss[i] = make([]T, l)
			for j := range ss[i] {
				ss[i][j] = d.wide(k)
				k++
			}
		}
		var ls *L[*L[T]]
		for i := n - 1; i >= 0; i-- {
			ls = &L[*L[T]]{fromSlice(ss[i]), ls}
		}
		in := fmt.Sprint(ss)
		check(d, "Concat", in, slice.Concat(ss), toSlice(mConcat(ls)))
		check(d, "Collect", in+" f=id", slice.Collect(func(x []T) []T { return x }, ss), toSlice(mConcat(ls)))
	}, func(c *explore.Chooser) bool { return !rep.TooMany() })
}

func sweepNested[T comparable](d *dom[T], maxOuter, maxInner int) explore.Stats {
	return explore.Explore(-1, func(c *explore.Chooser) {
		n := c.Choose(maxOuter + 1)
		ss := make([][]T, n)
		var ls *L[*L[T]]
		for i := range ss {
			ss[i] = genSlice(c, d, maxInner)
		}
		for i := n - 1; i >= 0; i-- {
			ls = &L[*L[T]]{fromSlice(ss[i]), ls}
		}
		in := fmt.Sprint(ss)
		check(d, "Concat", in, slice.Concat(ss), toSlice(mConcat(ls)))
		// Collect over a slice of slices with the identity
		check(d, "Collect", in+" f=id", slice.Collect(func(x []T) []T { return x }, ss), toSlice(mConcat(ls)))
	}, func(c *explore.Chooser) bool { return !rep.TooMany() })
}

// windowOf returns a slice with the contents of s that is a window of a larger array: two cells before it and
// three cells of spare capacity behind it, filled with other values of the domain.
func windowOf[T comparable](d *dom[T], s []T) []T {
	big := make([]T, len(s)+5)
	for i := range big {
		big[i] = d.wide(40 + i)
	}
	copy(big[2:], s)
	return big[2 : 2+len(s)]
}

// sweepAliased: the arguments of the functions that take several slices (Append, Zip, Concat, Collect) are
// windows of ONE backing array (every window i..j of a base of length 1..maxBase with pairwise distinct
// values; a window's capacity reaches to the end of the base, as for Take / PopLast / Tail results).  The
// expected result is computed from copies of the windows taken before the call; the base is rebuilt for
// every call.  An implementation that builds its result inside one argument's storage computes a wrong
// VALUE exactly when a later argument shares that storage.
func sweepAliased[T comparable](d *dom[T], maxBase int) explore.Stats {
	type win struct{ i, j int }
	return explore.Explore(-1, func(c *explore.Chooser) {
		n := 1 + c.Choose(maxBase)
		k := 2 + c.Choose(2) // number of windows
		var ws []win
		for a := 0; a < k; a++ {
			i := c.Choose(n + 1)
			j := i + c.Choose(n-i+1)
			ws = append(ws, win{i, j})
		}
		mk := func() ([]T, [][]T, [][]T) {
			base := make([]T, n)
			for x := range base {
				base[x] = d.wide(x)
			}
			var args, copies [][]T
			for _, w := range ws {
				args = append(args, base[w.i:w.j])
				copies = append(copies, append([]T{}, base[w.i:w.j]...))
			}
			return base, args, copies
		}
		in := fmt.Sprintf("base of length %d, windows %v", n, ws)
		rep.Distinct++
		rep.Nontrivial++
		rep.H("storage:arguments-share-one-array", 1)
		lists := func(cp [][]T) *L[*L[T]] {
			var ls *L[*L[T]]
			for i := len(cp) - 1; i >= 0; i-- {
				ls = &L[*L[T]]{fromSlice(cp[i]), ls}
			}
			return ls
		}
		{
			_, args, cp := mk()
			check(d, "Concat", in, slice.Concat(args), toSlice(mConcat(lists(cp))))
		}
		{
			_, args, cp := mk()
			check(d, "Collect", in+" f=id", slice.Collect(func(x []T) []T { return x }, args), toSlice(mConcat(lists(cp))))
		}
		if k == 2 {
			{
				_, args, cp := mk()
				check(d, "Append", in, slice.Append(args[0], args[1]), toSlice(mAppend(fromSlice(cp[0]), fromSlice(cp[1]))))
			}
			if len(ws) == 2 && ws[0].j-ws[0].i == ws[1].j-ws[1].i {
				_, args, cp := mk()
				var z []frt.Tuple2[T, T]
				if ok, m := call(func() { z = slice.Zip(args[0], args[1]) }); ok {
					checkV(d.name, "Zip", in, fmt.Sprint(z), fmt.Sprint(toSlice(mZip(fromSlice(cp[0]), fromSlice(cp[1])))))
				} else {
					panicked(d.name, "Zip", in, m)
				}
			}
		}
		// a chain: the result of one call is an argument of the next together with its own source
		{
			base, args, cp := mk()
			_ = base
			r1 := slice.Append(args[0], args[1])
			w1 := toSlice(mAppend(fromSlice(cp[0]), fromSlice(cp[1])))
			check(d, "Append", in+" then Concat [result; arg0; arg1]", slice.Concat([][]T{r1, args[0], args[1]}),
				toSlice(mConcat(lists([][]T{w1, cp[0], cp[1]}))))
		}
	}, func(c *explore.Chooser) bool { return !rep.TooMany() })
}

func ints0wide(i int) int { return 3*i - 7 }

func main() {
	maxLen, maxLong, maxChunks := 5, 20, 7
	if len(os.Args) > 1 && os.Args[1] == "thorough" {
		maxLen, maxLong, maxChunks = 7, 66, 10
	}
	ints := &dom[int]{name: "[]int", elems: []int{0, 1, 2}, show: strconv.Itoa, wide: func(i int) int { return 3*i - 7 },
		fs:   []named[func(int) int]{{"succ", func(x int) int { return x + 1 }}, {"double", func(x int) int { return 2 * x }}, {"const7", func(int) int { return 7 }}, {"id", func(x int) int { return x }}},
		ps:   []named[func(int) bool]{{"even", func(x int) bool { return x%2 == 0 }}, {">1", func(x int) bool { return x > 1 }}, {"true", func(int) bool { return true }}, {"false", func(int) bool { return false }}},
		keyI: []named[func(int) int]{{"id", func(x int) int { return x }}, {"neg", func(x int) int { return -x }}, {"mod2", func(x int) int { return x % 2 }}, {"const", func(int) int { return 0 }}},
	}
	strs := &dom[string]{name: "[]string", elems: []string{"", "a", "b"}, show: strconv.Quote, wide: func(i int) string {
		w := string(rune('a'+i/26)) + string(rune('a'+i%26))
		if i%3 == 0 {
			w += "x"
		}
		return w
	},
		fs: []named[func(string) string]{{"addx", func(x string) string { return x + "x" }}, {"dup", func(x string) string { return x + x }}, {"constk", func(string) string { return "k" }}, {"id", func(x string) string { return x }}},
		ps: []named[func(string) bool]{{"empty", func(x string) bool { return x == "" }}, {">a", func(x string) bool { return x > "a" }}, {"true", func(string) bool { return true }}, {"false", func(string) bool { return false }}},
		keyI: []named[func(string) int]{{"len", func(x string) int { return len(x) }}, {"isb", func(x string) int {
			if x == "b" {
				return 0
			}
			return 1
		}}},
	}
	// extreme values: differences and sums that overflow 64 bits (a comparator written as a - b, a key computed
	// by arithmetic), the smallest and the largest int
	ext := &dom[int]{name: "[]int (extreme values)", elems: []int{-9223372036854775808, -5000000000000000000, -1, 3, 5000000000000000000, 9223372036854775807}, show: strconv.Itoa, wide: ints0wide,
		fs:   []named[func(int) int]{{"id", func(x int) int { return x }}},
		ps:   []named[func(int) bool]{{"negative", func(x int) bool { return x < 0 }}},
		keyI: []named[func(int) int]{{"id", func(x int) int { return x }}, {"neg", func(x int) int { return -x }}, {"halve", func(x int) int { return x / 2 }}},
	}
	var st explore.Stats
	st.Add(sweepUnary(ext, 4))
	st.Add(sweepSort(ext, 4))
	st.Add(sweepUnary(ints, maxLen))
	st.Add(sweepUnary(strs, maxLen))
	st.Add(sweepSort(ints, maxLen))
	st.Add(sweepSort(strs, maxLen))
	binLen := maxLen
	if binLen > 6 {
		binLen = 6
	}
	st.Add(sweepBinary(ints, binLen))
	st.Add(sweepBinary(strs, binLen-1))
	st.Add(sweepNested(ints, 3, 2))
	st.Add(sweepNested(strs, 3, 2))
	// the long-slice family
	st.Add(sweepUnaryGen(ints, func(c *explore.Chooser) []int { return genLong(c, ints, maxLong) }))
	st.Add(sweepUnaryGen(strs, func(c *explore.Chooser) []string { return genLong(c, strs, maxLong) }))
	st.Add(sweepSortGen(ints, func(c *explore.Chooser) []int { return genLong(c, ints, maxLong) }))
	st.Add(sweepSortGen(strs, func(c *explore.Chooser) []string { return genLong(c, strs, maxLong) }))
	bigSizes := []int{31, 32, 33, 49, 50, 51, 63, 64, 65}
	if maxLong > 20 {
		bigSizes = []int{127, 128, 129, 255, 256, 257, 1023, 1025}
	}
	st.Add(sweepUnaryGen(ints, func(c *explore.Chooser) []int { return genLongAt(c, ints, bigSizes) }))
	st.Add(sweepUnaryGen(strs, func(c *explore.Chooser) []string { return genLongAt(c, strs, bigSizes) }))
	st.Add(sweepSortGen(ints, func(c *explore.Chooser) []int { return genLongAt(c, ints, bigSizes) }))
	st.Add(sweepSortGen(strs, func(c *explore.Chooser) []string { return genLongAt(c, strs, bigSizes) }))
	rep.Extra["larger_sizes"] = bigSizes
	st.Add(sweepBinaryLong(ints, maxLong+14))
	st.Add(sweepBinaryLong(strs, maxLong+14))
	st.Add(sweepNestedLong(ints, maxChunks))
	st.Add(sweepNestedLong(strs, maxChunks))
	// arguments that share storage
	st.Add(sweepAliased(ints, maxLen))
	st.Add(sweepAliased(strs, maxLen-1))
	// New
	{
		n := slice.New[int]()
		checkV("[]int", "New", "()", len(n), 0)
		ns := slice.New[string]()
		checkV("[]string", "New", "()", len(ns), 0)
	}
	rep.States = st.States
	rep.Trans = st.Transitions
	rep.Extra["explorer_executions"] = st.Executions
	rep.Extra["max_len"] = maxLen
	rep.Extra["max_len_long_family"] = maxLong
	rep.Extra["max_chunks"] = maxChunks
	rep.Emit()
}
