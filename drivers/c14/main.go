//go:build driver

// C14 driver: dict (explicit-state BFS vs. a model map), strings (all short
// arguments vs. Go's strings), buf (all short write sequences), frt helpers.
package main

import (
	"fmt"
	"math"
	"os"
	"sort"
	gostrings "strings"

	"drv/explore"

	"github.com/karino2/folang/pkg/buf"
	"github.com/karino2/folang/pkg/dict"
	"github.com/karino2/folang/pkg/frt"
	fstrings "github.com/karino2/folang/pkg/strings"
)

var rep = NewReport()

func call(f func()) (ok bool, msg string) {
	defer func() {
		if r := recover(); r != nil {
			ok = false
			msg = fmt.Sprint(r)
		}
	}()
	f()
	return true, ""
}

func expect(fn, input string, got, want any) {
	rep.Evals++
	rep.Validated++
	rep.H("fn:"+fn, 1)
	g, w := fmt.Sprintf("%#v", got), fmt.Sprintf("%#v", want)
	if g == w {
		rep.O("agree")
		return
	}
	rep.O("disagree")
	rep.V("C14:"+fn, fmt.Sprintf("%s %s: expected %s, got %s", fn, input, w, g), map[string]any{"function": fn, "input": input, "expected": w, "observed": g})
}

func noPanic(fn, input string, f func()) bool {
	ok, msg := call(f)
	if !ok {
		rep.Evals++
		rep.O("panic")
		rep.V("C14:"+fn+":panic", fmt.Sprintf("%s %s panicked: %s", fn, input, msg), map[string]any{"function": fn, "input": input, "observed": "panic: " + msg})
	}
	return ok
}

// ---------- dict: explicit-state search ----------

type dop struct {
	k string
	v int
}

var dKeys = []string{"a", "b", "c"}
var dVals = []int{1, 2}

func build(hist []dop) dict.Dict[string, int] {
	d := dict.New[string, int]()
	for _, o := range hist {
		dict.Add(d, o.k, o.v)
	}
	return d
}

func canon(m map[string]int) string {
	ks := []string{}
	for k := range m {
		ks = append(ks, k)
	}
	sort.Strings(ks)
	s := ""
	for _, k := range ks {
		s += fmt.Sprintf("%s=%d;", k, m[k])
	}
	return s
}

func checkDictState(hist []dop, d dict.Dict[string, int], m map[string]int) {
	in := fmt.Sprint(hist)
	for _, k := range append(dKeys, "zz") {
		wv, wok := m[k]
		noPanic("dict.ContainsKey", in, func() { expect("dict.ContainsKey", in+" key "+k, dict.ContainsKey(d, k), wok) })
		noPanic("dict.TryFind", in, func() {
			r := dict.TryFind(d, k)
			expect("dict.TryFind", in+" key "+k, fmt.Sprint(r.E0, r.E1), fmt.Sprint(wv, wok))
		})
		if wok {
			noPanic("dict.Item", in, func() { expect("dict.Item", in+" key "+k, dict.Item(d, k), wv) })
		}
	}
	// enumerations: each entry exactly once
	noPanic("dict.Keys", in, func() {
		ks := append([]string{}, dict.Keys(d)...)
		sort.Strings(ks)
		want := []string{}
		for k := range m {
			want = append(want, k)
		}
		sort.Strings(want)
		expect("dict.Keys", in, ks, want)
	})
	noPanic("dict.Values", in, func() {
		vs := append([]int{}, dict.Values(d)...)
		sort.Ints(vs)
		want := []int{}
		for _, v := range m {
			want = append(want, v)
		}
		sort.Ints(want)
		expect("dict.Values", in, vs, want)
	})
	noPanic("dict.KVs", in, func() {
		got := []string{}
		for _, kv := range dict.KVs(d) {
			got = append(got, fmt.Sprintf("%s=%d", kv.E0, kv.E1))
		}
		sort.Strings(got)
		want := []string{}
		for k, v := range m {
			want = append(want, fmt.Sprintf("%s=%d", k, v))
		}
		sort.Strings(want)
		expect("dict.KVs", in, got, want)
	})
}

func dictBFS(depth int) {
	type node struct {
		hist []dop
	}
	seen := map[string]bool{"": true}
	frontier := []node{{nil}}
	checkDictState(nil, build(nil), map[string]int{})
	rep.States++
	for d := 0; d < depth; d++ {
		var next []node
		for _, n := range frontier {
			for _, k := range dKeys {
				for _, v := range dVals {
					h := append(append([]dop{}, n.hist...), dop{k, v})
					// successor = replay of the history on a fresh dictionary + this op
					dd := build(h)
					m := map[string]int{}
					for _, o := range h {
						m[o.k] = o.v
					}
					rep.Trans++
					checkDictState(h, dd, m)
					// an observer must not change the dictionary: check again
					checkDictState(h, dd, m)
					key := canon(m)
					if !seen[key] {
						seen[key] = true
						rep.States++
						rep.Distinct++
						if len(m) >= 2 {
							rep.Nontrivial++
						}
						next = append(next, node{h})
						if len(h) <= 3 {
							rep.Sample(map[string]any{"dict_history": fmt.Sprint(h), "model": key})
						}
					}
				}
			}
		}
		frontier = next
	}
	rep.Extra["dict_states"] = len(seen)
	rep.Extra["dict_depth"] = depth
	// the frontier is empty when all 27 map contents have been reached
	rep.Extra["dict_state_space_closed"] = len(frontier) == 0
}

// dictLong: n distinct keys added one after the other, then every key overwritten in reverse order; every
// observer after every step.  Go maps change representation as they grow (8 entries per bucket, growth
// and evacuation); three keys never leave the first bucket.
func dictLong(n int) {
	d := dict.New[string, int]()
	m := map[string]int{}
	var hist []dop
	keys := make([]string, n)
	for i := range keys {
		keys[i] = fmt.Sprintf("k%02d", (i*7)%n) // not in sorted order
	}
	if n%7 == 0 {
		for i := range keys {
			keys[i] = fmt.Sprintf("k%02d", i)
		}
	}
	checkAll := func() {
		in := fmt.Sprintf("%d adds of distinct keys, last %v", len(hist), hist[len(hist)-1])
		for _, k := range append(append([]string{}, keys...), "zz") {
			wv, wok := m[k]
			expect("dict.ContainsKey", in+" key "+k, dict.ContainsKey(d, k), wok)
			r := dict.TryFind(d, k)
			expect("dict.TryFind", in+" key "+k, fmt.Sprint(r.E0, r.E1), fmt.Sprint(wv, wok))
			if wok {
				expect("dict.Item", in+" key "+k, dict.Item(d, k), wv)
			}
		}
		ks := append([]string{}, dict.Keys(d)...)
		sort.Strings(ks)
		want := []string{}
		for k := range m {
			want = append(want, k)
		}
		sort.Strings(want)
		expect("dict.Keys", in, fmt.Sprint(ks), fmt.Sprint(want))
		vs := append([]int{}, dict.Values(d)...)
		sort.Ints(vs)
		wv := []int{}
		for _, v := range m {
			wv = append(wv, v)
		}
		sort.Ints(wv)
		expect("dict.Values", in, fmt.Sprint(vs), fmt.Sprint(wv))
		got := map[string]int{}
		cnt := 0
		for _, kv := range dict.KVs(d) {
			got[kv.E0] = kv.E1
			cnt++
		}
		expect("dict.KVs", in, canon(got), canon(m))
		expect("dict.KVs(count)", in, cnt, len(m))
		rep.Trans++
		rep.States++
	}
	for i, k := range keys {
		hist = append(hist, dop{k, i})
		dict.Add(d, k, i)
		m[k] = i
		checkAll()
	}
	for i := n - 1; i >= 0; i-- {
		hist = append(hist, dop{keys[i], 1000 + i})
		dict.Add(d, keys[i], 1000+i)
		m[keys[i]] = 1000 + i
		checkAll()
	}
	// ToDict of the same history
	var pairs []frt.Tuple2[string, int]
	for _, o := range hist {
		pairs = append(pairs, frt.NewTuple2(o.k, o.v))
	}
	td := dict.ToDict(pairs)
	got := map[string]int{}
	for _, kv := range dict.KVs(td) {
		got[kv.E0] = kv.E1
	}
	expect("dict.ToDict", fmt.Sprintf("%d pairs", len(pairs)), canon(got), canon(m))
	rep.Extra["dict_long_keys"] = n
}

// all histories (not deduplicated) to a smaller depth: overwrite order matters for Add
func dictHistories(depth int) {
	st := explore.Explore(-1, func(c *explore.Chooser) {
		n := c.Choose(depth + 1)
		var h []dop
		for i := 0; i < n; i++ {
			h = append(h, dop{dKeys[c.Choose(len(dKeys))], dVals[c.Choose(len(dVals))]})
		}
		m := map[string]int{}
		for _, o := range h {
			m[o.k] = o.v
		}
		checkDictState(h, build(h), m)
		// ToDict keeps the last value per key
		var pairs []frt.Tuple2[string, int]
		for _, o := range h {
			pairs = append(pairs, frt.NewTuple2(o.k, o.v))
		}
		noPanic("dict.ToDict", fmt.Sprint(h), func() {
			td := dict.ToDict(pairs)
			got := map[string]int{}
			for _, kv := range dict.KVs(td) {
				got[kv.E0] = kv.E1
			}
			expect("dict.ToDict", fmt.Sprint(h), canon(got), canon(m))
			checkDictState(h, td, m)
		})
		// every origin of the same dictionary: the first s entries through ToDict (s = 0: of an empty and of
		// a nil list), the rest through Add - a dictionary is a finite map wherever it came from
		for s := 0; s <= len(h); s++ {
			for variant := 0; variant < 2; variant++ {
				if variant == 1 && s > 0 {
					continue
				}
				head := append([]frt.Tuple2[string, int]{}, pairs[:s]...)
				if variant == 1 {
					head = nil
				}
				in := fmt.Sprintf("ToDict of the first %d (nil list: %v) then Add of the rest of %v", s, head == nil, h)
				noPanic("dict.ToDict+Add", in, func() {
					td := dict.ToDict(head)
					for _, o := range h[s:] {
						dict.Add(td, o.k, o.v)
					}
					got := map[string]int{}
					for _, kv := range dict.KVs(td) {
						got[kv.E0] = kv.E1
					}
					expect("dict.ToDict+Add", in, canon(got), canon(m))
					checkDictState(h, td, m)
					rep.Trans++
				})
			}
		}
	}, func(c *explore.Chooser) bool { return !rep.TooMany() })
	rep.States += st.States
	rep.Trans += st.Transitions
}

// ---------- strings ----------

func allStrings(alpha []string, maxLen int) []string {
	out := []string{""}
	prev := []string{""}
	for l := 1; l <= maxLen; l++ {
		var cur []string
		for _, p := range prev {
			for _, a := range alpha {
				cur = append(cur, p+a)
			}
		}
		out = append(out, cur...)
		prev = cur
	}
	return out
}

func stringsSweep(maxLen int) {
	alpha := []string{"a", "b", ","}
	all := allStrings(alpha, maxLen)
	short := allStrings(alpha, 2)
	// long strings: lengths around the sizes at which string algorithms switch (8, 16, 32, 64), one or two
	// separators at every position
	for _, n := range []int{7, 8, 9, 15, 16, 17, 31, 32, 33, 63, 64, 65, 70} {
		base := []byte(gostrings.Repeat("ab", n)[:n])
		all = append(all, string(base))
		for p := 0; p < n; p++ {
			b := append([]byte{}, base...)
			b[p] = ','
			all = append(all, string(b))
			b[n-1] = ','
			all = append(all, string(b))
			b[0] = ','
			all = append(all, string(b))
		}
	}
	for _, s := range all {
		q := fmt.Sprintf("%q", s)
		expect("strings.Length", q, fstrings.Length(s), len(s))
		expect("strings.IsEmpty", q, fstrings.IsEmpty(s), s == "")
		expect("strings.IsNotEmpty", q, fstrings.IsNotEmpty(s), s != "")
		rep.Distinct++
		if len(s) >= 2 {
			rep.Nontrivial++
		}
		for _, t := range short {
			in := fmt.Sprintf("%q %q", t, s)
			expect("strings.AppendTail", in, fstrings.AppendTail(t, s), s+t)
			expect("strings.AppendHead", in, fstrings.AppendHead(t, s), t+s)
			expect("strings.HasSuffix", in, fstrings.HasSuffix(t, s), gostrings.HasSuffix(s, t))
			expect("strings.HasPrefix", in, fstrings.HasPrefix(t, s), gostrings.HasPrefix(s, t))
			expect("strings.TrimSuffix", in, fstrings.TrimSuffix(t, s), gostrings.TrimSuffix(s, t))
			if t != "" {
				expect("strings.Split", in, fstrings.Split(t, s), gostrings.Split(s, t))
				for n := -1; n <= 3; n++ {
					expect("strings.SplitN", fmt.Sprintf("%d %s", n, in), fstrings.SplitN(n, t, s), gostrings.SplitN(s, t, n))
				}
			} else {
				// empty separator: Go splits into UTF-8 sequences; same contract
				expect("strings.Split", in, fstrings.Split(t, s), gostrings.Split(s, t))
			}
		}
	}
	// EncloseWith beg end center
	for _, b := range short {
		for _, e := range short {
			for _, c := range short {
				expect("strings.EncloseWith", fmt.Sprintf("%q %q %q", b, e, c), fstrings.EncloseWith(b, e, c), b+c+e)
			}
		}
	}
	// Concat sep xs: lists of up to 3 strings of length <= 2 (explorer)
	st := explore.Explore(-1, func(c *explore.Chooser) {
		sep := []string{",", "", "ab"}[c.Choose(3)]
		n := c.Choose(4)
		xs := make([]string, n)
		for i := range xs {
			xs[i] = []string{"a", "", "b,", "ab"}[c.Choose(4)]
		}
		expect("strings.Concat", fmt.Sprintf("%q %q", sep, xs), fstrings.Concat(sep, xs), gostrings.Join(xs, sep))
	}, func(c *explore.Chooser) bool { return !rep.TooMany() })
	rep.States += st.States
	rep.Trans += st.Transitions
	// Concat over longer lists: 4..12 elements, each empty or not, 3 separators
	st = explore.Explore(-1, func(c *explore.Chooser) {
		sep := []string{",", "", "ab"}[c.Choose(3)]
		n := 4 + c.Choose(9)
		xs := make([]string, n)
		for i := range xs {
			if c.Choose(2) == 1 {
				xs[i] = string(rune('a' + i))
			}
		}
		expect("strings.Concat", fmt.Sprintf("%q %q", sep, xs), fstrings.Concat(sep, xs), gostrings.Join(xs, sep))
	}, func(c *explore.Chooser) bool { return !rep.TooMany() })
	rep.States += st.States
	rep.Trans += st.Transitions
	rep.Sample(map[string]any{"strings_argument_alphabet": alpha, "max_len": maxLen, "count": len(all)})
}

// ---------- buf ----------

func bufSweep(maxWrites int) {
	st := explore.Explore(-1, func(c *explore.Chooser) {
		n := c.Choose(maxWrites + 1)
		b := buf.New()
		want := ""
		var ws []string
		for i := 0; i < n; i++ {
			w := []string{"a", "", "bc", "\n"}[c.Choose(4)]
			ws = append(ws, w)
			buf.Write(b, w)
			want += w
			// String is an observer: it may be called between writes
			if c.Choose(2) == 1 {
				expect("buf.String", fmt.Sprintf("%q (intermediate)", ws), buf.String(b), want)
			}
		}
		expect("buf.String", fmt.Sprintf("%q", ws), buf.String(b), want)
		// two buffers are independent
		b2 := buf.New()
		buf.Write(b2, "z")
		expect("buf.String", fmt.Sprintf("%q (after a write to another buffer)", ws), buf.String(b), want)
	}, func(c *explore.Chooser) bool { return !rep.TooMany() })
	rep.States += st.States
	rep.Trans += st.Transitions
}

// bufLong: writes of sizes around bytes.Buffer's small-buffer and growth thresholds
func bufLong(maxWrites int) {
	chunks := []string{"", "x", gostrings.Repeat("y", 63), gostrings.Repeat("z", 65), gostrings.Repeat("w", 1025)}
	st := explore.Explore(-1, func(c *explore.Chooser) {
		n := 1 + c.Choose(maxWrites)
		b := buf.New()
		want := ""
		var ws []int
		for i := 0; i < n; i++ {
			k := c.Choose(len(chunks))
			ws = append(ws, len(chunks[k]))
			buf.Write(b, chunks[k])
			want += chunks[k]
		}
		expect("buf.String", fmt.Sprintf("writes of sizes %v", ws), buf.String(b) == want, true)
		expect("buf.String", fmt.Sprintf("writes of sizes %v (second read)", ws), buf.String(b) == want, true)
	}, func(c *explore.Chooser) bool { return !rep.TooMany() })
	rep.States += st.States
	rep.Trans += st.Transitions
}

// ---------- frt ----------

type myStruct struct {
	A int
	B string
}

func frtSweep() {
	// Pipe / PipeUnit
	for _, x := range []int{0, 1, -5} {
		calls := 0
		f := func(v int) string { calls++; return fmt.Sprint("f", v) }
		expect("frt.Pipe", fmt.Sprint(x), frt.Pipe(x, f), fmt.Sprint("f", x))
		expect("frt.Pipe(calls)", fmt.Sprint(x), calls, 1)
		got := []int{}
		frt.PipeUnit(x, func(v int) { got = append(got, v) })
		expect("frt.PipeUnit", fmt.Sprint(x), got, []int{x})
	}
	// IfElse / IfElseUnit / IfOnly with counting thunks
	for _, cond := range []bool{true, false} {
		t, f := 0, 0
		r := frt.IfElse(cond, func() string { t++; return "T" }, func() string { f++; return "F" })
		wt, wf, wr := 0, 1, "F"
		if cond {
			wt, wf, wr = 1, 0, "T"
		}
		expect("frt.IfElse", fmt.Sprint(cond), fmt.Sprint(r, t, f), fmt.Sprint(wr, wt, wf))
		t, f = 0, 0
		frt.IfElseUnit(cond, func() { t++ }, func() { f++ })
		expect("frt.IfElseUnit", fmt.Sprint(cond), fmt.Sprint(t, f), fmt.Sprint(wt, wf))
		t = 0
		frt.IfOnly(cond, func() { t++ })
		expect("frt.IfOnly", fmt.Sprint(cond), t, wt)
		expect("frt.OpNot", fmt.Sprint(cond), frt.OpNot(cond), !cond)
		for _, c2 := range []bool{true, false} {
			expect("frt.OpAnd", fmt.Sprint(cond, c2), frt.OpAnd(cond, c2), cond && c2)
		}
	}
	// tuples
	for _, a := range []int{0, 7} {
		for _, b := range []string{"", "x"} {
			t2 := frt.NewTuple2(a, b)
			expect("frt.Fst", fmt.Sprint(a, b), frt.Fst(t2), a)
			expect("frt.Snd", fmt.Sprint(a, b), frt.Snd(t2), b)
			x, y := frt.Destr2(t2)
			expect("frt.Destr2", fmt.Sprint(a, b), fmt.Sprint(x, y), fmt.Sprint(a, b))
			x, y = frt.Destr(t2)
			expect("frt.Destr", fmt.Sprint(a, b), fmt.Sprint(x, y), fmt.Sprint(a, b))
			expect("frt.NewTuple2", fmt.Sprint(a, b), frt.NewTuple2(frt.Fst(t2), frt.Snd(t2)) == t2, true)
			for _, c := range []bool{true, false} {
				t3 := frt.NewTuple3(a, b, c)
				p, q, r := frt.Destr3(t3)
				expect("frt.Destr3", fmt.Sprint(a, b, c), fmt.Sprint(p, q, r), fmt.Sprint(a, b, c))
				expect("frt.NewTuple3", fmt.Sprint(a, b, c), frt.NewTuple3(p, q, r) == t3, true)
			}
		}
	}
	// formatting helpers over every Go basic kind at boundary values
	type fv struct {
		name string
		v    any
		want string // display form: %d for ints, %f for floats, string itself, %v otherwise
	}
	var vals []fv
	addI := func(name string, v any) { vals = append(vals, fv{name, v, fmt.Sprintf("%d", v)}) }
	for _, v := range []int{0, 1, -1, math.MaxInt, math.MinInt} {
		addI("int", v)
	}
	for _, v := range []int8{0, 1, -1, math.MaxInt8, math.MinInt8} {
		addI("int8", v)
	}
	for _, v := range []int16{0, 1, -1, math.MaxInt16, math.MinInt16} {
		addI("int16", v)
	}
	for _, v := range []int32{0, 1, -1, math.MaxInt32, math.MinInt32} {
		addI("int32", v)
	}
	for _, v := range []int64{0, 1, -1, math.MaxInt64, math.MinInt64} {
		addI("int64", v)
	}
	for _, v := range []uint{0, 1, math.MaxUint} {
		addI("uint", v)
	}
	for _, v := range []uint8{0, 1, math.MaxUint8} {
		addI("uint8", v)
	}
	for _, v := range []uint16{0, 1, math.MaxUint16} {
		addI("uint16", v)
	}
	for _, v := range []uint32{0, 1, math.MaxUint32} {
		addI("uint32", v)
	}
	for _, v := range []uint64{0, 1, math.MaxUint64} {
		addI("uint64", v)
	}
	for _, v := range []uintptr{0, 1, math.MaxUint64} {
		addI("uintptr", v)
	}
	for _, v := range []float32{0, 1.5, -2.25, math.MaxFloat32} {
		vals = append(vals, fv{"float32", v, fmt.Sprintf("%f", v)})
	}
	for _, v := range []float64{0, 1.5, -2.25, math.MaxFloat64, math.SmallestNonzeroFloat64} {
		vals = append(vals, fv{"float64", v, fmt.Sprintf("%f", v)})
	}
	for _, v := range []string{"", "a", "%d", "{x}", "é"} {
		vals = append(vals, fv{"string", v, v})
	}
	for _, v := range []bool{true, false} {
		vals = append(vals, fv{"bool", v, fmt.Sprintf("%v", v)})
	}
	vals = append(vals, fv{"struct", myStruct{1, "x"}, fmt.Sprintf("%v", myStruct{1, "x"})})
	vals = append(vals, fv{"slice", []int{1, 2}, fmt.Sprintf("%v", []int{1, 2})})
	vals = append(vals, fv{"nil-slice", []int(nil), fmt.Sprintf("%v", []int(nil))})
	vals = append(vals, fv{"nil", nil, fmt.Sprintf("%v", nil)})
	vals = append(vals, fv{"tuple", frt.NewTuple2(1, "a"), fmt.Sprintf("%v", frt.NewTuple2(1, "a"))})
	for _, x := range vals {
		in := fmt.Sprintf("%s %#v", x.name, x.v)
		noPanic("frt.SInterP", in, func() {
			expect("frt.SInterP", in, frt.SInterP("<%s>", x.v), "<"+x.want+">")
		})
		noPanic("frt.SInterP", in+" (two holes)", func() {
			expect("frt.SInterP", in+" (two holes)", frt.SInterP("%s|%s", x.v, "k"), x.want+"|k")
		})
		noPanic("frt.Sprintf1", in, func() {
			expect("frt.Sprintf1", in, frt.Sprintf1("[%v]", x.v), fmt.Sprintf("[%v]", x.v))
		})
		noPanic("frt.Sprintf2", in, func() {
			expect("frt.Sprintf2", in, frt.Sprintf2("[%v,%v]", x.v, 1), fmt.Sprintf("[%v,%v]", x.v, 1))
			expect("frt.Sprintf2", in+" (swapped)", frt.Sprintf2("[%v,%v]", "s", x.v), fmt.Sprintf("[%v,%v]", "s", x.v))
		})
		rep.Distinct++
		rep.Nontrivial++
	}
	// integer verbs through Sprintf1
	expect("frt.Sprintf1", "%d 42", frt.Sprintf1("%d", 42), "42")
	expect("frt.Sprintf1", "%s str", frt.Sprintf1("%s", "str"), "str")
	expect("frt.Sprintf2", "%s %d", frt.Sprintf2("%s=%d", "k", 3), "k=3")
	expect("frt.SInterP", "no args", frt.SInterP("plain"), "plain")
	// SInterP formats: every sequence of up to 4 (thorough 6) tokens out of hole, doubled percent and
	// letters that form a verb when they follow a percent sign; fc emits exactly such formats for $"..."
	{
		toks := []string{"%s", "%%", "s", "d", "x "}
		maxTok := 4
		if len(os.Args) > 1 && os.Args[1] == "thorough" {
			maxTok = 6
		}
		var gen func(prefix string, holes, left int)
		gen = func(prefix string, holes, left int) {
			args := make([]any, holes)
			for i := range args {
				args[i] = string(rune('A' + i))
			}
			in := fmt.Sprintf("format %q with %d holes", prefix, holes)
			noPanic("frt.SInterP", in, func() {
				expect("frt.SInterP", in, frt.SInterP(prefix, args...), fmt.Sprintf(prefix, args...))
			})
			rep.Distinct++
			if gostrings.Contains(prefix, "%%") {
				rep.Nontrivial++
			}
			if left == 0 {
				return
			}
			for _, t := range toks {
				h := holes
				if t == "%s" {
					h++
				}
				gen(prefix+t, h, left-1)
			}
		}
		gen("", 0, maxTok)
	}
	// Printf1 / Println write to stdout: captured through a pipe
	{
		r, w, _ := os.Pipe()
		old := os.Stdout
		os.Stdout = w
		frt.Printf1("<%d>", 5)
		frt.Println("line")
		frt.Printf1("%s", "s")
		os.Stdout = old
		w.Close()
		b := make([]byte, 100)
		n, _ := r.Read(b)
		expect("frt.Printf1/Println", "<%d> 5; line; %s s", string(b[:n]), "<5>line\ns")
	}
	// Sprintf1 / Printf1 / Sprintf2 over formats with doubled percent signs and arguments that contain a percent
	// sign: text before x verb x text after (the formatted text must never be formatted a second time)
	{
		capture := func(f func()) string {
			r, w, _ := os.Pipe()
			old := os.Stdout
			os.Stdout = w
			f()
			os.Stdout = old
			w.Close()
			var sb gostrings.Builder
			b := make([]byte, 4096)
			for {
				n, err := r.Read(b)
				sb.Write(b[:n])
				if err != nil || n == 0 {
					break
				}
			}
			r.Close()
			return sb.String()
		}
		texts := []string{"", "%%", "a", "50%% ", "%%%%", "\n"}
		type va struct {
			verb string
			arg  any
		}
		vas := []va{{"%d", 42}, {"%s", "s"}, {"%s", "12%"}, {"%v", "1%%"}, {"%v", true}, {"%s", "%d"}, {"%v", []string{"%"}}}
		for _, before := range texts {
			for _, v := range vas {
				for _, after := range texts {
					f := before + v.verb + after
					in := fmt.Sprintf("format %q argument %#v", f, v.arg)
					want := fmt.Sprintf(f, v.arg)
					noPanic("frt.Sprintf1", in, func() { expect("frt.Sprintf1", in, frt.Sprintf1(f, v.arg), want) })
					noPanic("frt.Printf1", in, func() { expect("frt.Printf1", in, capture(func() { frt.Printf1(f, v.arg) }), want) })
					f2 := f + "|" + v.verb
					want2 := fmt.Sprintf(f2, v.arg, v.arg)
					noPanic("frt.Sprintf2", in, func() { expect("frt.Sprintf2", in+" (twice)", frt.Sprintf2(f2, v.arg, v.arg), want2) })
					rep.Distinct++
					rep.Nontrivial++
				}
			}
		}
		for _, t := range []string{"", "a", "50%", "%d", "%%", "a\nb"} {
			noPanic("frt.Println", t, func() { expect("frt.Println", fmt.Sprintf("%q", t), capture(func() { frt.Println(t) }), t+"\n") })
		}
	}
	// Empty
	expect("frt.Empty", "int", frt.Empty[int](), 0)
	expect("frt.Empty", "string", frt.Empty[string](), "")
	// Assert / Panic family: panic exactly when specified
	ok, _ := call(func() { frt.Assert(true, "m") })
	expect("frt.Assert", "true", ok, true)
	ok, msg := call(func() { frt.Assert(false, "m") })
	expect("frt.Assert", "false", fmt.Sprintf("%v %s", ok, msg), "false m")
	ok, msg = call(func() { frt.Panicf1("x%d", 1) })
	expect("frt.Panicf1", "x%d 1", fmt.Sprintf("%v %s", ok, msg), "false x1")
	ok, msg = call(func() { frt.Panicf2("x%d%s", 1, "y") })
	expect("frt.Panicf2", "x%d%s 1 y", fmt.Sprintf("%v %s", ok, msg), "false x1y")
}

func main() {
	depth, slen, writes, longWrites := 4, 3, 3, 4
	longKeys := []int{9, 20, 40}
	if len(os.Args) > 1 && os.Args[1] == "thorough" {
		depth, slen, writes, longWrites = 6, 4, 4, 6
		longKeys = []int{9, 17, 20, 33, 40, 70, 140}
	}
	dictBFS(depth + 2)
	dictHistories(depth)
	for _, n := range longKeys {
		dictLong(n)
	}
	stringsSweep(slen)
	bufSweep(writes)
	bufLong(longWrites)
	frtSweep()
	rep.Extra["history_depth"] = depth
	rep.Emit()
}
