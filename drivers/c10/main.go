//go:build driver

// C10 driver (static part): all ordered pairs of values of each generated type
// through the transpiled `=` / `<>` functions and frt.OpEqual, vs. equality of
// the canonical descriptions.
package main

import (
	"encoding/json"
	"fmt"
	"os"
	"os/exec"
	"strings"
	"sync"
)

// rot: rotation of the value order (child processes: C10_ROT=k).  Whatever an equality remembers per type from
// the FIRST value it sees is fixed by the first comparison of a process; rotating the order makes the first
// value one of another union case.
var rot = 0

var transMax = 12

func init() {
	if len(os.Args) > 1 && os.Args[1] == "thorough" {
		transMax = 24
	}
}

type typ struct {
	id     int
	kind   string
	fo     string
	n      int
	canon  []string
	how    []string
	eq     func(i, j int) bool
	ne     func(i, j int) bool
	direct func(i, j int) bool
	hasUnion bool
	// related pairs: b derived from a (may share storage); op 0 "=", 1 "<>", 2 OpEqual
	nrel     int
	relCanon [][2]string
	relHow   []string
	rel      func(k, op int, swap bool) bool
}

var types []*typ

func register(t *typ) { types = append(types, t) }

var rep = NewReport()

func try(f func(i, j int) bool, i, j int) (res bool, panicked bool, msg string) {
	defer func() {
		if r := recover(); r != nil {
			panicked = true
			msg = fmt.Sprint(r)
			if len(msg) > 300 {
				msg = msg[:300]
			}
		}
	}()
	return f(i, j), false, ""
}

func main() {
	child := false
	if v := os.Getenv("C10_ROT"); v != "" {
		fmt.Sscan(v, &rot)
		child = true
	}
	var wg sync.WaitGroup
	sem := make(chan struct{}, 16)
	for _, t := range types {
		if child && !t.hasUnion {
			continue
		}
		wg.Add(1)
		sem <- struct{}{}
		go func(t *typ) {
			defer wg.Done()
			defer func() { <-sem }()
			one(t)
		}(t)
	}
	wg.Wait()
	rep.Extra["types_in_chunk"] = len(types)
	if !child {
		// further rounds in fresh processes
		for k := 1; k <= 2; k++ {
			cmd := exec.Command(os.Args[0], os.Args[1:]...)
			cmd.Env = append(os.Environ(), fmt.Sprintf("C10_ROT=%d", k))
			out, err := cmd.Output()
			i := strings.LastIndex(string(out), "\n@@REPORT ")
			if i < 0 {
				fmt.Fprintln(os.Stderr, "c10: rotated round produced no report:", err)
				os.Exit(3)
			}
			var cr Report
			js := string(out)[i+len("\n@@REPORT "):]
			if nl := strings.Index(js, "\n"); nl >= 0 {
				js = js[:nl]
			}
			if err := json.Unmarshal([]byte(js), &cr); err != nil {
				fmt.Fprintln(os.Stderr, "c10: rotated round report:", err)
				os.Exit(3)
			}
			rep.Evals += cr.Evals
			rep.Validated += cr.Validated
			rep.Trans += cr.Trans
			for k2, v := range cr.Outcomes {
				rep.Outcomes[k2] += v
			}
			rep.H("kind:rotated-rounds", cr.Evals)
			for _, v := range cr.Violations {
				rep.V(v.Sig, fmt.Sprintf("[value order rotated by %d, fresh process] %s", k, v.What), v.Replay)
			}
		}
		rep.Extra["rotated_rounds"] = 2
	}
	rep.Emit()
}

var cmu sync.Mutex

func one(t *typ) {
	var evals, validated, trans, distinct, nontrivial int64
	defer func() {
		cmu.Lock()
		rep.States++
		rep.Evals += evals
		rep.Validated += validated
		rep.Trans += trans
		rep.Distinct += distinct
		rep.Nontrivial += nontrivial
		cmu.Unlock()
	}()
	{
		for ii := 0; ii < t.n; ii++ {
			i := (ii + rot) % t.n
			distinct++
			if t.kind != "int" && t.kind != "string" && t.kind != "bool" {
				nontrivial++
			}
			for jj := 0; jj < t.n; jj++ {
				j := (jj + rot) % t.n
				trans++
				want := t.canon[i] == t.canon[j]
				in := fmt.Sprintf("type %s: %s (%s) vs %s (%s)", t.fo, t.canon[i], t.how[i], t.canon[j], t.how[j])
				for _, f := range []struct {
					name string
					fn   func(i, j int) bool
					want bool
				}{{"=", t.eq, want}, {"<>", t.ne, !want}, {"OpEqual", t.direct, want}} {
					evals++
					validated++
					got, p, msg := try(f.fn, i, j)
					rep.H("kind:"+t.kind, 1)
					if p {
						rep.O("panic")
						sig := "C10:panic:" + t.kind
						if t.kind == "slice" || t.kind == "pair" || t.kind == "triple" || t.kind == "union" || t.kind == "generic-union" || t.kind == "record-upper" {
							// a panic on a container is almost always caused by what it contains
							sig = "C10:panic:nested"
						}
						rep.V(sig, fmt.Sprintf("%s panicked on %s: %s", f.name, in, msg), map[string]any{"type": t.fo, "a": t.canon[i], "a_how": t.how[i], "b": t.canon[j], "b_how": t.how[j], "op": f.name, "observed": "panic: " + msg})
						continue
					}
					if got != f.want {
						rep.O("wrong")
						sig := "C10:wrong:" + t.kind
						if t.canon[i] == t.canon[j] {
							sig = "C10:equal-values-differ:" + t.kind
						}
						rep.V(sig, fmt.Sprintf("%s gave %v on %s", f.name, got, in), map[string]any{"type": t.fo, "a": t.canon[i], "a_how": t.how[i], "b": t.canon[j], "b_how": t.how[j], "op": f.name, "expected": f.want, "observed": got})
						continue
					}
					rep.O("agree")
				}
				if i == 0 && j == 1 && t.id%97 == 0 {
					rep.Sample(map[string]any{"type": t.fo, "a": t.canon[i] + " via " + t.how[i], "b": t.canon[j] + " via " + t.how[j], "equal": want})
				}
			}
		}
		// related pairs: a value and a value derived from it (views of the same storage), both operand orders
		for k := 0; k < t.nrel; k++ {
			for _, swap := range []bool{false, true} {
				want := t.relCanon[k][0] == t.relCanon[k][1]
				in := fmt.Sprintf("type %s: a = %s, b = %s derived as %s (swapped=%v)", t.fo, t.relCanon[k][0], t.relCanon[k][1], t.relHow[k], swap)
				for op, name := range []string{"=", "<>", "OpEqual"} {
					w := want
					if op == 1 {
						w = !want
					}
					evals++
					validated++
					trans++
					rep.H("kind:related-pairs", 1)
					got, p, msg := try(func(i, j int) bool { return t.rel(k, op, swap) }, 0, 0)
					if p {
						rep.O("panic")
						rep.V("C10:panic:related", fmt.Sprintf("%s panicked on %s: %s", name, in, msg), map[string]any{"type": t.fo, "pair": in, "op": name, "observed": "panic: " + msg})
						continue
					}
					if got != w {
						rep.O("wrong")
						rep.V("C10:wrong:related-pair", fmt.Sprintf("%s gave %v on %s", name, got, in), map[string]any{"type": t.fo, "pair": in, "op": name, "expected": w, "observed": got})
						continue
					}
					rep.O("agree")
				}
			}
		}
		// transitivity directly on small domains
		if t.n <= transMax {
			for i := 0; i < t.n; i++ {
				for j := 0; j < t.n; j++ {
					for k := 0; k < t.n; k++ {
						ij, p1, _ := try(t.direct, i, j)
						jk, p2, _ := try(t.direct, j, k)
						ik, p3, _ := try(t.direct, i, k)
						evals++
						if p1 || p2 || p3 {
							continue
						}
						if ij && jk && !ik {
							rep.V("C10:not-transitive:"+t.kind, fmt.Sprintf("type %s: %s = %s and %s = %s but not %s = %s", t.fo, t.canon[i], t.canon[j], t.canon[j], t.canon[k], t.canon[i], t.canon[k]), map[string]any{"type": t.fo})
						}
					}
				}
			}
		}
	}
}
