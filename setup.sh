#!/bin/sh
# builds the framework and the warm base of the Go build cache; offline
set -e
cd "$(dirname "$0")"
export GOFLAGS=-mod=mod GOPROXY=off GOSUMDB=off GOTOOLCHAIN=local
mkdir -p bin evidence replays
go build -o bin/vcheck ./cmd/vcheck
# The checks never use the shared GOCACHE (every batch of generated programs is a new package; the shared
# cache grew to >100 GB in a day).  Each vcheck process hard-links this base into a private cache and removes
# it when it exits.  The base holds the standard library and the repository's dependencies (go-cmp).
if [ ! -d bin/gocache-base ]; then
  B="$(pwd)/bin/gocache-base.tmp.$$"
  rm -rf "$B"; mkdir -p "$B"
  T=$(mktemp -d)
  trap 'rm -rf "$T" "$B"' EXIT
  rsync -a --exclude .git --exclude /fc/fc --exclude /cmd/build_sample_md/build_sample_md /repo/ "$T/src/"
  GOCACHE="$B" go build std
  (cd "$T/src/fc" && GOCACHE="$B" go build -o "$T/fc" . ) || true
  (cd "$T/src/pkg/frt" && GOCACHE="$B" go build ./... ) || true
  (cd "$T/src/tinyfo" && GOCACHE="$B" go build -o "$T/tinyfo" . ) || true
  GOCACHE="$B" go build -o "$T/vc" ./cmd/vcheck || true
  mv "$B" bin/gocache-base
  rm -rf "$T"
  trap - EXIT
fi
echo setup done
