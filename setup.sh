#!/bin/sh
# builds the framework and warms the Go build cache; offline
set -e
cd "$(dirname "$0")"
export GOFLAGS=-mod=mod GOPROXY=off GOSUMDB=off GOTOOLCHAIN=local
mkdir -p bin evidence replays
go build -o bin/vcheck ./cmd/vcheck
# warm the build cache for the repository's packages (a scratch copy; /repo is never written)
T=$(mktemp -d)
trap 'rm -rf "$T"' EXIT
rsync -a --exclude .git --exclude /fc/fc --exclude /cmd/build_sample_md/build_sample_md /repo/ "$T/src/"
(cd "$T/src/fc" && go build -o "$T/fc" . ) || true
(cd "$T/src/fc" && go build -tags verif -o "$T/fcv" . ) || true
(cd "$T/src/tinyfo" && go build -o "$T/tinyfo" . ) || true
(cd "$T/src/cmd/build_sample_md" && go build -o "$T/bsm" . ) || true
echo setup done
