#!/bin/sh
# check.sh <ID> <quick|thorough> [--replay <file>]  -- the only entry point registered in MANIFEST.json
set -e
cd "$(dirname "$0")"
export VERIF_DIR="$(pwd)"
export GOFLAGS=-mod=mod GOPROXY=off GOSUMDB=off GOTOOLCHAIN=local
if [ ! -x bin/vcheck ] || [ -n "$(find cmd internal go.mod -newer bin/vcheck -print -quit 2>/dev/null)" ]; then
  mkdir -p bin
  go build -o bin/vcheck ./cmd/vcheck
fi
if [ ! -d bin/gocache-base ]; then
  sh ./setup.sh >/dev/null 2>&1 || true
fi
set +e
# the harness itself must never exhaust the machine (no memory limit in the sandbox): 40 GB of address space
ulimit -v 41943040 2>/dev/null
exec bin/vcheck "$@"
