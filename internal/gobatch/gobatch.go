// Package gobatch compiles and runs many generated Folang programs per `go
// build`: N groups of uniquely suffixed definitions in one .fo file plus a main
// that runs run_k () for each k under a Go-side RunGuard.  A verdict about a
// failing program is only issued on a run of that program alone (own fc
// process, own package), so batching can never create or hide a verdict.
package gobatch

import (
	"fmt"
	"go/ast"
	"go/parser"
	"go/token"
	"os"
	"path/filepath"
	"regexp"
	"strconv"
	"strings"
	"time"

	"verif/internal/impl"
)

// Prog is one generated program.  Defs must define a unit function named Run
// (`let run_7 () = ...`); every top-level name in Defs must be unique across the
// batch (by convention: suffixed with _<k>).
type Prog struct {
	Defs string
	Run  string
	// GoMain: Go top-level declarations of this program for package main (client code);
	// GoPkg: Go top-level declarations for sub-packages (name -> code).
	GoMain string
	GoPkg  map[string]string
}

// Result of one program.
type Result struct {
	Status string // ok | fc-reject | go-build | panic | crash | timeout
	Stdout string // output of the program (between its delimiters)
	Detail string // diagnostic for non-ok
	Alone  bool   // verdict comes from a run of this program alone
	Source string // the complete single-program source (set for non-ok results)
}

// Env is how a batch is built.
type Env struct {
	Sc      *impl.Scratch
	FC      string   // path of the fc (or tinyfo) binary
	FCArgs  []string // arguments before the source file (e.g. pkg_all.foi)
	Prelude string   // package clause, imports, shared definitions
	ExtraGo map[string]string
	// GoMainHeader starts client.go (package clause and imports) when programs carry GoMain code;
	// GoPkgHeader starts each sub-package file (always written).
	GoMainHeader string
	GoPkgHeader  map[string]string
	Builds       *int64 // optional counters
	NoRunMain    bool
	// OnGen, if set, receives the emitted gen_t.go of every successful transpiler run.
	OnGen func(gen string)
}

const guardGo = `package main

import (
	"fmt"
	"os"
)

func RunGuard(k int, f func()) {
	fmt.Printf("\n@@BEGIN %d\n", k)
	defer func() {
		if r := recover(); r != nil {
			fmt.Printf("\n@@PANIC %v", r)
		}
		fmt.Printf("\n@@END %d\n", k)
		os.Stdout.Sync()
	}()
	f()
}
`

const guardFo = `package_info _ =
  let RunGuard: int->(()->())->()

`

// Render builds the single source file for progs (ids are the RunGuard keys).
func (e *Env) Render(progs []Prog, ids []int) (src string, ranges [][2]int) {
	var sb strings.Builder
	sb.WriteString(e.Prelude)
	if !strings.HasSuffix(e.Prelude, "\n\n") {
		sb.WriteString("\n")
	}
	sb.WriteString(guardFo)
	line := strings.Count(sb.String(), "\n") + 1
	for _, p := range progs {
		d := p.Defs
		if !strings.HasSuffix(d, "\n") {
			d += "\n"
		}
		n := strings.Count(d, "\n")
		ranges = append(ranges, [2]int{line, line + n})
		sb.WriteString(d)
		sb.WriteString("\n")
		line += n + 1
	}
	sb.WriteString("let main () =\n")
	for i, p := range progs {
		fmt.Fprintf(&sb, "  RunGuard %d %s\n", ids[i], p.Run)
	}
	return sb.String(), ranges
}

var fcPos = regexp.MustCompile(`(?m)^[^:\n]*\.fo: (\d+):(\d+):`)
var goPos = regexp.MustCompile(`(?m)^\./gen_t\.go:(\d+):(\d+): (.*)$`)

// Run executes all programs, batched; results are index-aligned with progs.
func (e *Env) Run(progs []Prog) []Result {
	res := make([]Result, len(progs))
	idx := make([]int, len(progs))
	for i := range idx {
		idx[i] = i
	}
	e.run(progs, idx, res)
	return res
}

func (e *Env) run(all []Prog, idx []int, res []Result) {
	if len(idx) == 0 {
		return
	}
	progs := make([]Prog, len(idx))
	for i, k := range idx {
		progs[i] = all[k]
	}
	alone := len(idx) == 1
	dir := e.Sc.TempDir("gb_")
	defer os.RemoveAll(dir)
	src, ranges := e.Render(progs, idx)
	os.WriteFile(filepath.Join(dir, "t.fo"), []byte(src), 0o644)
	fail := func(k int, status, detail string) {
		res[k] = Result{Status: status, Detail: detail, Alone: true, Source: src}
	}
	split := func(offenders map[int]bool) {
		// offenders (positions in idx) are re-run alone, the rest as one batch
		var rest []int
		for i, k := range idx {
			if offenders[i] {
				e.run(all, []int{k}, res)
			} else {
				rest = append(rest, k)
			}
		}
		e.run(all, rest, res)
	}
	bisect := func() {
		h := len(idx) / 2
		e.run(all, idx[:h], res)
		e.run(all, idx[h:], res)
	}
	args := append(append([]string{}, e.FCArgs...), "t.fo")
	r := impl.RunWithRetry(dir, 120*time.Second, 300*time.Second, e.FC, args...)
	if e.Builds != nil {
		*e.Builds++
	}
	if r.TimedOut || r.Exit != 0 {
		if alone {
			st := "fc-reject"
			if r.TimedOut {
				st = "timeout"
			}
			fail(idx[0], st, strings.TrimSpace(r.Out()))
			return
		}
		off := map[int]bool{}
		for _, m := range fcPos.FindAllStringSubmatch(r.Out(), -1) {
			ln, _ := strconv.Atoi(m[1])
			for i, rg := range ranges {
				if ln >= rg[0] && ln <= rg[1] {
					off[i] = true
				}
			}
		}
		if len(off) == 0 {
			bisect()
		} else {
			split(off)
		}
		return
	}
	if e.OnGen != nil {
		if b, err := os.ReadFile(filepath.Join(dir, "gen_t.go")); err == nil {
			e.OnGen(string(b))
		}
	}
	os.WriteFile(filepath.Join(dir, "guard.go"), []byte(guardGo), 0o644)
	extra := map[string]string{}
	for n, c := range e.ExtraGo {
		extra[n] = c
	}
	// per-program Go code: only that of the programs in this run
	for _, p := range progs {
		if p.GoMain != "" {
			if _, ok := extra["client.go"]; !ok {
				extra["client.go"] = e.GoMainHeader
			}
			extra["client.go"] += p.GoMain + "\n"
		}
		for pkg, code := range p.GoPkg {
			fn := pkg + "/" + pkg + ".go"
			if _, ok := extra[fn]; !ok {
				extra[fn] = e.GoPkgHeader[pkg]
			}
			extra[fn] += code + "\n"
		}
	}
	for pkg, h := range e.GoPkgHeader {
		fn := pkg + "/" + pkg + ".go"
		if _, ok := extra[fn]; !ok {
			extra[fn] = h
		}
	}
	for n, c := range extra {
		os.MkdirAll(filepath.Dir(filepath.Join(dir, n)), 0o755)
		os.WriteFile(filepath.Join(dir, n), []byte(c), 0o644)
	}
	if err := e.Sc.GoModule(dir, "vprog"); err != nil {
		panic(err)
	}
	out, err := impl.GoBuildDir(dir, "-gcflags=-e")
	if err != nil {
		if alone {
			fail(idx[0], "go-build", strings.TrimSpace(out))
			return
		}
		off := locateGoErrors(filepath.Join(dir, "gen_t.go"), out, progs)
		for k, v := range locateExtraErrors(extra, out, progs) {
			off[k] = v
		}
		if len(off) == 0 {
			bisect()
		} else {
			split(off)
		}
		return
	}
	if e.NoRunMain {
		for _, k := range idx {
			res[k] = Result{Status: "ok", Alone: alone}
		}
		return
	}
	rr := impl.Run(dir, 120*time.Second, "", filepath.Join(dir, "prog"))
	outs, panics, ended := splitOutput(rr.Stdout)
	var missing []int
	for i, k := range idx {
		o, ok := outs[k]
		if !ok || !ended[k] {
			missing = append(missing, i)
			continue
		}
		if p, isP := panics[k]; isP {
			res[k] = Result{Status: "panic", Stdout: o, Detail: p, Alone: alone, Source: src}
		} else {
			res[k] = Result{Status: "ok", Stdout: o, Alone: alone}
		}
	}
	if len(missing) > 0 {
		if alone {
			st := "crash"
			if rr.TimedOut {
				st = "timeout"
			}
			fail(idx[0], st, firstN(rr.Stderr, 2000))
			return
		}
		// the first missing one crashed the process: run it alone, the others together
		first := idx[missing[0]]
		e.run(all, []int{first}, res)
		var rest []int
		for _, i := range missing[1:] {
			rest = append(rest, idx[i])
		}
		e.run(all, rest, res)
	}
}

func firstN(s string, n int) string {
	if len(s) > n {
		return s[:n]
	}
	return s
}

func splitOutput(out string) (map[int]string, map[int]string, map[int]bool) {
	outs := map[int]string{}
	panics := map[int]string{}
	ended := map[int]bool{}
	parts := strings.Split(out, "\n@@BEGIN ")
	for _, p := range parts[1:] {
		nl := strings.Index(p, "\n")
		if nl < 0 {
			continue
		}
		k, err := strconv.Atoi(p[:nl])
		if err != nil {
			continue
		}
		body := p[nl+1:]
		endMark := fmt.Sprintf("\n@@END %d\n", k)
		if i := strings.Index(body, endMark); i >= 0 {
			body = body[:i]
			ended[k] = true
		}
		if i := strings.Index(body, "\n@@PANIC "); i >= 0 {
			panics[k] = body[i+len("\n@@PANIC "):]
			body = body[:i]
		}
		outs[k] = body
	}
	return outs, panics, ended
}

// locateGoErrors maps compiler error lines to programs through the declaration
// that contains the line: every top-level declaration of program k mentions
// only names defined in Defs; we match by the run function / suffix.
func locateGoErrors(genPath, out string, progs []Prog) map[int]bool {
	off := map[int]bool{}
	fset := token.NewFileSet()
	f, err := parser.ParseFile(fset, genPath, nil, parser.SkipObjectResolution)
	type rng struct{ lo, hi, prog int }
	var rs []rng
	if err == nil {
		// decl name -> program by looking the name up in each program's Defs
		nameProg := map[string]int{}
		find := func(name string) int {
			if p, ok := nameProg[name]; ok {
				return p
			}
			p := -1
			for i, pr := range progs {
				if containsWord(pr.Defs, name) {
					p = i
					break
				}
			}
			nameProg[name] = p
			return p
		}
		for _, d := range f.Decls {
			lo := fset.Position(d.Pos()).Line
			hi := fset.Position(d.End()).Line
			name := ""
			switch v := d.(type) {
			case *ast.FuncDecl:
				name = v.Name.Name
				if v.Recv != nil && len(v.Recv.List) > 0 {
					name = recvName(v.Recv.List[0].Type)
				}
			case *ast.GenDecl:
				for _, s := range v.Specs {
					switch sp := s.(type) {
					case *ast.TypeSpec:
						name = sp.Name.Name
					case *ast.ValueSpec:
						if len(sp.Names) > 0 {
							name = sp.Names[0].Name
						}
					}
				}
			}
			name = strings.TrimPrefix(name, "New_")
			if name == "" {
				continue
			}
			// union case structs are U_Case: try the full name, then the prefix before '_'
			p := find(name)
			if p < 0 {
				if i := strings.LastIndex(name, "_"); i > 0 {
					p = find(name[:i])
				}
			}
			if p < 0 {
				if i := strings.Index(name, "_"); i > 0 {
					p = find(name[:i])
				}
			}
			if p >= 0 {
				rs = append(rs, rng{lo, hi, p})
			}
		}
	}
	for _, m := range goPos.FindAllStringSubmatch(out, -1) {
		ln, _ := strconv.Atoi(m[1])
		for _, r := range rs {
			if ln >= r.lo && ln <= r.hi {
				off[r.prog] = true
			}
		}
		// errors such as "undefined: X_12" name the program directly
		for _, w := range regexp.MustCompile(`[A-Za-z][A-Za-z0-9_]*_\d+`).FindAllString(m[3], -1) {
			for i, pr := range progs {
				if containsWord(pr.Defs, w) {
					off[i] = true
					break
				}
			}
		}
	}
	return off
}

var extraPos = regexp.MustCompile(`(?m)^\./([A-Za-z0-9_/]+\.go):(\d+):\d+: (.*)$`)
var funcHead = regexp.MustCompile(`^func ([A-Za-z0-9_]+)`)

// locateExtraErrors maps compiler errors in the extra Go files (clients) to
// programs: the enclosing top-level func of the error line is looked up in the
// programs' definitions.
func locateExtraErrors(extra map[string]string, out string, progs []Prog) map[int]bool {
	off := map[int]bool{}
	for _, m := range extraPos.FindAllStringSubmatch(out, -1) {
		src, ok := extra[m[1]]
		if !ok {
			continue
		}
		ln, _ := strconv.Atoi(m[2])
		lines := strings.Split(src, "\n")
		name := ""
		for i := ln - 1; i >= 0 && i < len(lines); i-- {
			if h := funcHead.FindStringSubmatch(lines[i]); h != nil {
				name = h[1]
				break
			}
		}
		if name == "" {
			continue
		}
		for i, pr := range progs {
			if containsWord(pr.Defs, name) {
				off[i] = true
				break
			}
		}
	}
	return off
}

func recvName(e ast.Expr) string {
	switch v := e.(type) {
	case *ast.Ident:
		return v.Name
	case *ast.StarExpr:
		return recvName(v.X)
	case *ast.IndexExpr:
		return recvName(v.X)
	case *ast.IndexListExpr:
		return recvName(v.X)
	}
	return ""
}

func containsWord(s, w string) bool {
	i := 0
	for {
		j := strings.Index(s[i:], w)
		if j < 0 {
			return false
		}
		j += i
		before := j == 0 || !isWordByte(s[j-1])
		after := j+len(w) >= len(s) || !isWordByte(s[j+len(w)])
		if before && after {
			return true
		}
		i = j + 1
	}
}

func isWordByte(b byte) bool {
	return b == '_' || b >= '0' && b <= '9' || b >= 'a' && b <= 'z' || b >= 'A' && b <= 'Z'
}
