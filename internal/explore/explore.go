// Package explore is the stateless choice-tree explorer shared by all checks.
//
// A driver is ordinary Go code that calls c.Choose(n) whenever it has n
// alternatives; alternative 0 is the default / simplest one.  One execution of
// the driver is one root-to-leaf path of the choice tree.  Explore enumerates
// every path (bound < 0) or every path with at most `bound` non-default
// answers (deviation bound), depth first, by re-running the driver from the
// root with a forced prefix.  Replay is strict: a forced choice that is out of
// range, or a choice point whose arity differs from the one recorded when the
// prefix was discovered, is a hard error (nondeterminism in the driver would
// otherwise masquerade as coverage).
package explore

import (
	"fmt"
)

// Chooser hands out choices to a driver.
type Chooser struct {
	forced      []int
	forcedArity []int
	Choices     []int
	Arity       []int
}

// Abort is panicked by a driver (through c.Skip) to abandon a path that turned
// out to be outside the space; the path is counted as skipped, not visited.
type abort struct{ why string }

// Choose returns a value in [0,n).
func (c *Chooser) Choose(n int) int {
	if n <= 0 {
		panic(fmt.Sprintf("explore: Choose(%d)", n))
	}
	i := len(c.Choices)
	v := 0
	if i < len(c.forced) {
		v = c.forced[i]
		if v >= n {
			panic(fmt.Sprintf("explore: strict replay failed: forced choice %d at point %d but arity is %d", v, i, n))
		}
		if c.forcedArity != nil && i < len(c.forcedArity) && c.forcedArity[i] != n {
			panic(fmt.Sprintf("explore: strict replay failed: arity at point %d was %d, now %d", i, c.forcedArity[i], n))
		}
	}
	c.Choices = append(c.Choices, v)
	c.Arity = append(c.Arity, n)
	return v
}

// Bool is Choose(2)==1.
func (c *Chooser) Bool() bool { return c.Choose(2) == 1 }

// Skip abandons the current path.
func (c *Chooser) Skip(why string) { panic(abort{why}) }

// Deviations returns the number of non-default answers given so far.
func (c *Chooser) Deviations() int {
	d := 0
	for _, v := range c.Choices {
		if v != 0 {
			d++
		}
	}
	return d
}

// NewReplay returns a chooser that replays the given choices and then answers 0.
func NewReplay(choices []int) *Chooser {
	return &Chooser{forced: append([]int{}, choices...)}
}

// Stats is what an exploration covered.
type Stats struct {
	Executions  int64 // complete root-to-leaf paths visited
	Skipped     int64 // paths abandoned by the driver (outside the space)
	States      int64 // distinct choice points (tree nodes) reached
	Transitions int64 // distinct choices taken (tree edges)
	MaxDepth    int
	CutByBound  int64 // alternatives not taken because of the deviation bound
	Bound       int   // the bound that was used (-1: none)
	Stopped     bool  // visit asked to stop early
}

func (s *Stats) Add(o Stats) {
	s.Executions += o.Executions
	s.Skipped += o.Skipped
	s.States += o.States
	s.Transitions += o.Transitions
	s.CutByBound += o.CutByBound
	if o.MaxDepth > s.MaxDepth {
		s.MaxDepth = o.MaxDepth
	}
	s.Stopped = s.Stopped || o.Stopped
}

// Explore runs driver on every path with at most bound deviations (bound < 0:
// every path).  visit is called after each complete path with the choices that
// produced it; returning false stops the exploration.
func Explore(bound int, driver func(c *Chooser), visit func(c *Chooser) bool) Stats {
	st := Stats{Bound: bound}
	type item struct {
		choices []int
		arity   []int
	}
	stack := []item{{}}
	for len(stack) > 0 {
		it := stack[len(stack)-1]
		stack = stack[:len(stack)-1]
		c := &Chooser{forced: it.choices, forcedArity: it.arity}
		skipped := runDriver(driver, c)
		if len(c.Choices) < len(it.choices) {
			panic(fmt.Sprintf("explore: strict replay failed: prefix of length %d but execution had only %d choice points", len(it.choices), len(c.Choices)))
		}
		np := len(it.choices)
		// new tree nodes / edges contributed by this execution
		if np == 0 {
			st.States += int64(len(c.Choices))
			st.Transitions += int64(len(c.Choices))
		} else {
			st.States += int64(len(c.Choices) - np)
			st.Transitions += int64(len(c.Choices) - np + 1)
		}
		if len(c.Choices) > st.MaxDepth {
			st.MaxDepth = len(c.Choices)
		}
		if skipped {
			st.Skipped++
		} else {
			st.Executions++
			if !visit(c) {
				st.Stopped = true
				return st
			}
		}
		dev := 0
		for _, v := range it.choices {
			if v != 0 {
				dev++
			}
		}
		// push alternatives deepest-last so that shallow alternatives are
		// explored last (DFS order: simplest first)
		for i := len(c.Choices) - 1; i >= np; i-- {
			if c.Arity[i] <= 1 {
				continue
			}
			if bound >= 0 && dev+1 > bound {
				st.CutByBound += int64(c.Arity[i] - 1)
				continue
			}
			for alt := c.Arity[i] - 1; alt >= 1; alt-- {
				ch := make([]int, i+1)
				copy(ch, c.Choices[:i])
				ch[i] = alt
				ar := make([]int, i+1)
				copy(ar, c.Arity[:i+1])
				stack = append(stack, item{ch, ar})
			}
		}
	}
	return st
}

func runDriver(driver func(c *Chooser), c *Chooser) (skipped bool) {
	defer func() {
		if r := recover(); r != nil {
			if _, ok := r.(abort); ok {
				skipped = true
				return
			}
			panic(r)
		}
	}()
	driver(c)
	return false
}

// Replay runs the driver once on exactly the given choices.
func Replay(choices []int, driver func(c *Chooser)) *Chooser {
	c := NewReplay(choices)
	if runDriver(driver, c) {
		return nil
	}
	return c
}

// Forced returns the choices this execution is replaying (for drivers that
// run the implementation in another process and feed its decisions back).
func (c *Chooser) Forced() []int { return c.forced }
