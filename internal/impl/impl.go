// Package impl builds and drives the implementation under test from a scratch
// copy of the repository's working tree.
package impl

import (
	"bytes"
	"context"
	"fmt"
	"os"
	"os/exec"
	"path/filepath"
	"strings"
	"sync"
	"syscall"
	"time"
)

// Scratch is a private copy of the working tree plus build outputs.
type Scratch struct {
	Root string // temp dir (removed by Close)
	Src  string // copy of the repo
	Bin  string
	mu   sync.Mutex
	n    int
}

// The Go build cache.  Every batch of generated programs is a new main package, so a shared GOCACHE grows
// without bound (126 GB after a day of runs - the disk filled up).  Each vcheck process therefore uses a
// private cache, initialised by hard-linking a warm base cache (std, go-cmp; built by setup.sh into
// $VERIF_DIR/bin/gocache-base), and every build of a throw-away package (GoBuildDir / GoCheckDir) uses a
// further hard-link overlay that is removed right after the build.  CleanupCache removes the private cache.
var (
	cacheOnce sync.Once
	privCache string
)

func linkCopy(from, to string) error {
	out, err := exec.Command("cp", "-al", from, to).CombinedOutput()
	if err != nil {
		return fmt.Errorf("cp -al %s %s: %v: %s", from, to, err, out)
	}
	return nil
}

func privateCache() string {
	cacheOnce.Do(func() {
		base := os.Getenv("VERIF_TMP")
		if base == "" {
			base = os.TempDir()
		}
		dir, err := os.MkdirTemp(base, "verif-gocache-")
		if err != nil {
			return
		}
		privCache = filepath.Join(dir, "c")
		if vd := os.Getenv("VERIF_DIR"); vd != "" {
			if st, err := os.Stat(filepath.Join(vd, "bin", "gocache-base")); err == nil && st.IsDir() {
				if linkCopy(filepath.Join(vd, "bin", "gocache-base"), privCache) == nil {
					return
				}
				os.RemoveAll(privCache)
			}
		}
		os.MkdirAll(privCache, 0o755)
	})
	return privCache
}

// CleanupCache removes the process's private build cache (call before exit).
func CleanupCache() {
	if privCache != "" {
		os.RemoveAll(filepath.Dir(privCache))
	}
}

func goEnvCache(cache string) []string {
	env := os.Environ()
	env = append(env, "GOFLAGS=-mod=mod", "GOPROXY=off", "GOSUMDB=off", "GOTOOLCHAIN=local", "GONOSUMDB=*", "GONOSUMCHECK=1", "GOWORK=off")
	if cache != "" {
		env = append(env, "GOCACHE="+cache)
	}
	return env
}

func goEnv() []string { return goEnvCache(privateCache()) }

// GoEnv is the environment for go commands started by checks themselves (C04's recipes).
func GoEnv() []string { return goEnv() }

// overlayCache makes a throw-away hard-link copy of the private cache next to a throw-away package.
func overlayCache(dir string) (string, func()) {
	pc := privateCache()
	if pc == "" {
		return "", func() {}
	}
	oc := filepath.Join(dir, ".gocache")
	os.RemoveAll(oc)
	if linkCopy(pc, oc) != nil {
		os.RemoveAll(oc)
		return pc, func() {}
	}
	return oc, func() { os.RemoveAll(oc) }
}

// New copies repo (tracked and untracked sources, minus .git and the ignored
// binaries) into a fresh temporary directory.
func New(repo string) (*Scratch, error) {
	base := os.Getenv("VERIF_TMP")
	if base == "" {
		base = os.TempDir()
	}
	root, err := os.MkdirTemp(base, "verif-")
	if err != nil {
		return nil, err
	}
	s := &Scratch{Root: root, Src: filepath.Join(root, "src"), Bin: filepath.Join(root, "bin")}
	os.MkdirAll(s.Bin, 0o755)
	cmd := exec.Command("rsync", "-a", "--exclude", ".git", "--exclude", "/fc/fc", "--exclude", "/cmd/build_sample_md/build_sample_md",
		"--exclude", "/tinyfo/tinyfo", "--exclude", "/samples/fc", "--exclude", "/samples/build_sample_md", "--exclude", "/cmd/build_sample_md/fc",
		strings.TrimRight(repo, "/")+"/", s.Src+"/")
	if out, err := cmd.CombinedOutput(); err != nil {
		s.Close()
		return nil, fmt.Errorf("rsync: %v: %s", err, out)
	}
	return s, nil
}

func (s *Scratch) Close() {
	if os.Getenv("VERIF_KEEP") != "" {
		fmt.Fprintln(os.Stderr, "keeping scratch", s.Root)
		return
	}
	os.RemoveAll(s.Root)
}

// TempDir makes a fresh directory inside the scratch area.
func (s *Scratch) TempDir(prefix string) string {
	s.mu.Lock()
	s.n++
	n := s.n
	s.mu.Unlock()
	d := filepath.Join(s.Root, "w", fmt.Sprintf("%s%d", prefix, n))
	os.MkdirAll(d, 0o755)
	return d
}

// GoBuild builds package dir (relative to the copy) into Bin/name.
func (s *Scratch) GoBuild(dir, name string, tags string) (string, error) {
	out := filepath.Join(s.Bin, name)
	args := []string{"build", "-o", out}
	if tags != "" {
		args = append(args, "-tags", tags)
	}
	args = append(args, ".")
	cmd := exec.Command("go", args...)
	cmd.Dir = filepath.Join(s.Src, dir)
	cmd.Env = goEnv()
	if b, err := cmd.CombinedOutput(); err != nil {
		return "", fmt.Errorf("go build %s: %v\n%s", dir, err, b)
	}
	return out, nil
}

func (s *Scratch) BuildFC() (string, error)     { return s.GoBuild("fc", "fc", "") }
func (s *Scratch) BuildTinyfo() (string, error) { return s.GoBuild("tinyfo", "tinyfo", "") }
func (s *Scratch) BuildBSM() (string, error) {
	return s.GoBuild("cmd/build_sample_md", "build_sample_md", "")
}

// PkgAllFoi is the path of pkg/pkg_all.foi in the copy.
func (s *Scratch) PkgAllFoi() string { return filepath.Join(s.Src, "pkg", "pkg_all.foi") }

// Result of one process run.
type Result struct {
	Exit     int
	Stdout   string
	Stderr   string
	TimedOut bool
	Signal   string
	Dur      time.Duration
}

func (r Result) Out() string { return r.Stdout + r.Stderr }

// Run executes bin in dir with an address-space limit and a timeout.
func Run(dir string, timeout time.Duration, stdin string, bin string, args ...string) Result {
	return RunEnv(dir, timeout, stdin, nil, bin, args...)
}

func RunEnv(dir string, timeout time.Duration, stdin string, extraEnv []string, bin string, args ...string) Result {
	ctx, cancel := context.WithTimeout(context.Background(), timeout)
	defer cancel()
	// ulimit -v in KB: 2 GB (fc needs a few MB; 16 workers must not exhaust the machine)
	sh := "ulimit -v 2097152; exec \"$0\" \"$@\""
	cmd := exec.CommandContext(ctx, "sh", append([]string{"-c", sh, bin}, args...)...)
	cmd.Dir = dir
	if extraEnv != nil {
		cmd.Env = append(os.Environ(), extraEnv...)
	}
	cmd.SysProcAttr = &syscall.SysProcAttr{Setpgid: true}
	cmd.Cancel = func() error {
		return syscall.Kill(-cmd.Process.Pid, syscall.SIGKILL)
	}
	var so, se bytes.Buffer
	cmd.Stdout = &limitW{b: &so, max: 4 << 20}
	cmd.Stderr = &limitW{b: &se, max: 4 << 20}
	if stdin != "" {
		cmd.Stdin = strings.NewReader(stdin)
	}
	t0 := time.Now()
	err := cmd.Run()
	r := Result{Stdout: so.String(), Stderr: se.String(), Dur: time.Since(t0)}
	if ctx.Err() == context.DeadlineExceeded {
		r.TimedOut = true
		r.Exit = -1
		return r
	}
	if err != nil {
		if ee, ok := err.(*exec.ExitError); ok {
			r.Exit = ee.ExitCode()
			if ws, ok := ee.Sys().(syscall.WaitStatus); ok && ws.Signaled() {
				r.Signal = ws.Signal().String()
				r.Exit = 128 + int(ws.Signal())
			}
		} else {
			r.Exit = -2
			r.Stderr += "\nexec error: " + err.Error()
		}
	}
	return r
}

type limitW struct {
	b   *bytes.Buffer
	max int
}

func (l *limitW) Write(p []byte) (int, error) {
	if l.b.Len() < l.max {
		room := l.max - l.b.Len()
		if len(p) <= room {
			l.b.Write(p)
		} else {
			l.b.Write(p[:room])
		}
	}
	return len(p), nil
}

// RunWithRetry runs with timeout t1; a timeout is re-run once with t2 before it
// is called a hang.
func RunWithRetry(dir string, t1, t2 time.Duration, bin string, args ...string) Result {
	r := Run(dir, t1, "", bin, args...)
	if r.TimedOut {
		r = Run(dir, t2, "", bin, args...)
	}
	return r
}

// GoModule writes a go.mod (and go.sum) into dir for compiling emitted Go
// against the scratch copy's pkg/*.
func (s *Scratch) GoModule(dir, modname string) error {
	var b strings.Builder
	fmt.Fprintf(&b, "module %s\n\ngo 1.23.4\n\n", modname)
	pkgs := []string{"buf", "dict", "frt", "slice", "strings", "sys"}
	b.WriteString("require (\n")
	for _, p := range pkgs {
		fmt.Fprintf(&b, "\tgithub.com/karino2/folang/pkg/%s v0.0.0-00010101000000-000000000000\n", p)
	}
	b.WriteString("\tgithub.com/google/go-cmp v0.6.0 // indirect\n\tgolang.org/x/exp v0.0.0-20250128182459-e0ece0dbea4c // indirect\n)\n\n")
	for _, p := range pkgs {
		fmt.Fprintf(&b, "replace github.com/karino2/folang/pkg/%s => %s\n", p, filepath.Join(s.Src, "pkg", p))
	}
	if err := os.WriteFile(filepath.Join(dir, "go.mod"), []byte(b.String()), 0o644); err != nil {
		return err
	}
	sum, err := os.ReadFile(filepath.Join(s.Src, "fc", "go.sum"))
	if err != nil {
		return err
	}
	return os.WriteFile(filepath.Join(dir, "go.sum"), sum, 0o644)
}

// GoBuildDir builds the main package in dir to dir/prog; returns compiler output.
func GoBuildDir(dir string, extra ...string) (string, error) {
	args := append([]string{"build", "-o", "prog"}, extra...)
	args = append(args, ".")
	cmd := exec.Command("go", args...)
	cmd.Dir = dir
	cache, done := overlayCache(dir)
	defer done()
	cmd.Env = goEnvCache(cache)
	b, err := cmd.CombinedOutput()
	return string(b), err
}

// GoVet-less type check of a package dir: go build -o /dev/null.
func GoCheckDir(dir string) (string, error) {
	cmd := exec.Command("go", "build", "-gcflags=-e", "-o", os.DevNull, ".")
	cmd.Dir = dir
	cache, done := overlayCache(dir)
	defer done()
	cmd.Env = goEnvCache(cache)
	b, err := cmd.CombinedOutput()
	return string(b), err
}

func Gofmt(src []byte) ([]byte, error) {
	cmd := exec.Command("gofmt")
	cmd.Stdin = bytes.NewReader(src)
	var out, errb bytes.Buffer
	cmd.Stdout = &out
	cmd.Stderr = &errb
	if err := cmd.Run(); err != nil {
		return nil, fmt.Errorf("gofmt: %v: %s", err, errb.String())
	}
	return out.Bytes(), nil
}

// BuildDriver copies /verif/drivers/<name> (plus the explorer) into a scratch
// module whose go.mod points at the scratch copy's pkg/*, adds extra files and
// builds it with -tags driver.
func (s *Scratch) BuildDriver(verifDir, name string, extra map[string]string) (string, error) {
	dir := filepath.Join(s.Root, "drv", name)
	os.RemoveAll(dir)
	if err := os.MkdirAll(filepath.Join(dir, "explore"), 0o755); err != nil {
		return "", err
	}
	ents, err := os.ReadDir(filepath.Join(verifDir, "drivers", name))
	if err != nil {
		return "", err
	}
	for _, e := range ents {
		if e.IsDir() {
			continue
		}
		b, err := os.ReadFile(filepath.Join(verifDir, "drivers", name, e.Name()))
		if err != nil {
			return "", err
		}
		os.WriteFile(filepath.Join(dir, e.Name()), b, 0o644)
	}
	// shared driver helpers
	if ents, err := os.ReadDir(filepath.Join(verifDir, "drivers", "common")); err == nil {
		for _, e := range ents {
			b, _ := os.ReadFile(filepath.Join(verifDir, "drivers", "common", e.Name()))
			os.WriteFile(filepath.Join(dir, e.Name()), b, 0o644)
		}
	}
	b, err := os.ReadFile(filepath.Join(verifDir, "internal", "explore", "explore.go"))
	if err != nil {
		return "", err
	}
	os.WriteFile(filepath.Join(dir, "explore", "explore.go"), b, 0o644)
	for n, c := range extra {
		os.WriteFile(filepath.Join(dir, n), []byte(c), 0o644)
	}
	if err := s.GoModule(dir, "drv"); err != nil {
		return "", err
	}
	out := filepath.Join(s.Bin, "drv_"+name)
	cmd := exec.Command("go", "build", "-tags", "driver", "-o", out, ".")
	cmd.Dir = dir
	cmd.Env = goEnv()
	if bb, err := cmd.CombinedOutput(); err != nil {
		return "", fmt.Errorf("go build driver %s: %v\n%s", name, err, bb)
	}
	return out, nil
}
