// Package folex is a harness-side lexer for Folang source text, used to
// enumerate token-level mutations (C16) - independent of fc's tokenizer.
package folex

import "strings"

type Kind int

const (
	Ident Kind = iota
	Number
	String    // "..."
	RawString // `...`
	Interp    // $"..." or $`...`
	Op
	Bracket
	Comment
	Newline
	Space // blanks (incl. indentation)
	Other
)

type Token struct {
	Kind Kind
	Text string
	Pos  int
}

func isAlpha(b byte) bool { return b >= 'a' && b <= 'z' || b >= 'A' && b <= 'Z' || b == '_' }
func isDigit(b byte) bool { return b >= '0' && b <= '9' }

var ops = []string{"|>", "||", "&&", "<>", "<=", ">=", "->"}

// Lex splits src into tokens; concatenating the token texts gives src back.
func Lex(src string) []Token {
	var out []Token
	i := 0
	emit := func(k Kind, j int) {
		out = append(out, Token{k, src[i:j], i})
		i = j
	}
	for i < len(src) {
		b := src[i]
		switch {
		case b == '\n':
			emit(Newline, i+1)
		case b == ' ' || b == '\t' || b == '\r':
			j := i
			for j < len(src) && (src[j] == ' ' || src[j] == '\t' || src[j] == '\r') {
				j++
			}
			emit(Space, j)
		case strings.HasPrefix(src[i:], "//"):
			j := strings.IndexByte(src[i:], '\n')
			if j < 0 {
				j = len(src)
			} else {
				j += i
			}
			emit(Comment, j)
		case strings.HasPrefix(src[i:], "/*"):
			j := strings.Index(src[i+2:], "*/")
			if j < 0 {
				j = len(src)
			} else {
				j += i + 4
			}
			emit(Comment, j)
		case isAlpha(b):
			j := i
			for j < len(src) && (isAlpha(src[j]) || isDigit(src[j])) {
				j++
			}
			emit(Ident, j)
		case isDigit(b):
			j := i
			for j < len(src) && isDigit(src[j]) {
				j++
			}
			emit(Number, j)
		case b == '"' || (b == '$' && i+1 < len(src) && src[i+1] == '"'):
			j := i + 1
			k := String
			if b == '$' {
				j++
				k = Interp
			}
			for j < len(src) && src[j] != '"' {
				if src[j] == '\\' && j+1 < len(src) {
					j++
				}
				j++
			}
			if j < len(src) {
				j++
			}
			emit(k, j)
		case b == '`' || (b == '$' && i+1 < len(src) && src[i+1] == '`'):
			j := i + 1
			k := RawString
			if b == '$' {
				j++
				k = Interp
			}
			for j < len(src) && src[j] != '`' {
				j++
			}
			if j < len(src) {
				j++
			}
			emit(k, j)
		default:
			done := false
			for _, o := range ops {
				if strings.HasPrefix(src[i:], o) {
					emit(Op, i+len(o))
					done = true
					break
				}
			}
			if done {
				break
			}
			switch b {
			case '(', ')', '{', '}', '[', ']':
				emit(Bracket, i+1)
			case '=', '<', '>', '+', '-', '*', '/', '|', ':', ';', ',', '.', '&':
				emit(Op, i+1)
			default:
				emit(Other, i+1)
			}
		}
	}
	return out
}

// Significant reports whether the token is more than layout.
func (t Token) Significant() bool {
	return t.Kind != Space && t.Kind != Newline
}
