// Package core holds what every check shares: run context, evidence file,
// known-findings file, violation / replay reporting.
package core

import (
	"crypto/sha256"
	"encoding/hex"
	"encoding/json"
	"fmt"
	"os"
	"path/filepath"
	"sort"
	"strconv"
	"strings"
	"sync"
	"time"
)

// VerifDir is where the framework lives (evidence, replays, drivers, known findings).
var VerifDir = func() string {
	if d := os.Getenv("VERIF_DIR"); d != "" {
		return d
	}
	return "/verif"
}()

// Ctx is one run of one check.
type Ctx struct {
	ID       string
	Tier     string // quick | thorough
	Seed     int64
	Repo     string
	Start    time.Time
	Deadline time.Time
	Workers  int

	mu          sync.Mutex
	Cov         map[string]any
	Assume      []string
	samples     []any
	distinct    map[[16]byte]struct{}
	nontrivial  int64
	extDistinct int64
	outcomes    map[string]int64
	known       []Finding
	knownHit    map[string]int64
	knownWhat   map[string]string
	violations  []violation
	vioSigs     map[string]int
	Exhaustive  bool
	notes       []string
	Evals       int64
	States      int64
	Trans       int64
	Validated   int64
	ReplayFile  string // when non-empty the run is a replay of that file
}

type violation struct {
	Sig    string
	What   string
	Replay string
}

// Finding is one line of known_findings.txt.
type Finding struct {
	Kind     string // known | fixed
	Property string
	Sig      string
	Text     string
}

func NewCtx(id, tier string) *Ctx {
	seed := int64(0)
	if s := os.Getenv("VERIF_SEED"); s != "" {
		if v, err := strconv.ParseInt(s, 10, 64); err == nil {
			seed = v
		}
	}
	repo := os.Getenv("VERIF_REPO")
	if repo == "" {
		repo = "/repo"
	}
	dl := 240
	if tier == "thorough" {
		dl = 1500
	}
	if s := os.Getenv("VERIF_DEADLINE_S"); s != "" {
		if v, err := strconv.Atoi(s); err == nil && v > 0 {
			dl = v
		}
	}
	w := 16
	if s := os.Getenv("VERIF_WORKERS"); s != "" {
		if v, err := strconv.Atoi(s); err == nil && v > 0 {
			w = v
		}
	}
	c := &Ctx{ID: id, Tier: tier, Seed: seed, Repo: repo, Start: time.Now(), Workers: w,
		Cov: map[string]any{}, distinct: map[[16]byte]struct{}{}, outcomes: map[string]int64{},
		knownHit: map[string]int64{}, knownWhat: map[string]string{}, vioSigs: map[string]int{}, Exhaustive: true}
	c.Deadline = c.Start.Add(time.Duration(dl) * time.Second)
	c.known = LoadFindings(filepath.Join(VerifDir, "known_findings.txt"))
	return c
}

func (c *Ctx) Thorough() bool { return c.Tier == "thorough" }

// Expired reports whether the internal deadline has passed; the first time it
// does the run is marked non-exhaustive.
func (c *Ctx) Expired() bool {
	if time.Now().After(c.Deadline) {
		c.mu.Lock()
		if c.Exhaustive {
			c.Exhaustive = false
			c.notes = append(c.notes, "internal deadline reached; exploration stopped early")
		}
		c.mu.Unlock()
		return true
	}
	return false
}

func (c *Ctx) NotExhaustive(why string) {
	c.mu.Lock()
	c.Exhaustive = false
	dup := false
	for _, n := range c.notes {
		if n == why {
			dup = true
		}
	}
	if !dup {
		c.notes = append(c.notes, why)
	}
	c.mu.Unlock()
}

func (c *Ctx) Note(s string) {
	c.mu.Lock()
	c.notes = append(c.notes, s)
	c.mu.Unlock()
}

func (c *Ctx) Assumption(s string) { c.mu.Lock(); c.Assume = append(c.Assume, s); c.mu.Unlock() }

func (c *Ctx) Set(key string, v any) { c.mu.Lock(); c.Cov[key] = v; c.mu.Unlock() }

func (c *Ctx) AddInt(key string, d int64) {
	c.mu.Lock()
	cur, _ := c.Cov[key].(int64)
	c.Cov[key] = cur + d
	c.mu.Unlock()
}

// Hist increments Cov[key][sub].
func (c *Ctx) Hist(key, sub string, d int64) {
	c.mu.Lock()
	m, _ := c.Cov[key].(map[string]int64)
	if m == nil {
		m = map[string]int64{}
		c.Cov[key] = m
	}
	m[sub] += d
	c.mu.Unlock()
}

// Distinct records a case by content; returns true if it is new.
func (c *Ctx) Distinct(content string) bool {
	return c.DistinctNT(content, true)
}

// DistinctNT records a case by content; if it is new and non-trivial by the
// check's rule it is counted under distinct_nontrivial.  Returns true if new.
func (c *Ctx) DistinctNT(content string, nontrivial bool) bool {
	hh := sha256.Sum256([]byte(content))
	var h [16]byte
	copy(h[:], hh[:16])
	c.mu.Lock()
	if _, ok := c.distinct[h]; !ok && nontrivial {
		c.nontrivial++
	}
	_, ok := c.distinct[h]
	if !ok {
		c.distinct[h] = struct{}{}
	}
	c.mu.Unlock()
	return !ok
}

func (c *Ctx) DistinctCount() int { c.mu.Lock(); defer c.mu.Unlock(); return len(c.distinct) }

// Outcome counts a distinct observed outcome class.
func (c *Ctx) Outcome(o string) { c.mu.Lock(); c.outcomes[o]++; c.mu.Unlock() }

func (c *Ctx) Count(evals, states, trans, validated int64) {
	c.mu.Lock()
	c.Evals += evals
	c.States += states
	c.Trans += trans
	c.Validated += validated
	c.mu.Unlock()
}

// Sample keeps a few cases for the evidence file.  VERIF_SEED rotates which.
func (c *Ctx) Sample(v any) {
	c.mu.Lock()
	defer c.mu.Unlock()
	c.Cov["_sample_seen"] = toI(c.Cov["_sample_seen"]) + 1
	n := toI(c.Cov["_sample_seen"])
	const keep = 6
	if len(c.samples) < keep {
		c.samples = append(c.samples, v)
		return
	}
	// deterministic reservoir keyed by seed
	x := uint64(n)*0x9E3779B97F4A7C15 + uint64(c.Seed)*0xBF58476D1CE4E5B9
	x ^= x >> 31
	x *= 0x94D049BB133111EB
	x ^= x >> 29
	if x%uint64(n) < keep {
		c.samples[x%keep] = v
	}
}

func toI(v any) int64 {
	switch t := v.(type) {
	case int64:
		return t
	case int:
		return int64(t)
	}
	return 0
}

// Violation records a property violation with signature sig.  If sig is a
// listed known finding it is counted as such.  replay is the content of a
// replay file (JSON-marshalled); it is written under replays/<ID>/.
func (c *Ctx) Violation(sig, what string, replay any) {
	c.mu.Lock()
	defer c.mu.Unlock()
	for _, f := range c.known {
		if f.Kind == "known" && f.Property == c.ID && f.Sig == sig {
			c.knownHit[sig]++
			if _, ok := c.knownWhat[sig]; !ok {
				c.knownWhat[sig] = f.Text
				// keep one witness
				c.writeReplay("known-"+sanitize(sig), replay)
			}
			return
		}
	}
	c.vioSigs[sig]++
	if c.vioSigs[sig] > 3 && len(c.violations) >= 3 {
		return // keep at most 3 replay files per signature
	}
	name := fmt.Sprintf("%s-%s-%d", c.Tier, sanitize(sig), c.vioSigs[sig])
	p := c.writeReplay(name, replay)
	c.violations = append(c.violations, violation{sig, what, p})
}

// TooManyViolations: a run stops enumerating after 20 unlisted violations.
func (c *Ctx) TooManyViolations() bool {
	c.mu.Lock()
	defer c.mu.Unlock()
	n := 0
	for _, v := range c.vioSigs {
		n += v
	}
	if n >= 20 {
		if c.Exhaustive {
			c.Exhaustive = false
			c.Cov["stopped_on_violations"] = true
		}
		return true
	}
	return false
}

func (c *Ctx) ViolationCount() int {
	c.mu.Lock()
	defer c.mu.Unlock()
	n := 0
	for _, v := range c.vioSigs {
		n += v
	}
	return n
}

func sanitize(s string) string {
	var b strings.Builder
	for _, r := range s {
		if r >= 'a' && r <= 'z' || r >= 'A' && r <= 'Z' || r >= '0' && r <= '9' || r == '-' || r == '_' || r == '.' {
			b.WriteRune(r)
		} else {
			b.WriteByte('_')
		}
	}
	out := b.String()
	if len(out) > 80 {
		h := sha256.Sum256([]byte(s))
		out = out[:60] + "-" + hex.EncodeToString(h[:6])
	}
	return out
}

func (c *Ctx) writeReplay(name string, replay any) string {
	dir := filepath.Join(VerifDir, "replays", c.ID)
	if d := os.Getenv("VERIF_REPLAY_DIR"); d != "" {
		dir = filepath.Join(d, c.ID)
	}
	os.MkdirAll(dir, 0o755)
	p := filepath.Join(dir, name+".json")
	b, err := json.MarshalIndent(map[string]any{"check": c.ID, "tier": c.Tier, "case": replay}, "", " ")
	if err != nil {
		b = []byte(fmt.Sprintf("{\"check\":%q,\"error\":%q}", c.ID, err.Error()))
	}
	os.WriteFile(p, b, 0o644)
	return p
}

// Finish writes the evidence file, prints KNOWN-FINDING / VIOLATION lines and
// returns the process exit status.
func (c *Ctx) Finish() int {
	c.mu.Lock()
	defer c.mu.Unlock()
	cov := map[string]any{}
	for k, v := range c.Cov {
		if strings.HasPrefix(k, "_") {
			continue
		}
		cov[k] = v
	}
	cov["evaluations"] = c.Evals
	cov["states"] = c.States
	cov["transitions"] = c.Trans
	cov["traces_validated_against_impl"] = c.Validated
	cov["distinct_nontrivial"] = c.nontrivial
	cov["distinct_cases"] = int64(len(c.distinct)) + c.extDistinct
	cov["exhaustive"] = c.Exhaustive
	cov["distinct_outcomes"] = len(c.outcomes)
	cov["outcomes"] = c.outcomes
	if len(c.samples) == 0 {
		c.samples = append(c.samples, "no case was executed")
	}
	cov["samples"] = c.samples
	if len(c.notes) > 0 {
		cov["notes"] = c.notes
	}
	kf := map[string]any{}
	sigs := []string{}
	for s := range c.knownHit {
		sigs = append(sigs, s)
	}
	sort.Strings(sigs)
	for _, s := range sigs {
		kf[s] = map[string]any{"witnesses": c.knownHit[s], "what": c.knownWhat[s]}
	}
	cov["known_findings"] = kf
	nv := 0
	for _, v := range c.vioSigs {
		nv += v
	}
	ev := map[string]any{
		"property_id": c.ID,
		"tier":        c.Tier,
		"seed":        c.Seed,
		"level":       "model_checking",
		"coverage":    cov,
		"assumptions": c.Assume,
		"wall_s":      time.Since(c.Start).Seconds(),
		"violations":  nv,
	}
	if c.Assume == nil {
		ev["assumptions"] = []string{}
	}
	b, _ := json.MarshalIndent(ev, "", " ")
	if c.ReplayFile == "" {
		evdir := filepath.Join(VerifDir, "evidence")
		if d := os.Getenv("VERIF_EVIDENCE_DIR"); d != "" {
			evdir = d
		}
		os.MkdirAll(evdir, 0o755)
		os.WriteFile(filepath.Join(evdir, c.ID+".json"), append(b, '\n'), 0o644)
	}
	for _, s := range sigs {
		fmt.Printf("KNOWN-FINDING: property=%s %s (signature=%s, witnesses in this run: %d)\n", c.ID, c.knownWhat[s], s, c.knownHit[s])
	}
	fmt.Printf("%s %s: evaluations=%d states=%d transitions=%d validated=%d distinct=%v outcomes=%d exhaustive=%v wall=%.1fs\n",
		c.ID, c.Tier, c.Evals, c.States, c.Trans, c.Validated, cov["distinct_nontrivial"], len(c.outcomes), c.Exhaustive, time.Since(c.Start).Seconds())
	for _, n := range c.notes {
		fmt.Printf("note: %s\n", n)
	}
	if nv > 0 {
		for _, v := range c.violations {
			fmt.Printf("violation: %s: %s\n", v.Sig, v.What)
			fmt.Printf("VIOLATION property=%s replay=%s\n", c.ID, v.Replay)
		}
		return 1
	}
	return 0
}

// LoadFindings parses known_findings.txt.
func LoadFindings(path string) []Finding {
	b, err := os.ReadFile(path)
	if err != nil {
		return nil
	}
	var out []Finding
	for _, line := range strings.Split(string(b), "\n") {
		line = strings.TrimSpace(line)
		if line == "" || strings.HasPrefix(line, "#") {
			continue
		}
		var f Finding
		switch {
		case strings.HasPrefix(line, "known:"):
			f.Kind = "known"
			line = strings.TrimSpace(strings.TrimPrefix(line, "known:"))
		case strings.HasPrefix(line, "fixed:"):
			f.Kind = "fixed"
			line = strings.TrimSpace(strings.TrimPrefix(line, "fixed:"))
		default:
			continue
		}
		fields := strings.Fields(line)
		rest := []string{}
		for _, fl := range fields {
			if strings.HasPrefix(fl, "property=") && f.Property == "" {
				f.Property = strings.TrimPrefix(fl, "property=")
			} else if strings.HasPrefix(fl, "signature=") && f.Sig == "" {
				f.Sig = strings.TrimPrefix(fl, "signature=")
			} else {
				rest = append(rest, fl)
			}
		}
		f.Text = strings.Join(rest, " ")
		out = append(out, f)
	}
	return out
}

// AddNontrivial adds counts measured by an in-process driver (which keeps its
// own set of distinct cases).
func (c *Ctx) AddNontrivial(distinct, nontrivial int64) {
	c.mu.Lock()
	c.extDistinct += distinct
	c.nontrivial += nontrivial
	c.mu.Unlock()
}
