package fo

import (
	"fmt"
	"sort"
	"strings"
)

// ---- values ----

type Value interface{}

type (
	UnitV  struct{}
	TupleV struct{ Es []Value }
	RecV   struct {
		Name   string
		Fields map[string]Value
	}
	UnionV struct {
		Case    string
		Payload Value // nil = none
	}
	SliceV struct{ Es []Value }
	// DictV and BufV are the two mutable library values (reference semantics, like the Go implementations)
	DictV struct{ M map[string]Value }
	BufV  struct{ B *strings.Builder }
	// Closure: a function value.  Bound holds already supplied (evaluated) arguments.
	Closure struct {
		Name      string
		Params    []string // parameter names; a unit-parameter function has none and UnitParam set
		UnitParam bool
		Body      *Block
		Env       *Env
		Builtin   func(ev *Evaluator, args []Value) Value
		Arity     int
		Bound     []Value
	}
)

type Env struct {
	name   string
	val    Value
	parent *Env
}

func (e *Env) With(name string, v Value) *Env { return &Env{name, v, e} }

func (e *Env) Lookup(name string) (Value, bool) {
	for x := e; x != nil; x = x.parent {
		if x.name == name {
			return x.val, true
		}
	}
	return nil, false
}

// OutOfDomain is panicked when a program leaves the domain of the reference
// semantics (division by zero, Head [], index out of range ...).
type OutOfDomain struct{ Why string }

type Evaluator struct {
	Out strings.Builder
	// PartialReeval switches on the defect model: the supplied arguments of a
	// partial application are re-evaluated at each call of the closure (and not at
	// all when it is created), which is what fcPartialApplyGo emits.
	PartialReeval bool
	// SMatchVarLeak: the defect model of the second recorded finding - fc lowers `match t with | "a" -> e | v -> f`
	// to `switch v := t; v { case "a": e; default: f }`, so v is bound in the literal arms as well and captures an
	// outer variable of the same name there
	SMatchVarLeak bool
	Globals       map[string]Value
	Steps         int
}

func NewEvaluator() *Evaluator {
	ev := &Evaluator{Globals: map[string]Value{}}
	for n, b := range builtins {
		ev.Globals[n] = &Closure{Name: n, Builtin: b.f, Arity: b.arity}
	}
	return ev
}

func ood(format string, a ...any) { panic(OutOfDomain{fmt.Sprintf(format, a...)}) }

// Load evaluates the definitions of a program (functions become closures,
// top-level variables are evaluated in order, before main).
func (ev *Evaluator) Load(p *Program) {
	for _, d := range p.Defs {
		switch v := d.(type) {
		case FuncDef:
			ev.Globals[v.Name] = ev.mkClosure(v.Name, v.Params, v.Body, nil)
		case VarDef:
			ev.Globals[v.Name] = ev.Eval(v.Rhs, nil)
		}
	}
}

func (ev *Evaluator) mkClosure(name string, ps []Param, body *Block, env *Env) *Closure {
	c := &Closure{Name: name, Body: body, Env: env}
	for _, p := range ps {
		if p.Unit {
			c.UnitParam = true
		} else {
			c.Params = append(c.Params, p.Name)
		}
	}
	c.Arity = len(c.Params)
	if c.UnitParam {
		c.Arity = 1
	}
	return c
}

// Run calls the unit function name and returns what it printed.
func (ev *Evaluator) Run(name string) (out string, oodWhy string) {
	defer func() {
		if r := recover(); r != nil {
			if o, ok := r.(OutOfDomain); ok {
				out, oodWhy = ev.Out.String(), o.Why
				if oodWhy == "" {
					oodWhy = "out of domain"
				}
				return
			}
			panic(r)
		}
	}()
	f, ok := ev.Globals[name].(*Closure)
	if !ok {
		panic("fo: no function " + name)
	}
	ev.call(f, []Value{UnitV{}})
	return ev.Out.String(), ""
}

func (ev *Evaluator) lookup(name string, env *Env) Value {
	if v, ok := env.Lookup(name); ok {
		return v
	}
	if v, ok := ev.Globals[name]; ok {
		return v
	}
	panic("fo: eval: unbound " + name)
}

func (ev *Evaluator) EvalBlock(b *Block, env *Env) Value {
	for _, s := range b.Stmts {
		switch v := s.(type) {
		case Let:
			env = env.With(v.Name, ev.Eval(v.Rhs, env))
		case LetDestr:
			t, ok := ev.Eval(v.Rhs, env).(TupleV)
			if !ok || len(t.Es) != len(v.Names) {
				panic("fo: eval: destructuring a non-tuple")
			}
			for i, n := range v.Names {
				if n != "_" {
					env = env.With(n, t.Es[i])
				}
			}
		case LetFun:
			c := ev.mkClosure(v.Name, v.Params, v.Body, env)
			env = env.With(v.Name, c)
			c.Env = env // visible to itself is harmless (no recursion is generated)
		case ExprStmt:
			ev.Eval(v.E, env)
		default:
			panic(fmt.Sprintf("fo: eval: stmt %T", s))
		}
	}
	return ev.Eval(b.Final, env)
}

func (ev *Evaluator) Eval(e Expr, env *Env) Value {
	ev.Steps++
	if ev.Steps > 2000000 {
		ood("step limit")
	}
	switch v := e.(type) {
	case IntLit:
		return v.V
	case IntSrc:
		return v.V
	case StrSrc:
		return v.V
	case StrLit:
		return v.V
	case RawStr:
		return v.V
	case BoolLit:
		return v.V
	case UnitLit:
		return UnitV{}
	case Var:
		if strings.HasPrefix(v.Name, "_.") {
			fld := v.Name[2:]
			return &Closure{Name: v.Name, Arity: 1, Builtin: func(ev2 *Evaluator, a []Value) Value { return a[0].(RecV).Fields[fld] }}
		}
		return ev.lookup(v.Name, env)
	case Paren:
		return ev.Eval(v.E, env)
	case *Block:
		return ev.EvalBlock(v, env)
	case Not:
		return !ev.Eval(v.E, env).(bool)
	case BinOp:
		return ev.binop(v, env)
	case If:
		if ev.Eval(v.Cond, env).(bool) {
			r := ev.EvalBlock(v.Then, env)
			if v.Else == nil {
				return UnitV{}
			}
			return r
		}
		for _, ea := range v.Elifs {
			if ev.Eval(ea.Cond, env).(bool) {
				return ev.EvalBlock(ea.Body, env)
			}
		}
		if v.Else == nil {
			return UnitV{}
		}
		return ev.EvalBlock(v.Else, env)
	case Match:
		t := ev.Eval(v.Target, env).(UnionV)
		for _, a := range v.Arms {
			if a.Case == t.Case {
				e2 := env
				if a.Bind != "" && a.Bind != "_" {
					e2 = env.With(a.Bind, t.Payload)
				}
				return ev.EvalBlock(a.Body, e2)
			}
		}
		if v.Default != nil {
			return ev.EvalBlock(v.Default, env)
		}
		panic("fo: eval: non-exhaustive match reached")
	case SMatch:
		t := ev.Eval(v.Target, env).(string)
		for _, a := range v.Lits {
			if a.Lit == t {
				if ev.SMatchVarLeak && v.VarName != "" {
					return ev.EvalBlock(a.Body, env.With(v.VarName, t))
				}
				return ev.EvalBlock(a.Body, env)
			}
		}
		e2 := env
		if v.VarName != "" {
			e2 = env.With(v.VarName, t)
		}
		return ev.EvalBlock(v.Last, e2)
	case Lambda:
		return ev.mkClosure("fun", v.Params, v.Body, env)
	case Tuple:
		es := make([]Value, len(v.Es))
		for i, x := range v.Es {
			es[i] = ev.Eval(x, env)
		}
		return TupleV{es}
	case SliceLit:
		es := make([]Value, len(v.Es))
		for i, x := range v.Es {
			es[i] = ev.Eval(x, env)
		}
		return SliceV{es}
	case RecordLit:
		r := RecV{Name: v.Rec, Fields: map[string]Value{}}
		for _, f := range v.Fields {
			r.Fields[f.Name] = ev.Eval(f.E, env)
		}
		return r
	case Field:
		r := ev.Eval(v.E, env).(RecV)
		return r.Fields[v.Name]
	case Ctor:
		if v.Arg == nil {
			return UnionV{Case: v.Case}
		}
		return UnionV{Case: v.Case, Payload: ev.Eval(v.Arg, env)}
	case Interp:
		var b strings.Builder
		for _, pt := range v.Parts {
			if pt.Hole != "" {
				b.WriteString(Display(ev.lookup(pt.Hole, env)))
			} else {
				b.WriteString(pt.Text)
			}
		}
		return b.String()
	case App:
		return ev.app(v, env)
	}
	panic(fmt.Sprintf("fo: eval: expr %T", e))
}

func (ev *Evaluator) app(v App, env *Env) Value {
	f, ok := ev.lookup(v.Fn, env).(*Closure)
	if !ok {
		panic("fo: eval: applying a non-function " + v.Fn)
	}
	if len(v.Args) == 0 {
		return f
	}
	need := f.Arity - len(f.Bound)
	if len(v.Args) > need {
		panic(fmt.Sprintf("fo: eval: too many arguments for %s", v.Fn))
	}
	if len(v.Args) < need {
		// partial application
		if ev.PartialReeval {
			// defect model: the closure re-evaluates the supplied argument expressions at every call
			return &Closure{Name: "papp", Arity: need - len(v.Args), Builtin: func(ev2 *Evaluator, rest []Value) Value {
				args := make([]Value, len(v.Args))
				for i, a := range v.Args {
					args[i] = ev2.Eval(a, env)
				}
				return ev2.call(f, append(args, rest...))
			}}
		}
		args := make([]Value, len(v.Args))
		for i, a := range v.Args {
			args[i] = ev.Eval(a, env)
		}
		g := *f
		g.Bound = append(append([]Value{}, f.Bound...), args...)
		return &g
	}
	args := make([]Value, len(v.Args))
	for i, a := range v.Args {
		args[i] = ev.Eval(a, env)
	}
	return ev.call(f, args)
}

// call applies a closure to the remaining arguments (exactly as many as it still needs).
func (ev *Evaluator) call(f *Closure, rest []Value) Value {
	var all []Value
	all = append(all, f.Bound...)
	all = append(all, rest...)
	if f.Builtin != nil {
		return f.Builtin(ev, all)
	}
	env := f.Env
	if f.UnitParam {
		return ev.EvalBlock(f.Body, env)
	}
	if len(all) != len(f.Params) {
		panic(fmt.Sprintf("fo: eval: %s called with %d arguments, needs %d", f.Name, len(all), len(f.Params)))
	}
	for i, p := range f.Params {
		env = env.With(p, all[i])
	}
	return ev.EvalBlock(f.Body, env)
}

// Apply applies a function value to arguments (used by library models).
func (ev *Evaluator) Apply(f Value, args ...Value) Value {
	c := f.(*Closure)
	need := c.Arity - len(c.Bound)
	if len(args) != need {
		panic(fmt.Sprintf("fo: eval: Apply %s: %d args, needs %d", c.Name, len(args), need))
	}
	return ev.call(c, args)
}

func (ev *Evaluator) binop(v BinOp, env *Env) Value {
	switch v.Op {
	case "&&":
		if !ev.Eval(v.L, env).(bool) {
			return false
		}
		return ev.Eval(v.R, env).(bool)
	case "||":
		if ev.Eval(v.L, env).(bool) {
			return true
		}
		return ev.Eval(v.R, env).(bool)
	case "|>":
		a := ev.Eval(v.L, env)
		g := ev.Eval(v.R, env)
		return ev.Apply(g, a)
	}
	l := ev.Eval(v.L, env)
	r := ev.Eval(v.R, env)
	switch v.Op {
	case "=":
		return Equal(l, r)
	case "<>":
		return !Equal(l, r)
	}
	if ls, ok := l.(string); ok {
		rs := r.(string)
		switch v.Op {
		case "+":
			return ls + rs
		case "<":
			return ls < rs
		case ">":
			return ls > rs
		case "<=":
			return ls <= rs
		case ">=":
			return ls >= rs
		}
		panic("fo: eval: string op " + v.Op)
	}
	a, b := l.(int64), r.(int64)
	switch v.Op {
	case "+":
		return a + b
	case "-":
		return a - b
	case "*":
		return a * b
	case "/":
		if b == 0 {
			ood("division by zero")
		}
		return a / b
	case "<":
		return a < b
	case ">":
		return a > b
	case "<=":
		return a <= b
	case ">=":
		return a >= b
	}
	panic("fo: eval: op " + v.Op)
}

// Equal is structural equality on first-order values.
func Equal(a, b Value) bool {
	switch x := a.(type) {
	case int64:
		y, ok := b.(int64)
		return ok && x == y
	case string:
		y, ok := b.(string)
		return ok && x == y
	case bool:
		y, ok := b.(bool)
		return ok && x == y
	case UnitV:
		_, ok := b.(UnitV)
		return ok
	case TupleV:
		y, ok := b.(TupleV)
		if !ok || len(x.Es) != len(y.Es) {
			return false
		}
		for i := range x.Es {
			if !Equal(x.Es[i], y.Es[i]) {
				return false
			}
		}
		return true
	case SliceV:
		y, ok := b.(SliceV)
		if !ok || len(x.Es) != len(y.Es) {
			return false
		}
		for i := range x.Es {
			if !Equal(x.Es[i], y.Es[i]) {
				return false
			}
		}
		return true
	case RecV:
		y, ok := b.(RecV)
		if !ok || x.Name != y.Name || len(x.Fields) != len(y.Fields) {
			return false
		}
		for k, v := range x.Fields {
			if !Equal(v, y.Fields[k]) {
				return false
			}
		}
		return true
	case UnionV:
		y, ok := b.(UnionV)
		if !ok || x.Case != y.Case {
			return false
		}
		if x.Payload == nil || y.Payload == nil {
			return x.Payload == nil && y.Payload == nil
		}
		return Equal(x.Payload, y.Payload)
	}
	panic(fmt.Sprintf("fo: Equal on %T", a))
}

// Display is the display form used by string interpolation and %v.
func Display(v Value) string {
	switch x := v.(type) {
	case int64:
		return fmt.Sprint(x)
	case string:
		return x
	case bool:
		return fmt.Sprint(x)
	case SliceV:
		parts := make([]string, len(x.Es))
		for i, e := range x.Es {
			parts[i] = Display(e)
		}
		return "[" + strings.Join(parts, " ") + "]"
	case TupleV:
		parts := make([]string, len(x.Es))
		for i, e := range x.Es {
			parts[i] = Display(e)
		}
		return "{" + strings.Join(parts, " ") + "}"
	case UnionV:
		// the String method fc emits for every case struct (C03: "(X0: 4)", "(Y0)")
		if x.Payload == nil {
			return "(" + x.Case + ")"
		}
		return "(" + x.Case + ": " + Display(x.Payload) + ")"
	}
	return fmt.Sprintf("?%T", v)
}

// Format implements the %d %s %v subset of fmt for one argument.
func Format(f string, v Value) string {
	var b strings.Builder
	used := false
	for i := 0; i < len(f); i++ {
		if f[i] == '%' && i+1 < len(f) {
			switch f[i+1] {
			case 'd', 's', 'v', 't':
				if !used {
					b.WriteString(Display(v))
					used = true
					i++
					continue
				}
			case '%':
				b.WriteByte('%')
				i++
				continue
			}
		}
		b.WriteByte(f[i])
	}
	return b.String()
}

type builtin struct {
	arity int
	f     func(ev *Evaluator, a []Value) Value
}

func sl(v Value) []Value { return v.(SliceV).Es }

var builtins = map[string]builtin{}

func init() {
	reg := func(name string, arity int, f func(ev *Evaluator, a []Value) Value) {
		builtins[name] = builtin{arity, f}
	}
	// traced leaves (defined in Folang in the prelude; modelled directly)
	reg("trI", 1, func(ev *Evaluator, a []Value) Value { fmt.Fprintf(&ev.Out, "<%d>", a[0].(int64)); return a[0] })
	reg("trS", 1, func(ev *Evaluator, a []Value) Value { fmt.Fprintf(&ev.Out, "<%s>", a[0].(string)); return a[0] })
	reg("trB", 1, func(ev *Evaluator, a []Value) Value { fmt.Fprintf(&ev.Out, "<%v>", a[0].(bool)); return a[0] })
	reg("frt.Println", 1, func(ev *Evaluator, a []Value) Value { ev.Out.WriteString(a[0].(string) + "\n"); return UnitV{} })
	reg("frt.Printf1", 2, func(ev *Evaluator, a []Value) Value { ev.Out.WriteString(Format(a[0].(string), a[1])); return UnitV{} })
	reg("frt.Sprintf1", 2, func(ev *Evaluator, a []Value) Value { return Format(a[0].(string), a[1]) })
	reg("frt.Fst", 1, func(ev *Evaluator, a []Value) Value { return a[0].(TupleV).Es[0] })
	reg("frt.Snd", 1, func(ev *Evaluator, a []Value) Value { return a[0].(TupleV).Es[1] })
	reg("slice.Length", 1, func(ev *Evaluator, a []Value) Value { return int64(len(sl(a[0]))) })
	reg("slice.Len", 1, func(ev *Evaluator, a []Value) Value { return int64(len(sl(a[0]))) })
	reg("slice.IsEmpty", 1, func(ev *Evaluator, a []Value) Value { return len(sl(a[0])) == 0 })
	reg("slice.IsNotEmpty", 1, func(ev *Evaluator, a []Value) Value { return len(sl(a[0])) != 0 })
	reg("slice.New", 1, func(ev *Evaluator, a []Value) Value { return SliceV{} })
	reg("slice.Head", 1, func(ev *Evaluator, a []Value) Value {
		if len(sl(a[0])) == 0 {
			ood("Head of empty slice")
		}
		return sl(a[0])[0]
	})
	reg("slice.Last", 1, func(ev *Evaluator, a []Value) Value {
		if len(sl(a[0])) == 0 {
			ood("Last of empty slice")
		}
		return sl(a[0])[len(sl(a[0]))-1]
	})
	reg("slice.Tail", 1, func(ev *Evaluator, a []Value) Value {
		if len(sl(a[0])) == 0 {
			ood("Tail of empty slice")
		}
		return SliceV{sl(a[0])[1:]}
	})
	reg("slice.PopLast", 1, func(ev *Evaluator, a []Value) Value {
		if len(sl(a[0])) == 0 {
			ood("PopLast of empty slice")
		}
		return SliceV{sl(a[0])[:len(sl(a[0]))-1]}
	})
	reg("slice.Item", 2, func(ev *Evaluator, a []Value) Value {
		i := a[0].(int64)
		if i < 0 || int(i) >= len(sl(a[1])) {
			ood("Item out of range")
		}
		return sl(a[1])[i]
	})
	reg("slice.Take", 2, func(ev *Evaluator, a []Value) Value {
		n := a[0].(int64)
		if n < 0 || int(n) > len(sl(a[1])) {
			ood("Take out of range")
		}
		return SliceV{append([]Value{}, sl(a[1])[:n]...)}
	})
	reg("slice.Skip", 2, func(ev *Evaluator, a []Value) Value {
		n := a[0].(int64)
		if n < 0 {
			ood("Skip negative")
		}
		if int(n) > len(sl(a[1])) {
			return SliceV{}
		}
		return SliceV{append([]Value{}, sl(a[1])[n:]...)}
	})
	reg("slice.PushHead", 2, func(ev *Evaluator, a []Value) Value { return SliceV{append([]Value{a[0]}, sl(a[1])...)} })
	reg("slice.PushLast", 2, func(ev *Evaluator, a []Value) Value {
		return SliceV{append(append([]Value{}, sl(a[1])...), a[0])}
	})
	reg("slice.Append", 2, func(ev *Evaluator, a []Value) Value {
		return SliceV{append(append([]Value{}, sl(a[0])...), sl(a[1])...)}
	})
	reg("slice.Map", 2, func(ev *Evaluator, a []Value) Value {
		var out []Value
		for _, x := range sl(a[1]) {
			out = append(out, ev.Apply(a[0], x))
		}
		return SliceV{out}
	})
	reg("slice.Mapi", 2, func(ev *Evaluator, a []Value) Value {
		var out []Value
		for i, x := range sl(a[1]) {
			out = append(out, ev.Apply(a[0], int64(i), x))
		}
		return SliceV{out}
	})
	reg("slice.TryFind", 2, func(ev *Evaluator, a []Value) Value {
		for _, x := range sl(a[1]) {
			if ev.Apply(a[0], x).(bool) {
				return TupleV{[]Value{x, true}}
			}
		}
		return TupleV{[]Value{int64(0), false}} // the zero value of the element type; only int slices are generated
	})
	// constructors with a payload are also function values (x |> I, slice.Map I xs)
	for _, cn := range []string{"I", "S", "Some", "P", "Q", "L"} {
		cn := cn
		reg(cn, 1, func(ev *Evaluator, a []Value) Value { return UnionV{Case: cn, Payload: a[0]} })
	}
	reg("slice.Iter", 2, func(ev *Evaluator, a []Value) Value {
		for _, x := range sl(a[1]) {
			ev.Apply(a[0], x)
		}
		return UnitV{}
	})
	reg("slice.Filter", 2, func(ev *Evaluator, a []Value) Value {
		var out []Value
		for _, x := range sl(a[1]) {
			if ev.Apply(a[0], x).(bool) {
				out = append(out, x)
			}
		}
		return SliceV{out}
	})
	reg("slice.Forall", 2, func(ev *Evaluator, a []Value) Value {
		for _, x := range sl(a[1]) {
			if !ev.Apply(a[0], x).(bool) {
				return false
			}
		}
		return true
	})
	reg("slice.Forany", 2, func(ev *Evaluator, a []Value) Value {
		for _, x := range sl(a[1]) {
			if ev.Apply(a[0], x).(bool) {
				return true
			}
		}
		return false
	})
	reg("slice.Fold", 3, func(ev *Evaluator, a []Value) Value {
		st := a[1]
		for _, x := range sl(a[2]) {
			st = ev.Apply(a[0], st, x)
		}
		return st
	})
	reg("slice.Sort", 1, func(ev *Evaluator, a []Value) Value {
		out := append([]Value{}, sl(a[0])...)
		sort.SliceStable(out, func(i, j int) bool {
			if x, ok := out[i].(int64); ok {
				return x < out[j].(int64)
			}
			return out[i].(string) < out[j].(string)
		})
		return SliceV{out}
	})
	reg("slice.Distinct", 1, func(ev *Evaluator, a []Value) Value {
		var out []Value
		for _, x := range sl(a[0]) {
			dup := false
			for _, y := range out {
				if Equal(x, y) {
					dup = true
				}
			}
			if !dup {
				out = append(out, x)
			}
		}
		return SliceV{out}
	})
	reg("slice.Zip", 2, func(ev *Evaluator, a []Value) Value {
		if len(sl(a[0])) != len(sl(a[1])) {
			ood("Zip of unequal lengths")
		}
		var out []Value
		for i, x := range sl(a[0]) {
			out = append(out, TupleV{[]Value{x, sl(a[1])[i]}})
		}
		return SliceV{out}
	})
	reg("strings.Concat", 2, func(ev *Evaluator, a []Value) Value {
		parts := []string{}
		for _, x := range sl(a[1]) {
			parts = append(parts, x.(string))
		}
		return strings.Join(parts, a[0].(string))
	})
	reg("strings.Length", 1, func(ev *Evaluator, a []Value) Value { return int64(len(a[0].(string))) })
	reg("strings.HasPrefix", 2, func(ev *Evaluator, a []Value) Value { return strings.HasPrefix(a[1].(string), a[0].(string)) })
	reg("strings.HasSuffix", 2, func(ev *Evaluator, a []Value) Value { return strings.HasSuffix(a[1].(string), a[0].(string)) })
	reg("strings.AppendTail", 2, func(ev *Evaluator, a []Value) Value { return a[1].(string) + a[0].(string) })
	reg("strings.AppendHead", 2, func(ev *Evaluator, a []Value) Value { return a[0].(string) + a[1].(string) })
	reg("strings.Split", 2, func(ev *Evaluator, a []Value) Value {
		var out []Value
		for _, s := range strings.Split(a[1].(string), a[0].(string)) {
			out = append(out, s)
		}
		return SliceV{out}
	})
	reg("strings.IsEmpty", 1, func(ev *Evaluator, a []Value) Value { return a[0].(string) == "" })
	reg("dict.New", 1, func(ev *Evaluator, a []Value) Value { return &DictV{M: map[string]Value{}} })
	reg("dict.Add", 3, func(ev *Evaluator, a []Value) Value { a[0].(*DictV).M[a[1].(string)] = a[2]; return UnitV{} })
	reg("dict.Item", 2, func(ev *Evaluator, a []Value) Value {
		v, ok := a[0].(*DictV).M[a[1].(string)]
		if !ok {
			ood("dict.Item of a missing key")
		}
		return v
	})
	reg("dict.ContainsKey", 2, func(ev *Evaluator, a []Value) Value { _, ok := a[0].(*DictV).M[a[1].(string)]; return ok })
	reg("dict.TryFind", 2, func(ev *Evaluator, a []Value) Value {
		v, ok := a[0].(*DictV).M[a[1].(string)]
		if !ok {
			v = int64(0)
		}
		return TupleV{[]Value{v, ok}}
	})
	reg("buf.New", 1, func(ev *Evaluator, a []Value) Value { return &BufV{B: &strings.Builder{}} })
	reg("buf.Write", 2, func(ev *Evaluator, a []Value) Value { a[0].(*BufV).B.WriteString(a[1].(string)); return UnitV{} })
	reg("buf.String", 1, func(ev *Evaluator, a []Value) Value { return a[0].(*BufV).B.String() })
}
