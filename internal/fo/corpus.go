package fo

// Corpus is the hand-kept boundary corpus: shapes the fuel bound does not
// reach, written as harness ASTs so that the same evaluator computes their
// expected output and the same printer lays them out (C01, C06).
func Corpus() []*Case {
	unit := []Param{{Unit: true}}
	say := func(s string) Expr { return call("say", StrLit{s}) }
	done := call("frt.Println", StrLit{"=u"})
	mk := func(name string, aux []Def, body *Block) *Case {
		defs := append(append([]Def{}, aux...), FuncDef{Name: "run", Params: unit, Body: body})
		return &Case{Defs: defs, Run: "run", Type: "unit", Fuel: -1, Used: map[string]int{"corpus:" + name: 1}, Name: name}
	}
	var out []*Case

	// a block whose first statement begins with an interpolated string, followed by further statements
	out = append(out, mk("interp-first-statement-of-block", nil, &Block{Stmts: []Stmt{
		ExprStmt{Match{Target: Ctor{Case: "I", Arg: trI(2)}, Arms: []Arm{
			{"I", "i", &Block{Stmts: []Stmt{
				ExprStmt{BinOp{"|>", Interp{Parts: []InterpPart{{Text: "n="}, {Hole: "i"}, {Text: "!"}}}, Var{"say"}}},
			}, Final: say("after")}},
		}, Default: B(say("other"))}},
	}, Final: done}))

	// an if without else as the last statement of an outer then-block, followed by the outer else
	out = append(out, mk("dangling-else", nil, &Block{Stmts: []Stmt{
		ExprStmt{If{Cond: trB(true), Then: &Block{Stmts: []Stmt{ExprStmt{say("a")}},
			Final: If{Cond: trB(false), Then: &Block{Stmts: []Stmt{ExprStmt{say("b")}}, Final: say("c")}}},
			Else: B(say("d"))}},
	}, Final: done}))
	out = append(out, mk("dangling-else-inner-taken", nil, &Block{Stmts: []Stmt{
		ExprStmt{If{Cond: trB(false), Then: &Block{Stmts: []Stmt{ExprStmt{say("a")}},
			Final: If{Cond: trB(true), Then: &Block{Stmts: []Stmt{ExprStmt{say("b")}}, Final: say("c")}}},
			Else: B(say("d"))}},
	}, Final: done}))

	// match inside a partially applied pipe stage inside an if branch
	pick := FuncDef{Name: "pick", Params: []Param{{Name: "u", Type: "U"}, {Name: "d", Type: "int"}}, Body: B(
		Match{Target: Var{"u"}, Arms: []Arm{{"I", "i", B(BinOp{"+", Var{"i"}, Var{"d"}})}, {"S", "_", B(Var{"d"})}, {"N", "", B(IntLit{0})}}})}
	out = append(out, mk("match-in-partial-pipe-stage-in-if", []Def{pick}, &Block{Stmts: []Stmt{
		Let{"r", If{Cond: trB(true),
			Then: B(BinOp{"|>", BinOp{"|>", trI(3), call("pick", Ctor{Case: "I", Arg: trI(5)})}, Var{"inc"}}),
			Else: B(BinOp{"|>", trI(7), call("pick", Ctor{Case: "N"})})}},
		ExprStmt{call("frt.Printf1", StrLit{"=%d\n"}, Var{"r"})},
	}, Final: done}))

	// deep elif chain
	out = append(out, mk("deep-elif-chain", nil, &Block{Stmts: []Stmt{
		Let{"r", If{Cond: trB(false), Then: B(trI(1)), Elifs: []ElifArm{
			{trB(false), B(trI(2))}, {trB(false), B(trI(3))}, {trB(true), &Block{Stmts: []Stmt{Let{"z", trI(4)}}, Final: BinOp{"*", Var{"z"}, Var{"z"}}}}, {trB(true), B(trI(5))},
		}, Else: B(trI(6))}},
		ExprStmt{call("frt.Printf1", StrLit{"=%d\n"}, Var{"r"})},
	}, Final: done}))

	// nested matches with shadowing of the payload variable, and a lambda shadowing a parameter
	out = append(out, mk("nested-match-shadowing", nil, &Block{Stmts: []Stmt{
		Let{"r", Match{Target: Ctor{Case: "I", Arg: trI(2)}, Arms: []Arm{
			{"I", "i", B(Match{Target: Ctor{Case: "I", Arg: BinOp{"+", Var{"i"}, trI(3)}}, Arms: []Arm{
				{"I", "i", B(BinOp{"*", Var{"i"}, IntLit{10}})}}, Default: B(Var{"i"})})},
		}, Default: B(IntLit{0})}},
		Let{"f", Lambda{[]Param{{Name: "r", Type: "int"}}, B(BinOp{"+", Var{"r"}, IntLit{1}})}},
		ExprStmt{call("frt.Printf1", StrLit{"=%d\n"}, call("f", Var{"r"}))},
	}, Final: done}))

	// more than 10 type variables in one function (_T10 sorts before _T9)
	var ps []Param
	names := []string{"a", "b", "c", "d", "e", "f", "g", "h", "i", "j", "k", "l"}
	for _, n := range names {
		ps = append(ps, Param{Name: n})
	}
	many := FuncDef{Name: "many", Params: ps, Body: B(Tuple{[]Expr{
		Tuple{[]Expr{Var{"a"}, Var{"b"}, Var{"c"}}}, Tuple{[]Expr{Var{"d"}, Var{"e"}, Var{"f"}}}, Tuple{[]Expr{Tuple{[]Expr{Var{"g"}, Var{"h"}, Var{"i"}}}, Tuple{[]Expr{Var{"j"}, Var{"k"}, Var{"l"}}}}},
	}})}
	var margs []Expr
	for i := range names {
		if i%2 == 0 {
			margs = append(margs, trI(int64(i+1)))
		} else {
			margs = append(margs, trS(names[i]))
		}
	}
	out = append(out, mk("twelve-type-variables", []Def{many}, &Block{Stmts: []Stmt{
		LetDestr{[]string{"x", "_", "z"}, App{Fn: "many", Args: margs}},
		LetDestr{[]string{"x1", "x2", "_"}, Var{"x"}},
		LetDestr{[]string{"_", "z2"}, Var{"z"}},
		LetDestr{[]string{"_", "_", "z3"}, Var{"z2"}},
		ExprStmt{call("frt.Printf1", StrLit{"=%d"}, Var{"x1"})},
		ExprStmt{call("frt.Printf1", StrLit{"%s"}, Var{"x2"})},
		ExprStmt{call("frt.Printf1", StrLit{"%s\n"}, Var{"z3"})},
	}, Final: done}))

	// local function closing over a local and a parameter, used twice; string match with default inside a mapped lambda
	cl := FuncDef{Name: "clos", Params: []Param{{Name: "p", Type: "int"}}, Body: &Block{Stmts: []Stmt{
		Let{"k", trI(100)},
		LetFun{"lf", []Param{{Name: "y", Type: "int"}}, &Block{Stmts: []Stmt{ExprStmt{say("in")}}, Final: BinOp{"+", BinOp{"+", Var{"y"}, Var{"k"}}, Var{"p"}}}},
	}, Final: BinOp{"+", call("lf", trI(1)), call("lf", trI(2))}}}
	out = append(out, mk("local-function-closure", []Def{cl}, &Block{Stmts: []Stmt{
		ExprStmt{call("frt.Printf1", StrLit{"=%d\n"}, call("clos", trI(7)))},
		Let{"ws", call("slice.Map", Lambda{[]Param{{Name: "s", Type: "string"}}, B(SMatch{Target: Var{"s"}, Lits: []SArm{{"a", B(trI(1))}, {"b", B(trI(2))}}, Last: B(trI(3))})},
			SliceLit{[]Expr{StrLit{"b"}, StrLit{"zz"}, StrLit{"a"}}})},
		ExprStmt{call("frt.Printf1", StrLit{"=%v\n"}, Var{"ws"})},
	}, Final: done}))

	// README example 1: slice pipeline with a partially applied Sprintf1
	out = append(out, mk("readme-pipeline", nil, &Block{Final: BinOp{"|>", BinOp{"|>", BinOp{"|>",
		SliceLit{[]Expr{IntLit{1}, IntLit{2}, IntLit{3}}},
		call("slice.Map", call("frt.Sprintf1", StrLit{"This is %d"}))},
		call("strings.Concat", StrLit{", "})},
		Var{"frt.Println"}}}))

	// README example 2: ApplyL with a generic tuple function and a partial application
	applyL := FuncDef{Name: "ApplyL", Params: []Param{{Name: "fn"}, {Name: "tup"}}, Body: &Block{Stmts: []Stmt{
		Let{"nl", BinOp{"|>", call("frt.Fst", Var{"tup"}), Var{"fn"}}},
	}, Final: Tuple{[]Expr{Var{"nl"}, call("frt.Snd", Var{"tup"})}}}}
	out = append(out, mk("readme-applyl", []Def{applyL}, &Block{Stmts: []Stmt{
		Let{"t", BinOp{"|>", Tuple{[]Expr{IntLit{123}, StrLit{"hoge"}}}, call("ApplyL", call("add", IntLit{456}))}},
		ExprStmt{call("frt.Printf1", StrLit{"=%d"}, call("frt.Fst", Var{"t"}))},
		ExprStmt{call("frt.Printf1", StrLit{"%s\n"}, call("frt.Snd", Var{"t"}))},
	}, Final: done}))

	// if-only with a block body as a non-final statement, then more statements; unit match as statement
	out = append(out, mk("unit-blocks-as-statements", nil, &Block{Stmts: []Stmt{
		ExprStmt{If{Cond: trB(true), Then: &Block{Stmts: []Stmt{ExprStmt{say("t1")}}, Final: say("t2")}}},
		ExprStmt{Match{Target: Ctor{Case: "S", Arg: trS("q")}, Arms: []Arm{{"S", "s", &Block{Stmts: []Stmt{ExprStmt{say("m1")}}, Final: call("say", Var{"s"})}}}, Default: B(say("m2"))}},
		ExprStmt{If{Cond: trB(false), Then: B(say("no"))}},
	}, Final: done}))
	// an inner block-owning construct that is the last thing in an arm body, followed by a continuation of
	// the OUTER construct (its default arm / next arm): the continuation line is indented less than the inner block
	inner := func(t Expr) Expr {
		return Match{Target: t, Arms: []Arm{{"I", "i", B(BinOp{"+", Var{"i"}, IntLit{1}})}, {"S", "_", B(IntLit{20})}, {"N", "", B(IntLit{30})}}}
	}
	for _, tc := range []struct {
		name string
		t    Expr
	}{{"taken", Ctor{Case: "I", Arg: trI(1)}}, {"default", Ctor{Case: "N"}}} {
		out = append(out, mk("nested-match-before-outer-default-"+tc.name, nil, &Block{Stmts: []Stmt{
			Let{"r", Match{Target: tc.t, Arms: []Arm{
				{"I", "_", B(inner(Ctor{Case: "S", Arg: trS("s")}))},
			}, Default: B(IntLit{40})}},
			ExprStmt{call("frt.Printf1", StrLit{"=%d\n"}, Var{"r"})},
		}, Final: done}))
	}
	out = append(out, mk("nested-match-with-default-before-outer-arm", nil, &Block{Stmts: []Stmt{
		Let{"r", Match{Target: Ctor{Case: "S", Arg: trS("q")}, Arms: []Arm{
			{"I", "_", B(Match{Target: Ctor{Case: "N"}, Arms: []Arm{{"I", "i", B(Var{"i"})}}, Default: B(IntLit{50})})},
			{"S", "_", B(IntLit{60})},
		}, Default: B(IntLit{70})}},
		ExprStmt{call("frt.Printf1", StrLit{"=%d\n"}, Var{"r"})},
	}, Final: done}))
	out = append(out, mk("nested-string-match-before-outer-default", nil, &Block{Stmts: []Stmt{
		Let{"r", SMatch{Target: trS("zz"), Lits: []SArm{
			{"a", B(SMatch{Target: trS("k"), Lits: []SArm{{"k", B(IntLit{1})}}, VarName: "o", Last: B(call("strings.Length", Var{"o"}))})},
		}, Last: B(IntLit{80})}},
		ExprStmt{call("frt.Printf1", StrLit{"=%d\n"}, Var{"r"})},
	}, Final: done}))
	// the variable arm of a string match with a body of several statements (after seed C06j: the arm's block entered on
	// the line end after the arrow)
	out = append(out, mk("string-match-variable-arm-block", nil, &Block{Stmts: []Stmt{
		Let{"r", SMatch{Target: trS("zz"), Lits: []SArm{{"a", B(IntLit{1})}}, VarName: "other",
			Last: &Block{Stmts: []Stmt{ExprStmt{call("say", Var{"other"})}, ExprStmt{say("second")}}, Final: If{Cond: trB(true), Then: B(IntLit{2}), Else: B(IntLit{3})}}}},
		ExprStmt{say("after")},
		ExprStmt{call("frt.Printf1", StrLit{"=%d\n"}, Var{"r"})},
	}, Final: done}))
	// integer literals with leading zeros are decimal (after seed C01k: strconv base 0 made 010 eight)
	out = append(out, mk("int-literals-with-leading-zeros", nil, &Block{Stmts: []Stmt{
		ExprStmt{call("frt.Printf1", StrLit{"=%d\n"}, BinOp{"+", BinOp{"+", IntSrc{"010", 10}, IntSrc{"0100", 100}}, BinOp{"+", IntSrc{"007", 7}, IntSrc{"08", 8}}})},
		ExprStmt{call("frt.Printf1", StrLit{"=%d\n"}, BinOp{"-", IntSrc{"0644", 644}, IntSrc{"00", 0}})},
	}, Final: done}))
	out = append(out, mk("nested-if-only-before-outer-default", nil, &Block{Stmts: []Stmt{
		ExprStmt{Match{Target: Ctor{Case: "N"}, Arms: []Arm{
			{"I", "_", &Block{Stmts: []Stmt{ExprStmt{say("i")}}, Final: If{Cond: trB(true), Then: B(say("t"))}}},
		}, Default: B(say("dflt"))}},
	}, Final: done}))
	// generic record and generic union at two instantiations inside one inferred type, nested instantiations
	out = append(out, mk("generic-instances-in-one-type", nil, &Block{Stmts: []Stmt{
		LetDestr{[]string{"x", "y"}, call("bothG", trI(1), trS("s"))},
		ExprStmt{call("frt.Printf1", StrLit{"=%d"}, call("getGI", Var{"x"}))},
		ExprStmt{call("frt.Printf1", StrLit{"%s\n"}, call("getGS", Var{"y"}))},
		Let{"r", Match{Target: call("nestO", trI(2), trS("t")), Arms: []Arm{
			{"Some", "p", &Block{Stmts: []Stmt{LetDestr{[]string{"_", "q"}, Var{"p"}}},
				Final: Match{Target: Var{"q"}, Arms: []Arm{{"Some", "w", B(Var{"w"})}, {"None", "", B(StrLit{"n"})}}}}},
			{"None", "", B(StrLit{"z"})}}}},
		ExprStmt{call("frt.Printf1", StrLit{"=%s\n"}, Var{"r"})},
		LetDestr{[]string{"o1", "o2"}, call("both", trS("u"), trI(3))},
		ExprStmt{call("frt.Printf1", StrLit{"=%d\n"}, Match{Target: Var{"o2"}, Arms: []Arm{{"Some", "i", B(Var{"i"})}, {"None", "", B(IntLit{0})}}})},
		ExprStmt{call("frt.Printf1", StrLit{"=%s\n"}, Match{Target: Var{"o1"}, Arms: []Arm{{"Some", "s", B(Var{"s"})}, {"None", "", B(StrLit{""})}}})},
	}, Final: done}))
	return out
}
