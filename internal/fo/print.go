package fo

import (
	"fmt"
	"strings"
)

// Layout answers the printer's layout questions; 0 is always the default
// (tutorial) layout.
type Layout interface {
	Choose(point string, n int) int
}

type DefaultLayout struct{}

func (DefaultLayout) Choose(string, int) int { return 0 }

// The published operator table (rank; higher binds tighter).
var Rank = map[string]int{
	"|>": 1,
	"&&": 2, "||": 2, "<": 2, ">": 2, "<=": 2, ">=": 2,
	"=": 3, "<>": 3,
	"+": 4, "-": 4,
	"*": 5, "/": 5,
}

type Printer struct {
	L Layout
	// Points counts the layout choice points that were offered (C06 evidence).
	Points map[string]int
	depth  int // > 0 while rendering inside parentheses / brackets / braces
	// ParenSliceArgs writes a slice literal that is an application argument in
	// parentheses (tinyfo only accepts it let-bound, piped or parenthesised).
	ParenSliceArgs bool
}

func NewPrinter(l Layout) *Printer {
	if l == nil {
		l = DefaultLayout{}
	}
	return &Printer{L: l, Points: map[string]int{}}
}

func (p *Printer) choose(point string, n int) int {
	p.Points[point]++
	return p.L.Choose(point, n)
}

// doc is a piece of text whose first line starts at column col; later lines carry absolute indentation.
type doc struct {
	lines []string
	col   int
}

func newDoc(col int) *doc { return &doc{lines: []string{""}, col: col} }

func (d *doc) endCol() int {
	if len(d.lines) == 1 {
		return d.col + len(d.lines[0])
	}
	return len(d.lines[len(d.lines)-1])
}

func (d *doc) add(s string) { d.lines[len(d.lines)-1] += s }

// splice appends lines rendered at the current end column.
func (d *doc) splice(ls []string) {
	d.lines[len(d.lines)-1] += ls[0]
	d.lines = append(d.lines, ls[1:]...)
}

func (d *doc) sub(f func(col int) []string) { d.splice(f(d.endCol())) }

// newline starts a new line at absolute column c.
func (d *doc) newline(c int) { d.lines = append(d.lines, strings.Repeat(" ", c)) }

func (d *doc) multi() bool { return len(d.lines) > 1 }

func escapeStr(s string) string {
	var b strings.Builder
	for _, r := range s {
		switch r {
		case '\n':
			b.WriteString(`\n`)
		case '\t':
			b.WriteString(`\t`)
		case '\\':
			b.WriteString(`\\`)
		case '"':
			b.WriteString(`\"`)
		default:
			b.WriteRune(r)
		}
	}
	return b.String()
}

func isAtomic(e Expr) bool {
	switch v := e.(type) {
	case IntLit, IntSrc, StrLit, StrSrc, BoolLit, UnitLit, Var, Tuple, SliceLit, RecordLit, Paren, RawStr, Interp:
		return true
	case Field:
		_, ok := v.E.(Var)
		return ok
	case Ctor:
		return v.Arg == nil && !v.UnitCall
	case App:
		return len(v.Args) == 0 && len(v.TypeArgs) == 0
	}
	return false
}

// blockValued: constructs that own blocks / arms.
func blockValued(e Expr) bool {
	switch e.(type) {
	case If, Match, SMatch, Lambda, *Block:
		return true
	}
	return false
}

const (
	ctxTop     = iota // statement, rhs, branch, element of a block: no parentheses
	ctxArg            // application argument / constructor payload: must be atomic
	ctxOperand        // operand of a binary operator (parenthesised by rank)
	ctxTarget         // if condition / match target
	ctxElem           // tuple / slice / record element
)

// Expr renders e starting at column col.
func (p *Printer) Expr(e Expr, col int, ctx int) []string {
	switch ctx {
	case ctxArg:
		if !isAtomic(e) {
			return p.paren(e, col)
		}
		if _, ok := e.(SliceLit); ok && p.ParenSliceArgs {
			return p.paren(e, col)
		}
	case ctxTarget, ctxElem:
		if blockValued(e) {
			return p.paren(e, col)
		}
	}
	d := newDoc(col)
	switch v := e.(type) {
	case IntLit:
		d.add(fmt.Sprint(v.V))
	case IntSrc:
		return []string{v.Src}
	case StrSrc:
		return []string{"\"" + v.Src + "\""}
	case StrLit:
		d.add(`"` + escapeStr(v.V) + `"`)
	case RawStr:
		d.add("`" + v.V + "`")
	case BoolLit:
		d.add(fmt.Sprint(v.V))
	case UnitLit:
		d.add("()")
	case Var:
		d.add(v.Name)
	case Paren:
		d.splice(p.paren(v.E, col))
	case Interp:
		d.add(p.interp(v))
	case App:
		d.add(v.Fn)
		if len(v.TypeArgs) > 0 {
			d.add("<" + strings.Join(v.TypeArgs, ", ") + ">")
		}
		for _, a := range v.Args {
			d.add(" ")
			d.sub(func(c int) []string { return p.Expr(a, c, ctxArg) })
		}
	case Ctor:
		d.add(v.Case)
		if len(v.TypeArgs) > 0 {
			d.add("<" + strings.Join(v.TypeArgs, ", ") + ">")
		}
		if v.UnitCall {
			d.add(" ()")
		} else if v.Arg != nil {
			d.add(" ")
			d.sub(func(c int) []string { return p.Expr(v.Arg, c, ctxArg) })
		}
	case Not:
		d.add("not ")
		if isAtomic(v.E) {
			d.sub(func(c int) []string { return p.Expr(v.E, c, ctxTop) })
		} else if _, ok := v.E.(App); ok {
			d.sub(func(c int) []string { return p.Expr(v.E, c, ctxTop) })
		} else {
			d.sub(func(c int) []string { return p.paren(v.E, c) })
		}
	case BinOp:
		p.binop(d, v, col)
	case Tuple:
		d.add("(")
		p.depth++
		for i, x := range v.Es {
			if i > 0 {
				d.add(", ")
			}
			d.sub(func(c int) []string { return p.Expr(x, c, ctxElem) })
		}
		p.depth--
		d.add(")")
	case SliceLit:
		d.add("[")
		p.depth++
		for i, x := range v.Es {
			if i > 0 {
				d.add("; ")
			}
			d.sub(func(c int) []string { return p.Expr(x, c, ctxElem) })
		}
		p.depth--
		d.add("]")
	case RecordLit:
		d.add("{")
		p.depth++
		for i, f := range v.Fields {
			if i > 0 {
				d.add("; ")
			}
			if i == 0 && v.Qualified {
				d.add(v.Rec + ".")
			}
			d.add(f.Name + "=")
			d.sub(func(c int) []string { return p.Expr(f.E, c, ctxElem) })
		}
		p.depth--
		d.add("}")
	case Field:
		d.sub(func(c int) []string { return p.Expr(v.E, c, ctxArg) })
		d.add("." + v.Name)
	case If:
		p.ifExpr(d, v, col)
	case Match:
		p.match(d, v, col)
	case SMatch:
		p.smatch(d, v, col)
	case Lambda:
		p.lambda(d, v, col)
	case *Block:
		// a block in expression position can only be a bare expression
		if len(v.Stmts) != 0 {
			panic("fo: block with statements in expression position")
		}
		return p.Expr(v.Final, col, ctx)
	default:
		panic(fmt.Sprintf("fo: print: unknown expr %T", e))
	}
	return d.lines
}

func (p *Printer) paren(e Expr, col int) []string {
	d := newDoc(col)
	d.add("(")
	p.depth++
	d.sub(func(c int) []string { return p.Expr(e, c, ctxTop) })
	p.depth--
	d.add(")")
	return d.lines
}

func (p *Printer) interp(v Interp) string {
	var b strings.Builder
	if v.Raw {
		b.WriteString("$`")
	} else {
		b.WriteString(`$"`)
	}
	for _, pt := range v.Parts {
		if pt.Hole != "" {
			b.WriteString("{" + pt.Hole + "}")
			continue
		}
		if v.Raw {
			b.WriteString(pt.Text)
		} else {
			for _, r := range pt.Text {
				switch r {
				case '{':
					b.WriteString(`\{`)
				case '}':
					b.WriteString(`\}`)
				default:
					b.WriteString(escapeStr(string(r)))
				}
			}
		}
	}
	if v.Raw {
		b.WriteString("`")
	} else {
		b.WriteString(`"`)
	}
	return b.String()
}

func (p *Printer) binop(d *doc, v BinOp, col int) {
	rk := Rank[v.Op]
	operand := func(x Expr, right bool) func(c int) []string {
		return func(c int) []string {
			switch o := x.(type) {
			case BinOp:
				r2 := Rank[o.Op]
				if r2 < rk || (right && r2 <= rk) {
					return p.paren(x, c)
				}
				return p.Expr(x, c, ctxTop)
			case Not:
				// not binds like an application operand
				return p.Expr(x, c, ctxTop)
			}
			if blockValued(x) {
				return p.paren(x, c)
			}
			return p.Expr(x, c, ctxTop)
		}
	}
	if v.Op == "|>" {
		// pipeline: collect the stages (left-nested)
		var stages []Expr
		cur := Expr(v)
		for {
			b, ok := cur.(BinOp)
			if !ok || b.Op != "|>" {
				break
			}
			stages = append([]Expr{b.R}, stages...)
			cur = b.L
		}
		d.sub(operand(cur, false))
		for _, st := range stages {
			// 4-6: a blank, a comment-only or a blanks-only line between the head of the pipeline and the line
			// that begins with |> (blank lines and comments may be added anywhere between lines)
			switch p.choose("pipe-break", 7) {
			case 0:
				d.add(" ")
			case 1:
				d.newline(col)
			case 2:
				d.newline(col + 2)
			case 3:
				d.newline(col + 4)
			case 4:
				d.newline(0)
				d.newline(col)
			case 5:
				d.newline(col)
				d.add("// c")
				d.newline(col + 2)
			case 6:
				d.newline(col + 3)
				d.newline(col)
			}
			d.add("|> ")
			d.sub(func(c int) []string {
				if _, ok := st.(Lambda); ok {
					return p.paren(st, c)
				}
				if blockValued(st) {
					return p.paren(st, c)
				}
				if b, ok := st.(BinOp); ok {
					_ = b
					return p.paren(st, c)
				}
				return p.Expr(st, c, ctxTop)
			})
		}
		return
	}
	d.sub(operand(v.L, false))
	d.add(" " + v.Op + " ")
	d.sub(operand(v.R, true))
}

func simpleBlock(b *Block) bool { return b != nil && len(b.Stmts) == 0 }

// oneLine reports whether rendering e in ctx gives a single line.
func (p *Printer) oneLine(e Expr, ctx int) bool {
	q := &Printer{L: DefaultLayout{}, Points: map[string]int{}}
	return len(q.Expr(e, 0, ctx)) == 1
}

func (p *Printer) blockIndent() int {
	return []int{2, 1, 4, 7}[p.choose("block-indent", 4)]
}

func (p *Printer) ifExpr(d *doc, v If, col int) {
	// the cheap tests first: oneLine renders its argument, which would make deep nesting exponential
	inlineOK := len(v.Elifs) == 0 && simpleBlock(v.Then) && (v.Else == nil || simpleBlock(v.Else)) &&
		!blockValued(v.Then.Final) && (v.Else == nil || !blockValued(v.Else.Final)) &&
		p.oneLine(v.Cond, ctxTarget) && p.oneLine(v.Then.Final, ctxTop) && (v.Else == nil || p.oneLine(v.Else.Final, ctxTop))
	if inlineOK && p.choose("if-inline", 2) == 0 {
		d.add("if ")
		d.sub(func(c int) []string { return p.Expr(v.Cond, c, ctxTarget) })
		d.add(" then ")
		d.sub(func(c int) []string { return p.Expr(v.Then.Final, c, ctxTop) })
		if v.Else != nil {
			d.add(" else ")
			d.sub(func(c int) []string { return p.Expr(v.Else.Final, c, ctxTop) })
		}
		return
	}
	d.add("if ")
	d.sub(func(c int) []string { return p.Expr(v.Cond, c, ctxTarget) })
	d.add(" then")
	p.blockBelow(d, v.Then, col)
	for _, ea := range v.Elifs {
		d.newline(col)
		d.add("elif ")
		d.sub(func(c int) []string { return p.Expr(ea.Cond, c, ctxTarget) })
		d.add(" then")
		p.blockBelow(d, ea.Body, col)
	}
	if v.Else != nil {
		d.newline(col)
		d.add("else")
		p.blockBelow(d, v.Else, col)
	}
}

// blockBelow renders block b on the lines below, indented relative to col.
func (p *Printer) blockBelow(d *doc, b *Block, col int) {
	d.add(p.eol())
	ind := col + p.blockIndent()
	ls := p.Block(b, ind)
	d.lines = append(d.lines, ls...)
}

// eol is the decoration at the end of a line that is followed by a block.
func (p *Printer) eol() string {
	return []string{"", "  ", " // c", " /* c */", " \t"}[p.choose("line-end", 5)]
}

// Block renders statements and the final expression, every line absolute at column col.
func (p *Printer) Block(b *Block, col int) []string {
	var out []string
	ind := strings.Repeat(" ", col)
	emit := func(ls []string, last bool) {
		// decorations before a statement
		for i := p.choose("blank-lines-before", 3); i > 0; i-- {
			out = append(out, "")
		}
		switch p.choose("comment-before", 6) {
		case 1:
			out = append(out, ind+"// c")
		case 2:
			out = append(out, "// c")
		case 3:
			out = append(out, ind+"/* c */")
		case 4:
			out = append(out, ind+"/* c", ind+"   c */")
		case 5:
			// an even run of stars next to the end mark (what is INSIDE a comment must not matter); alone, so that
			// code follows it directly
			out = append(out, ind+"/** c **/")
		}
		out = append(out, ind+ls[0])
		out = append(out, ls[1:]...)
		// trailing decoration on the statement's last line; inside parentheses the
		// last line of a block is followed by the closing parenthesis, so no line comment there
		if last && p.depth > 0 {
			out[len(out)-1] += []string{"", "  ", " /* c */"}[p.choose("line-end-before-paren", 3)]
		} else {
			out[len(out)-1] += []string{"", "  ", " // c", " /* c */", " \t"}[p.choose("line-end", 5)]
		}
	}
	for _, s := range b.Stmts {
		emit(p.Stmt(s, col), false)
	}
	emit(p.Expr(b.Final, col, ctxTop), true)
	return out
}

func paramStr(ps []Param) string {
	parts := []string{}
	for _, pm := range ps {
		switch {
		case pm.Unit:
			parts = append(parts, "()")
		case pm.Type != "":
			t := pm.Type
			if t == "unit" {
				t = "()"
			}
			parts = append(parts, "("+pm.Name+":"+t+")")
		default:
			parts = append(parts, pm.Name)
		}
	}
	return strings.Join(parts, " ")
}

func (p *Printer) Stmt(s Stmt, col int) []string {
	d := newDoc(col)
	switch v := s.(type) {
	case Let:
		d.add("let " + v.Name + " =")
		p.rhs(d, v.Rhs, col)
	case LetDestr:
		d.add("let (" + strings.Join(v.Names, ", ") + ") =")
		p.rhs(d, v.Rhs, col)
	case LetFun:
		d.add("let " + v.Name + " " + paramStr(v.Params) + " =")
		p.funBody(d, v.Body, col)
	case ExprStmt:
		d.splice(p.Expr(v.E, col, ctxTop))
	default:
		panic(fmt.Sprintf("fo: print: unknown stmt %T", s))
	}
	return d.lines
}

// rhs of a value let: same line or next line (deeper).
func (p *Printer) rhs(d *doc, e Expr, col int) {
	if p.choose("let-rhs-next-line", 2) == 0 {
		d.add(" ")
		d.sub(func(c int) []string { return p.Expr(e, c, ctxTop) })
		return
	}
	ind := col + p.blockIndent()
	d.newline(ind)
	d.sub(func(c int) []string { return p.Expr(e, c, ctxTop) })
}

// funBody: the body of a (local or top-level) function: same line when it is a simple one-line expression, else below.
func (p *Printer) funBody(d *doc, b *Block, col int) {
	if simpleBlock(b) && !blockValued(b.Final) && p.oneLine(b.Final, ctxTop) && p.choose("fun-body-same-line", 2) == 1 {
		d.add(" ")
		d.sub(func(c int) []string { return p.Expr(b.Final, c, ctxTop) })
		return
	}
	p.blockBelow(d, b, col)
}

func (p *Printer) armBody(d *doc, b *Block, armCol int) {
	if simpleBlock(b) && !blockValued(b.Final) && p.oneLine(b.Final, ctxTop) && p.choose("arm-body-next-line", 2) == 0 {
		d.add(" ")
		d.sub(func(c int) []string { return p.Expr(b.Final, c, ctxTop) })
		return
	}
	// a body of several statements, or one that is itself a match / if: below the arrow line (default), or
	// STARTING on the arrow line with the following lines aligned under its first token
	if p.choose("arm-block-on-arrow-line", 2) == 1 {
		startCol := d.endCol() + 1
		ls := p.Block(b, startCol)
		first := strings.TrimSpace(ls[0])
		if first != "" && !strings.HasPrefix(first, "//") && !strings.HasPrefix(first, "/*") {
			d.add(" ")
			d.lines[len(d.lines)-1] += strings.TrimLeft(ls[0], " ")
			d.lines = append(d.lines, ls[1:]...)
			return
		}
	}
	p.blockBelow(d, b, armCol)
}

func (p *Printer) armsDecor(d *doc, col int) {
	for i := p.choose("blank-lines-before", 3); i > 0; i-- {
		d.lines = append(d.lines, "")
	}
	ind := strings.Repeat(" ", col)
	switch p.choose("comment-before", 6) {
	case 1:
		d.lines = append(d.lines, ind+"// c")
	case 2:
		d.lines = append(d.lines, "// c")
	case 3:
		d.lines = append(d.lines, ind+"/* c */")
	case 4:
		d.lines = append(d.lines, ind+"/* c", ind+"   c */")
	case 5:
		d.lines = append(d.lines, ind+"/** c **/")
	}
}

func (p *Printer) match(d *doc, v Match, col int) {
	d.add("match ")
	d.sub(func(c int) []string { return p.Expr(v.Target, c, ctxTarget) })
	d.add(" with")
	d.add(p.eol())
	armCol := col + []int{0, 1, 2}[p.choose("arm-column", 3)]
	for _, a := range v.Arms {
		p.armsDecor(d, armCol)
		d.newline(armCol)
		d.add("| " + a.Case)
		if a.Bind != "" {
			d.add(" " + a.Bind)
		}
		d.add(" ->")
		p.armBody(d, a.Body, armCol)
	}
	if v.Default != nil {
		p.armsDecor(d, armCol)
		d.newline(armCol)
		d.add("| _ ->")
		p.armBody(d, v.Default, armCol)
	}
}

func (p *Printer) smatch(d *doc, v SMatch, col int) {
	d.add("match ")
	d.sub(func(c int) []string { return p.Expr(v.Target, c, ctxTarget) })
	d.add(" with")
	d.add(p.eol())
	armCol := col + []int{0, 1, 2}[p.choose("arm-column", 3)]
	for _, a := range v.Lits {
		p.armsDecor(d, armCol)
		d.newline(armCol)
		d.add(`| "` + escapeStr(a.Lit) + `" ->`)
		p.armBody(d, a.Body, armCol)
	}
	p.armsDecor(d, armCol)
	d.newline(armCol)
	if v.VarName != "" {
		d.add("| " + v.VarName + " ->")
	} else {
		d.add("| _ ->")
	}
	p.armBody(d, v.Last, armCol)
}

func (p *Printer) lambda(d *doc, v Lambda, col int) {
	d.add("fun " + paramStr(v.Params) + " ->")
	if simpleBlock(v.Body) && !blockValued(v.Body.Final) && p.oneLine(v.Body.Final, ctxTop) && p.choose("lambda-body-next-line", 2) == 0 {
		d.add(" ")
		d.sub(func(c int) []string { return p.Expr(v.Body.Final, c, ctxTop) })
		return
	}
	p.blockBelow(d, v.Body, col)
}

// Def renders a top-level definition (column 0).
func (p *Printer) Def(df Def) []string {
	switch v := df.(type) {
	case RawDef:
		return strings.Split(strings.TrimRight(v.Text, "\n"), "\n")
	case VarDef:
		d := newDoc(0)
		d.add("let " + v.Name + " =")
		p.rhs(d, v.Rhs, 0)
		return d.lines
	case RecordDecl:
		return p.recordDecl("type ", v)
	case UnionDecl:
		return p.unionDecl("type ", v)
	case TypeGroup:
		var out []string
		for i, d := range v.Decls {
			kw := "type "
			if i > 0 {
				kw = "and "
			}
			switch dd := d.(type) {
			case RecordDecl:
				out = append(out, p.recordDecl(kw, dd)...)
			case UnionDecl:
				out = append(out, p.unionDecl(kw, dd)...)
			}
		}
		return out
	case PkgInfoDecl:
		out := []string{"package_info " + v.Pkg + " =" + p.eol()}
		ind := strings.Repeat(" ", p.blockIndent())
		for _, ln := range v.Lines {
			out = p.declDecor(out, ind)
			out = append(out, ind+ln+p.declLineEnd())
		}
		return out
	case FuncDef:
		d := newDoc(0)
		d.add("let " + v.Name + " " + paramStr(v.Params))
		if v.Ret != "" {
			r := v.Ret
			if r == "unit" {
				r = "()"
			}
			d.add(" : " + r)
		}
		d.add(" =")
		p.funBody(d, v.Body, 0)
		return d.lines
	}
	panic(fmt.Sprintf("fo: print: unknown def %T", df))
}

func tparams(ps []string) string {
	if len(ps) == 0 {
		return ""
	}
	return "<" + strings.Join(ps, ", ") + ">"
}

// declDecor: blank lines and own-line comments between fields / cases / package_info lines
func (p *Printer) declDecor(out []string, ind string) []string {
	for i := p.choose("decl-blank-lines-before", 3); i > 0; i-- {
		out = append(out, "")
	}
	switch p.choose("decl-comment-before", 4) {
	case 1:
		out = append(out, ind+"// c")
	case 2:
		out = append(out, "// c")
	case 3:
		out = append(out, ind+"/* c */")
	}
	return out
}

func (p *Printer) declLineEnd() string {
	return []string{"", "  ", " // c", " /* c */"}[p.choose("decl-line-end", 4)]
}

func (p *Printer) recordDecl(kw string, v RecordDecl) []string {
	head := kw + v.Name + tparams(v.TParams) + " = {"
	if p.choose("record-fields-per-line", 2) == 0 {
		var fs []string
		for _, f := range v.Fields {
			fs = append(fs, f.Name+": "+f.Type)
		}
		return []string{head + strings.Join(fs, "; ") + "}"}
	}
	out := []string{head + p.declLineEnd()}
	ind := strings.Repeat(" ", p.blockIndent())
	for _, f := range v.Fields {
		out = p.declDecor(out, ind)
		out = append(out, ind+f.Name+": "+f.Type+";"+p.declLineEnd())
	}
	return append(out, "}")
}

func (p *Printer) unionDecl(kw string, v UnionDecl) []string {
	out := []string{kw + v.Name + tparams(v.TParams) + " =" + p.declLineEnd()}
	ind := strings.Repeat(" ", []int{2, 0, 4}[p.choose("case-column", 3)])
	for _, c := range v.Cases {
		out = p.declDecor(out, ind)
		ln := ind + "| " + c.Name
		if c.Payload != "" {
			ln += " of " + c.Payload
		}
		out = append(out, ln+p.declLineEnd())
	}
	return out
}

// Program renders all definitions separated by one blank line (plus layout decorations).
func (p *Printer) Program(pr *Program) string {
	var out []string
	for i, df := range pr.Defs {
		if i > 0 {
			out = append(out, "")
		}
		if _, raw := df.(RawDef); !raw {
			for k := p.choose("blank-lines-before-def", 3); k > 0; k-- {
				out = append(out, "")
			}
			switch p.choose("comment-before-def", 3) {
			case 1:
				out = append(out, "// c")
			case 2:
				out = append(out, "/* c", "   c */")
			}
		}
		out = append(out, p.Def(df)...)
	}
	s := strings.Join(out, "\n") + "\n"
	switch p.choose("end-of-file", 3) {
	case 1:
		s += "\n\n"
	case 2:
		s += "// the end\n"
	}
	return s
}
