// Package fo is the harness-side Folang program model: abstract syntax, a
// printer whose layout decisions are choice points, a reference evaluator
// (strict, left-to-right, lexically scoped) and a type-directed term generator.
package fo

// Type is a Folang type expression in source form ("int", "[]int",
// "int*string", "int->int", "U", "Opt<int>", "unit" for ()).
type Type = string

type Expr interface{}

type (
	IntLit struct{ V int64 }
	StrLit struct{ V string } // the denoted text; printed as "..." with escapes
	// StrSrc: a "..." literal given by its SOURCE body (printed verbatim between the quotes) and the text Go
	// denotes by it: escapes beyond the documented \n \t \\ \" (\x41, \u00e9, \a ...) that both transpilers hand
	// through to Go - used where two translations are compared with each other (C17)
	StrSrc  struct{ Src, V string }
	// IntSrc: an integer literal given by its source spelling (leading zeros: 010 is ten) and its value
	IntSrc struct {
		Src string
		V   int64
	}
	BoolLit struct{ V bool }
	UnitLit struct{}
	Var     struct{ Name string }
	// App is f a1 .. an.  Fn is a name (possibly qualified: slice.Map) or a local.
	// TypeArgs are explicit type arguments (f<int> ()).
	App struct {
		Fn       string
		TypeArgs []Type
		Args     []Expr
	}
	BinOp struct {
		Op   string
		L, R Expr
	}
	Not struct{ E Expr }
	// If: Else == nil => if-only (unit).  Elifs are elif arms between then and else.
	If struct {
		Cond  Expr
		Then  *Block
		Elifs []ElifArm
		Else  *Block
	}
	ElifArm struct {
		Cond Expr
		Body *Block
	}
	// Match on a union value.
	Match struct {
		Target  Expr
		Arms    []Arm
		Default *Block
	}
	Arm struct {
		Case string
		Bind string // "" = no pattern, "_" = ignore
		Body *Block
	}
	// SMatch on a string: literal arms, then a variable arm (VarName != "") or a default arm.
	SMatch struct {
		Target  Expr
		Lits    []SArm
		VarName string
		Last    *Block
	}
	SArm struct {
		Lit  string
		Body *Block
	}
	// Block used as an expression (statements + final expression).
	Block struct {
		Stmts []Stmt
		Final Expr
	}
	Lambda struct {
		Params []Param
		Body   *Block
	}
	Tuple    struct{ Es []Expr }
	SliceLit struct{ Es []Expr }
	// RecordLit: Fields in source order; Qualified => {Rec.F=...; ...}
	RecordLit struct {
		Rec       string
		Fields    []FieldInit
		Qualified bool
	}
	FieldInit struct {
		Name string
		E    Expr
	}
	Field struct {
		E    Expr
		Name string
	}
	// Ctor: union constructor application. Arg nil => no payload.  UnitCall => written `C<T> ()` / `C ()` (generic union without payload).
	Ctor struct {
		Case     string
		TypeArgs []Type
		Arg      Expr
		UnitCall bool
	}
	// Interp: $"..." with {name} holes; Parts alternate text / hole names.
	Interp struct {
		Raw   bool // $`...`
		Parts []InterpPart
	}
	InterpPart struct {
		Text string // literal text (the denoted characters)
		Hole string // variable name, or ""
	}
	// RawStr: `...` literal
	RawStr struct{ V string }
	// Paren keeps an explicit pair of parentheses (C08-style); semantically transparent.
	Paren struct{ E Expr }
)

type Param struct {
	Name string
	Type Type // "" = not annotated
	Unit bool // the () parameter
}

type Stmt interface{}

type (
	Let struct {
		Name string
		Rhs  Expr
	}
	LetDestr struct {
		Names []string // "_" allowed
		Rhs   Expr
	}
	LetFun struct {
		Name   string
		Params []Param
		Body   *Block
	}
	ExprStmt struct{ E Expr }
)

// Top-level definitions.
type Def interface{}

type (
	FuncDef struct {
		Name   string
		Params []Param
		Ret    Type // "" = not annotated
		Body   *Block
	}
	VarDef struct {
		Name string
		Rhs  Expr
	}
	// RawDef is verbatim source text (type declarations, package_info, ...).
	RawDef struct{ Text string }
)

// Program: definitions in order.
type Program struct {
	Defs []Def
}

func B(final Expr, stmts ...Stmt) *Block { return &Block{Stmts: stmts, Final: final} }

// Type declarations with layout (C06: "cases and fields").
type (
	FieldDecl struct {
		Name string
		Type Type
	}
	RecordDecl struct {
		Name    string
		TParams []string
		Fields  []FieldDecl
	}
	CaseDecl struct {
		Name    string
		Payload Type // "" = none
	}
	UnionDecl struct {
		Name    string
		TParams []string
		Cases   []CaseDecl
	}
	// TypeGroup: type A = ... and B = ...
	TypeGroup struct{ Decls []Def }
	// PkgInfoDecl: package_info P = <lines>
	PkgInfoDecl struct {
		Pkg   string
		Lines []string
	}
)
