package fo

import (
	"fmt"
	"sort"
	"strings"
)

// ---- reference type inference: textbook Hindley-Milner with an occurs check ----
//
// Folang functions are n-ary (int->int->int takes two arguments); a partial
// application yields the function of the remaining arguments.  Top-level
// functions are generalised, locals are not.

type TyKind int

const (
	KVar TyKind = iota
	KCon        // int string bool unit, records, unions, external types: Name + Args
	KFun        // Args = parameters..., result last
	KTuple
	KSlice
)

type Ty struct {
	Kind TyKind
	Name string
	Args []*Ty
	ref  *Ty // bound variable
	id   int
}

func (t *Ty) find() *Ty {
	for t.Kind == KVar && t.ref != nil {
		t = t.ref
	}
	return t
}

func Con(name string, args ...*Ty) *Ty { return &Ty{Kind: KCon, Name: name, Args: args} }
func Fun(args ...*Ty) *Ty              { return &Ty{Kind: KFun, Args: args} }
func TupleT(args ...*Ty) *Ty           { return &Ty{Kind: KTuple, Args: args} }
func SliceT(e *Ty) *Ty                 { return &Ty{Kind: KSlice, Args: []*Ty{e}} }

var (
	TInt    = Con("int")
	TString = Con("string")
	TBool   = Con("bool")
	TUnit   = Con("unit")
)

type InferError struct{ Msg string }

func (e InferError) Error() string { return e.Msg }

type Inferer struct {
	nvar    int
	Globals map[string]*Scheme
	Records map[string]*RecInfo
	Ctors   map[string]*CtorInfo
	// notes made during inference (domain rules)
	Notes []string
	// NoArmUnify: the arms of a match are typed independently and the match has the
	// type of its first arm (inference through match arms is not among the promises)
	NoArmUnify bool
	// ArithOperands: operand types of every arithmetic / ordering operator (checked after inference)
	ArithOperands []*Ty
}

// ArithUndetermined: some arithmetic / ordering operator works on a type that stays a type variable.
func (in *Inferer) ArithUndetermined() bool {
	for _, t := range in.ArithOperands {
		if t.find().Kind == KVar {
			return true
		}
	}
	return false
}

// ArithNonScalar: an arithmetic or ordering operand whose type is determined and is neither int nor string (the
// operators are defined on those only; a program that orders slices or pairs is ill-typed).
func (in *Inferer) ArithNonScalar() bool {
	for _, t := range in.ArithOperands {
		k := t.find()
		if k.Kind == KVar {
			continue
		}
		if !(k.Kind == KCon && len(k.Args) == 0 && (k.Name == "int" || k.Name == "string")) {
			return true
		}
	}
	return false
}

// evident: the type of e is known where it is written, without looking at later
// branches (fc types an if / match by its first branch at parse time).
func (in *Inferer) evident(e Expr, env *tenv) bool {
	switch v := e.(type) {
	case Paren:
		return in.evident(v.E, env)
	case If:
		return in.evident(v.Then.Final, env)
	case Match:
		if len(v.Arms) > 0 {
			return in.evident(v.Arms[0].Body.Final, env)
		}
	case SMatch:
		if len(v.Lits) > 0 {
			return in.evident(v.Lits[0].Body.Final, env)
		}
	case *Block:
		return in.evident(v.Final, env)
	}
	ok := true
	func() {
		defer func() {
			if r := recover(); r != nil {
				if _, isIE := r.(InferError); isIE {
					ok = false
					return
				}
				panic(r)
			}
		}()
		ok = in.expr(e, env).find().Kind != KVar
	}()
	return ok
}

type Scheme struct {
	Vars []*Ty
	T    *Ty
}

type RecInfo struct {
	Name   string
	Params []string
	Fields []FieldT
}

type FieldT struct {
	Name string
	T    *Ty // may mention params as Con(paramName)
}

type CtorInfo struct {
	Union   string
	Params  []string
	Payload *Ty // nil = none
}

func (in *Inferer) Fresh() *Ty {
	in.nvar++
	return &Ty{Kind: KVar, id: in.nvar}
}

func fail(format string, a ...any) { panic(InferError{fmt.Sprintf(format, a...)}) }

func occurs(v *Ty, t *Ty) bool {
	t = t.find()
	if t == v {
		return true
	}
	for _, a := range t.Args {
		if occurs(v, a) {
			return true
		}
	}
	return false
}

func (in *Inferer) Unify(a, b *Ty) {
	a, b = a.find(), b.find()
	if a == b {
		return
	}
	if a.Kind == KVar {
		if occurs(a, b) {
			fail("occurs check")
		}
		a.ref = b
		return
	}
	if b.Kind == KVar {
		in.Unify(b, a)
		return
	}
	if a.Kind != b.Kind || a.Name != b.Name || len(a.Args) != len(b.Args) {
		fail("cannot unify %s and %s", a, b)
	}
	for i := range a.Args {
		in.Unify(a.Args[i], b.Args[i])
	}
}

func (t *Ty) String() string {
	t = t.find()
	switch t.Kind {
	case KVar:
		return fmt.Sprintf("'%d", t.id)
	case KCon:
		if len(t.Args) == 0 {
			return t.Name
		}
		parts := []string{}
		for _, a := range t.Args {
			parts = append(parts, a.String())
		}
		return t.Name + "<" + strings.Join(parts, ",") + ">"
	case KFun:
		parts := []string{}
		for _, a := range t.Args {
			s := a.String()
			if a.find().Kind == KFun {
				s = "(" + s + ")"
			}
			parts = append(parts, s)
		}
		return strings.Join(parts, "->")
	case KTuple:
		parts := []string{}
		for _, a := range t.Args {
			parts = append(parts, a.String())
		}
		return "(" + strings.Join(parts, "*") + ")"
	case KSlice:
		return "[]" + t.Args[0].String()
	}
	return "?"
}

func (in *Inferer) instantiate(s *Scheme) *Ty {
	m := map[*Ty]*Ty{}
	for _, v := range s.Vars {
		m[v] = in.Fresh()
	}
	var cp func(t *Ty) *Ty
	cp = func(t *Ty) *Ty {
		t = t.find()
		if r, ok := m[t]; ok {
			return r
		}
		if len(t.Args) == 0 {
			return t
		}
		n := &Ty{Kind: t.Kind, Name: t.Name}
		for _, a := range t.Args {
			n.Args = append(n.Args, cp(a))
		}
		return n
	}
	return cp(s.T)
}

func FreeVars(t *Ty, acc *[]*Ty) {
	t = t.find()
	if t.Kind == KVar {
		for _, x := range *acc {
			if x == t {
				return
			}
		}
		*acc = append(*acc, t)
		return
	}
	for _, a := range t.Args {
		FreeVars(a, acc)
	}
}

// Generalize over all free variables (top-level functions only).
func Generalize(t *Ty) *Scheme {
	var vs []*Ty
	FreeVars(t, &vs)
	return &Scheme{Vars: vs, T: t}
}

type tenv struct {
	name   string
	t      *Ty
	parent *tenv
}

func (e *tenv) with(n string, t *Ty) *tenv { return &tenv{n, t, e} }
func (e *tenv) lookup(n string) (*Ty, bool) {
	for x := e; x != nil; x = x.parent {
		if x.name == n {
			return x.t, true
		}
	}
	return nil, false
}

// substParams replaces Con(paramName) by the instantiation.
func substParams(t *Ty, m map[string]*Ty) *Ty {
	t = t.find()
	if t.Kind == KCon && len(t.Args) == 0 {
		if r, ok := m[t.Name]; ok {
			return r
		}
		return t
	}
	if len(t.Args) == 0 {
		return t
	}
	n := &Ty{Kind: t.Kind, Name: t.Name}
	for _, a := range t.Args {
		n.Args = append(n.Args, substParams(a, m))
	}
	return n
}

func (in *Inferer) block(b *Block, env *tenv) *Ty {
	for _, s := range b.Stmts {
		switch v := s.(type) {
		case Let:
			env = env.with(v.Name, in.expr(v.Rhs, env))
		case LetDestr:
			t := in.expr(v.Rhs, env)
			var parts []*Ty
			for range v.Names {
				parts = append(parts, in.Fresh())
			}
			in.Unify(t, TupleT(parts...))
			for i, n := range v.Names {
				if n != "_" {
					env = env.with(n, parts[i])
				}
			}
		case LetFun:
			ft := in.funType(v.Params, v.Body, env)
			env = env.with(v.Name, ft)
		case ExprStmt:
			in.expr(v.E, env)
		}
	}
	return in.expr(b.Final, env)
}

func (in *Inferer) funType(ps []Param, body *Block, env *tenv) *Ty {
	var args []*Ty
	e2 := env
	for _, p := range ps {
		if p.Unit {
			args = append(args, TUnit)
			continue
		}
		var pt *Ty
		if p.Type != "" {
			pt = in.ParseType(p.Type, nil)
		} else {
			pt = in.Fresh()
		}
		args = append(args, pt)
		e2 = e2.with(p.Name, pt)
	}
	r := in.block(body, e2)
	return Fun(append(args, r)...)
}

func (in *Inferer) expr(e Expr, env *tenv) *Ty {
	switch v := e.(type) {
	case IntLit:
		return TInt
	case IntSrc:
		return TInt
	case StrLit, StrSrc, RawStr, Interp:
		return TString
	case BoolLit:
		return TBool
	case UnitLit:
		return TUnit
	case Paren:
		return in.expr(v.E, env)
	case *Block:
		return in.block(v, env)
	case Var:
		if strings.HasPrefix(v.Name, "_.") {
			fail("_.Field needs its record type from the context (not modelled)")
		}
		return in.varType(v.Name, env)
	case App:
		ft := in.varType(v.Fn, env)
		if len(v.TypeArgs) > 0 {
			// explicit type arguments instantiate the scheme's variables in order
			if s, ok := in.Globals[v.Fn]; ok {
				ft = in.instantiateWith(s, v.TypeArgs)
			}
		}
		if len(v.Args) == 0 {
			return ft
		}
		var ats []*Ty
		for _, a := range v.Args {
			ats = append(ats, in.expr(a, env))
		}
		f := ft.find()
		if f.Kind == KVar {
			// a function-typed parameter of unknown type, applied: it takes exactly these arguments
			r := in.Fresh()
			in.Unify(f, Fun(append(append([]*Ty{}, ats...), r)...))
			return r
		}
		if f.Kind != KFun {
			fail("applying a non-function %s", f)
		}
		ps := f.Args[:len(f.Args)-1]
		ret := f.Args[len(f.Args)-1]
		if len(ats) > len(ps) {
			fail("too many arguments")
		}
		for i, a := range ats {
			in.Unify(ps[i], a)
		}
		if len(ats) == len(ps) {
			return ret
		}
		return Fun(append(append([]*Ty{}, ps[len(ats):]...), ret)...)
	case BinOp:
		switch v.Op {
		case "|>":
			a := in.expr(v.L, env)
			g := in.expr(v.R, env)
			r := in.Fresh()
			in.Unify(g, Fun(a, r))
			return r
		case "&&", "||":
			l, r := in.expr(v.L, env), in.expr(v.R, env)
			in.Unify(l, TBool)
			in.Unify(r, TBool)
			return TBool
		}
		l, r := in.expr(v.L, env), in.expr(v.R, env)
		in.Unify(l, r)
		switch v.Op {
		case "+", "-", "*", "/":
			in.ArithOperands = append(in.ArithOperands, l)
			return r
		case "<", ">", "<=", ">=":
			in.ArithOperands = append(in.ArithOperands, l)
		}
		return TBool
	case Not:
		in.Unify(in.expr(v.E, env), TBool)
		return TBool
	case If:
		in.Unify(in.expr(v.Cond, env), TBool)
		t := in.block(v.Then, env)
		for _, ea := range v.Elifs {
			in.Unify(in.expr(ea.Cond, env), TBool)
			in.Unify(t, in.block(ea.Body, env))
		}
		if v.Else == nil {
			in.Unify(t, TUnit)
			return TUnit
		}
		in.Unify(t, in.block(v.Else, env))
		return t
	case Match:
		if in.NoArmUnify && !in.evident(v.Target, env) {
			fail("the type of a match target must be known where the match is written")
		}
		tt := in.expr(v.Target, env)
		if in.NoArmUnify && tt.find().Kind == KVar {
			fail("the type of a match target must be known where the match is written")
		}
		res := in.Fresh()
		for ai, a := range v.Arms {
			ci, ok := in.Ctors[a.Case]
			if !ok {
				fail("unknown case %s", a.Case)
			}
			m := map[string]*Ty{}
			var targs []*Ty
			for _, p := range ci.Params {
				m[p] = in.Fresh()
				targs = append(targs, m[p])
			}
			in.Unify(tt, Con(ci.Union, targs...))
			e2 := env
			if a.Bind != "" && a.Bind != "_" {
				if ci.Payload == nil {
					fail("case %s has no payload", a.Case)
				}
				e2 = env.with(a.Bind, substParams(ci.Payload, m))
			}
			bt := in.block(a.Body, e2)
			if !in.NoArmUnify || ai == 0 {
				in.Unify(res, bt)
			}
		}
		if v.Default != nil {
			bt := in.block(v.Default, env)
			if !in.NoArmUnify {
				in.Unify(res, bt)
			}
		}
		return res
	case SMatch:
		if in.NoArmUnify && !in.evident(v.Target, env) {
			fail("the type of a string match target must be known where the match is written")
		}
		if st := in.expr(v.Target, env); !in.NoArmUnify {
			in.Unify(st, TString)
		} else if st.find().Kind == KVar || !in.evident(v.Target, env) {
			fail("the type of a string match target must be known where the match is written")
		}
		res := in.Fresh()
		for i, a := range v.Lits {
			bt := in.block(a.Body, env)
			if !in.NoArmUnify || i == 0 {
				in.Unify(res, bt)
			}
		}
		e2 := env
		if v.VarName != "" {
			e2 = env.with(v.VarName, TString)
		}
		bt := in.block(v.Last, e2)
		if !in.NoArmUnify {
			in.Unify(res, bt)
		}
		return res
	case Lambda:
		return in.funType(v.Params, v.Body, env)
	case Tuple:
		var ts []*Ty
		for _, x := range v.Es {
			ts = append(ts, in.expr(x, env))
		}
		return TupleT(ts...)
	case SliceLit:
		et := in.Fresh()
		for _, x := range v.Es {
			in.Unify(et, in.expr(x, env))
		}
		return SliceT(et)
	case RecordLit:
		ri, ok := in.Records[v.Rec]
		if !ok {
			fail("unknown record %s", v.Rec)
		}
		m := map[string]*Ty{}
		var targs []*Ty
		for _, p := range ri.Params {
			m[p] = in.Fresh()
			targs = append(targs, m[p])
		}
		for _, f := range v.Fields {
			var ft *Ty
			for _, d := range ri.Fields {
				if d.Name == f.Name {
					ft = substParams(d.T, m)
				}
			}
			if ft == nil {
				fail("no field %s", f.Name)
			}
			in.Unify(ft, in.expr(f.E, env))
		}
		return Con(v.Rec, targs...)
	case Field:
		rt := in.expr(v.E, env).find()
		if rt.Kind != KCon {
			fail("field access on a value whose record type is not known here")
		}
		ri, ok := in.Records[rt.Name]
		if !ok {
			fail("field access on non-record %s", rt)
		}
		m := map[string]*Ty{}
		for i, p := range ri.Params {
			m[p] = rt.Args[i]
		}
		for _, d := range ri.Fields {
			if d.Name == v.Name {
				return substParams(d.T, m)
			}
		}
		fail("no field %s", v.Name)
	case Ctor:
		ci, ok := in.Ctors[v.Case]
		if !ok {
			fail("unknown constructor %s", v.Case)
		}
		m := map[string]*Ty{}
		var targs []*Ty
		for i, p := range ci.Params {
			if i < len(v.TypeArgs) {
				m[p] = in.ParseType(v.TypeArgs[i], nil)
			} else {
				m[p] = in.Fresh()
			}
			targs = append(targs, m[p])
		}
		if v.Arg != nil {
			in.Unify(substParams(ci.Payload, m), in.expr(v.Arg, env))
		}
		return Con(ci.Union, targs...)
	}
	panic(fmt.Sprintf("fo: infer: %T", e))
}

func (in *Inferer) instantiateWith(s *Scheme, targs []Type) *Ty {
	m := map[*Ty]*Ty{}
	for i, v := range s.Vars {
		if i < len(targs) {
			m[v] = in.ParseType(targs[i], nil)
		} else {
			m[v] = in.Fresh()
		}
	}
	var cp func(t *Ty) *Ty
	cp = func(t *Ty) *Ty {
		t = t.find()
		if r, ok := m[t]; ok {
			return r
		}
		if len(t.Args) == 0 {
			return t
		}
		n := &Ty{Kind: t.Kind, Name: t.Name}
		for _, a := range t.Args {
			n.Args = append(n.Args, cp(a))
		}
		return n
	}
	return cp(s.T)
}

func (in *Inferer) varType(name string, env *tenv) *Ty {
	if t, ok := env.lookup(name); ok {
		return t
	}
	if s, ok := in.Globals[name]; ok {
		return in.instantiate(s)
	}
	fail("unbound %s", name)
	return nil
}

// InferFunc infers the type of a top-level function definition; returns its
// function type (not generalised) or an error.
func (in *Inferer) InferFunc(fd FuncDef) (t *Ty, err error) {
	defer func() {
		if r := recover(); r != nil {
			if ie, ok := r.(InferError); ok {
				err = ie
				return
			}
			panic(r)
		}
	}()
	ft := in.funType(fd.Params, fd.Body, nil)
	if fd.Ret != "" {
		in.Unify(ft.Args[len(ft.Args)-1], in.ParseType(fd.Ret, nil))
	}
	return ft, nil
}

// ---- type expressions ----

// ParseType parses a Folang type expression; names in tparams become the given variables.
func (in *Inferer) ParseType(s string, tparams map[string]*Ty) *Ty {
	p := &typeParser{s: s, in: in, tp: tparams}
	t := p.arrows()
	p.ws()
	if p.i != len(p.s) {
		fail("type syntax: %q at %d", s, p.i)
	}
	return t
}

type typeParser struct {
	s  string
	i  int
	in *Inferer
	tp map[string]*Ty
}

func (p *typeParser) ws() {
	for p.i < len(p.s) && (p.s[p.i] == ' ' || p.s[p.i] == '\t') {
		p.i++
	}
}
func (p *typeParser) eat(tok string) bool {
	p.ws()
	if strings.HasPrefix(p.s[p.i:], tok) {
		p.i += len(tok)
		return true
	}
	return false
}

func (p *typeParser) arrows() *Ty {
	ts := []*Ty{p.elem()}
	for p.eat("->") {
		ts = append(ts, p.elem())
	}
	if len(ts) == 1 {
		return ts[0]
	}
	return Fun(ts...)
}

func (p *typeParser) elem() *Ty {
	ts := []*Ty{p.term()}
	for {
		p.ws()
		if p.i < len(p.s) && p.s[p.i] == '*' {
			p.i++
			ts = append(ts, p.term())
			continue
		}
		break
	}
	if len(ts) == 1 {
		return ts[0]
	}
	return TupleT(ts...)
}

func (p *typeParser) term() *Ty {
	if p.eat("[]") {
		return SliceT(p.term())
	}
	return p.atom()
}

func (p *typeParser) atom() *Ty {
	p.ws()
	if p.eat("(") {
		if p.eat(")") {
			return TUnit
		}
		t := p.arrows()
		if !p.eat(")") {
			fail("type syntax: missing )")
		}
		return t
	}
	j := p.i
	for j < len(p.s) && (p.s[j] == '.' || p.s[j] == '_' || p.s[j] >= '0' && p.s[j] <= '9' || p.s[j] >= 'a' && p.s[j] <= 'z' || p.s[j] >= 'A' && p.s[j] <= 'Z') {
		j++
	}
	if j == p.i {
		fail("type syntax: %q at %d", p.s, p.i)
	}
	name := p.s[p.i:j]
	p.i = j
	if name == "unit" {
		return TUnit
	}
	if v, ok := p.tp[name]; ok {
		return v
	}
	var args []*Ty
	if p.i < len(p.s) && p.s[p.i] == '<' {
		p.i++
		for {
			args = append(args, p.arrows())
			if p.eat(",") {
				continue
			}
			break
		}
		if !p.eat(">") {
			fail("type syntax: missing >")
		}
	}
	return Con(name, args...)
}

// LoadFoi reads package_info blocks (an independent reader of the .foi format).
func (in *Inferer) LoadFoi(text string) {
	pkg := ""
	extTypes := map[string]map[string]bool{}
	var qualify func(t *Ty, p string)
	qualify = func(t *Ty, p string) {
		if t == nil {
			return
		}
		if t.Kind == KCon && extTypes[p][t.Name] {
			t.Name = p + "." + t.Name
		}
		for _, a := range t.Args {
			qualify(a, p)
		}
	}
	for _, ln := range strings.Split(text, "\n") {
		if i := strings.Index(ln, "//"); i >= 0 {
			ln = ln[:i]
		}
		t := strings.TrimSpace(ln)
		if strings.HasPrefix(t, "package_info ") {
			pkg = strings.TrimSpace(strings.TrimSuffix(strings.TrimPrefix(t, "package_info "), "="))
			continue
		}
		if strings.HasPrefix(t, "type ") && pkg != "" && pkg != "_" {
			// an external type declared by this package: written unqualified inside the block, qualified in Go
			tn := strings.TrimSpace(strings.TrimPrefix(t, "type "))
			if li := strings.Index(tn, "<"); li >= 0 {
				tn = strings.TrimSpace(tn[:li])
			}
			if extTypes[pkg] == nil {
				extTypes[pkg] = map[string]bool{}
			}
			extTypes[pkg][tn] = true
			continue
		}
		if !strings.HasPrefix(t, "let ") || pkg == "" {
			continue
		}
		rest := strings.TrimPrefix(t, "let ")
		ci := strings.Index(rest, ":")
		if ci < 0 {
			continue
		}
		head, ty := strings.TrimSpace(rest[:ci]), strings.TrimSpace(rest[ci+1:])
		name := head
		tp := map[string]*Ty{}
		var vars []*Ty
		if li := strings.Index(head, "<"); li >= 0 {
			name = strings.TrimSpace(head[:li])
			for _, pn := range strings.Split(strings.TrimSuffix(head[li+1:], ">"), ",") {
				v := in.Fresh()
				tp[strings.TrimSpace(pn)] = v
				vars = append(vars, v)
			}
		}
		full := name
		if pkg != "_" {
			full = pkg + "." + name
		}
		func() {
			defer func() { recover() }()
			pt := in.ParseType(ty, tp)
			qualify(pt, pkg)
			in.Globals[full] = &Scheme{Vars: vars, T: pt}
		}()
	}
}

// NewInferer knows the prelude's types and functions.
func NewInferer() *Inferer {
	in := &Inferer{Globals: map[string]*Scheme{}, Records: map[string]*RecInfo{}, Ctors: map[string]*CtorInfo{}}
	in.Records["R"] = &RecInfo{Name: "R", Fields: []FieldT{{"A", TInt}, {"B", TString}}}
	in.Records["Rz"] = &RecInfo{Name: "Rz", Fields: []FieldT{{"A", TInt}, {"B", TString}}}
	in.Ctors["I"] = &CtorInfo{Union: "U", Payload: TInt}
	in.Ctors["S"] = &CtorInfo{Union: "U", Payload: TString}
	in.Ctors["N"] = &CtorInfo{Union: "U"}
	in.Ctors["Some"] = &CtorInfo{Union: "Opt", Params: []string{"T"}, Payload: Con("T")}
	in.Ctors["None"] = &CtorInfo{Union: "Opt", Params: []string{"T"}}
	in.Records["Pr2"] = &RecInfo{Name: "Pr2", Params: []string{"A", "B"}, Fields: []FieldT{{"Rr", Con("B")}, {"Ll", Con("A")}}}
	in.Ctors["Er2"] = &CtorInfo{Union: "Rs2", Params: []string{"T", "E"}, Payload: Con("E")}
	in.Ctors["Ok2"] = &CtorInfo{Union: "Rs2", Params: []string{"T", "E"}, Payload: Con("T")}
	in.Ctors["TagA"] = &CtorInfo{Union: "Tag", Params: []string{"T"}}
	in.Ctors["TagB"] = &CtorInfo{Union: "Tag", Params: []string{"T"}}
	mono := func(name, ty string) { in.Globals[name] = &Scheme{T: in.ParseType(ty, nil)} }
	mono("trI", "int->int")
	mono("trS", "string->string")
	mono("trB", "bool->bool")
	mono("say", "string->unit")
	mono("add", "int->int->int")
	mono("add3", "int->int->int->int")
	mono("inc", "int->int")
	mono("gv", "int")
	mono("gz", "int")
	a, b := in.Fresh(), in.Fresh()
	in.Globals["konst"] = &Scheme{Vars: []*Ty{a, b}, T: Fun(a, b, a)}
	c, d := in.Fresh(), in.Fresh()
	in.Globals["pair"] = &Scheme{Vars: []*Ty{c, d}, T: Fun(c, d, TupleT(c, d))}
	return in
}

// ---- principal type -> Go signature ----

// GoSig renders the function type as fc is documented to emit it: type
// parameters T0, T1, ... numbered by first occurrence in the parameter list then
// the result; returns the canonical text "[T0 any, T1 any](p0 T, p1 U) R".
func GoSig(ft *Ty, unitParam bool) string {
	var vs []*Ty
	FreeVars(ft, &vs)
	names := map[*Ty]string{}
	var tps []string
	for i, v := range vs {
		names[v] = fmt.Sprintf("T%d", i)
		tps = append(tps, fmt.Sprintf("T%d any", i))
	}
	args := ft.Args[:len(ft.Args)-1]
	ret := ft.Args[len(ft.Args)-1]
	var ps []string
	if !unitParam {
		for _, a := range args {
			ps = append(ps, GoType(a, names))
		}
	}
	s := ""
	if len(tps) > 0 {
		s = "[" + strings.Join(tps, ", ") + "]"
	}
	s += "(" + strings.Join(ps, ", ") + ")"
	if r := GoType(ret, names); r != "" {
		s += " " + r
	}
	return s
}

// GoType is the reference type printer (the documented mapping).
func GoType(t *Ty, names map[*Ty]string) string {
	t = t.find()
	switch t.Kind {
	case KVar:
		if n, ok := names[t]; ok {
			return n
		}
		return fmt.Sprintf("?%d", t.id)
	case KCon:
		switch t.Name {
		case "unit":
			return ""
		case "float":
			return "float64"
		}
		if len(t.Args) == 0 {
			return t.Name
		}
		var parts []string
		for _, a := range t.Args {
			parts = append(parts, GoType(a, names))
		}
		return t.Name + "[" + strings.Join(parts, ", ") + "]"
	case KFun:
		var parts []string
		for _, a := range t.Args[:len(t.Args)-1] {
			if g := GoType(a, names); g != "" {
				parts = append(parts, g)
			}
		}
		s := "func(" + strings.Join(parts, ", ") + ")"
		if r := GoType(t.Args[len(t.Args)-1], names); r != "" {
			s += " " + r
		}
		return s
	case KTuple:
		var parts []string
		for _, a := range t.Args {
			parts = append(parts, GoType(a, names))
		}
		return fmt.Sprintf("frt.Tuple%d[%s]", len(t.Args), strings.Join(parts, ", "))
	case KSlice:
		return "[]" + GoType(t.Args[0], names)
	}
	return "?"
}

// SortedKeys helper
func SortedKeys(m map[string]int) []string {
	var ks []string
	for k := range m {
		ks = append(ks, k)
	}
	sort.Strings(ks)
	return ks
}
