package fo

import (
	"fmt"
	"strings"
)

// ScaleCorpus is the scale family: for every size n of a list, one program per construct kind whose SIZE
// (not its nesting) is n - n statements, n elements, n stages, n arms, n parameters ... .  The enumerated
// programs have at most 2-4 constructs; numbering of temporaries beyond 9, allocators with a limit,
// recursion per element and fixed-size tables only show on programs this long.  Expected output comes
// from the same evaluator.
func ScaleCorpus(sizes []int) []*Case {
	unit := []Param{{Unit: true}}
	done := call("frt.Println", StrLit{"=u"})
	mk := func(name string, aux []Def, body *Block) *Case {
		defs := append(append([]Def{}, aux...), FuncDef{Name: "run", Params: unit, Body: body})
		return &Case{Defs: defs, Run: "run", Type: "unit", Fuel: -1, Used: map[string]int{"scale:" + strings.SplitN(name, "-n", 2)[0]: 1}, Name: name}
	}
	pr := func(e Expr) Stmt { return ExprStmt{call("frt.Printf1", StrLit{"=%d\n"}, e)} }
	var out []*Case
	for _, n := range sizes {
		nm := func(k string) string { return fmt.Sprintf("%s-n%d", k, n) }
		// n lets, each using the previous one
		{
			st := []Stmt{Let{"a1", trI(1)}}
			for i := 2; i <= n; i++ {
				st = append(st, Let{fmt.Sprintf("a%d", i), BinOp{"+", Var{fmt.Sprintf("a%d", i-1)}, IntLit{int64(i)}}})
			}
			st = append(st, pr(Var{fmt.Sprintf("a%d", n)}))
			out = append(out, mk(nm("lets"), nil, &Block{Stmts: st, Final: done}))
		}
		// a slice literal of n traced elements, folded
		{
			var es []Expr
			for i := 1; i <= n; i++ {
				if i%5 == 1 {
					es = append(es, trI(int64(i)))
				} else {
					es = append(es, IntLit{int64(i)})
				}
			}
			out = append(out, mk(nm("slice-literal"), nil, &Block{Stmts: []Stmt{
				Let{"s", SliceLit{es}},
				pr(call("slice.Length", Var{"s"})),
				pr(call("slice.Last", Var{"s"})),
				ExprStmt{call("frt.Printf1", StrLit{"=%v\n"}, call("slice.Map", Var{"inc"}, Var{"s"}))},
			}, Final: done}))
		}
		// a pipe of n stages, alternately a function name and a partial application (capped: every stage draws
		// type variables and fc has a stated capacity of 100 per function - beyond it fc stops with the
		// diagnostic "Too many type var alloc.", which is a limit, not a wrong translation)
		if n <= 40 {
			var e Expr = trI(0)
			for i := 1; i <= n; i++ {
				if i%2 == 1 {
					e = BinOp{"|>", e, Var{"inc"}}
				} else {
					e = BinOp{"|>", e, call("add", IntLit{int64(i)})}
				}
			}
			out = append(out, mk(nm("pipe-stages"), nil, &Block{Stmts: []Stmt{pr(e)}, Final: done}))
		}
		// an arithmetic chain of n operands with mixed operators
		{
			var e Expr = trI(1)
			ops := []string{"+", "*", "-"}
			for i := 2; i <= n; i++ {
				var rhs Expr = IntLit{int64(i%7 + 1)}
				if i%6 == 0 {
					rhs = trI(int64(i%7 + 1))
				}
				e = BinOp{ops[i%3], e, rhs}
			}
			out = append(out, mk(nm("arith-chain"), nil, &Block{Stmts: []Stmt{pr(e)}, Final: done}))
		}
		// an elif chain with n arms, the last but one taken
		{
			var elifs []ElifArm
			for i := 2; i <= n; i++ {
				elifs = append(elifs, ElifArm{trB(i == n-1 || i == n), B(IntLit{int64(i)})})
			}
			out = append(out, mk(nm("elif-arms"), nil, &Block{Stmts: []Stmt{
				Let{"r", If{Cond: trB(false), Then: B(IntLit{1}), Elifs: elifs, Else: B(IntLit{0})}}, pr(Var{"r"}),
			}, Final: done}))
		}
		// if/else nested n deep in the else branch (capped: indentation grows with the depth)
		if n <= 40 {
			var e Expr = IntLit{int64(n)}
			for i := n; i >= 1; i-- {
				e = If{Cond: trB(i%9 == 0 && i != n), Then: B(IntLit{int64(1000 + i)}), Else: B(e)}
			}
			out = append(out, mk(nm("nested-else"), nil, &Block{Stmts: []Stmt{Let{"r", e}, pr(Var{"r"})}, Final: done}))
		}
		// n statements in sequence
		{
			var st []Stmt
			for i := 1; i <= n; i++ {
				st = append(st, ExprStmt{call("say", StrLit{fmt.Sprintf("s%d", i)})})
			}
			out = append(out, mk(nm("statements"), nil, &Block{Stmts: st, Final: done}))
		}
		// a union with n cases (every third with a payload) and a match with n arms, applied to three values
		{
			var sb strings.Builder
			fmt.Fprintf(&sb, "type Big%d =\n", n)
			var arms []Arm
			for i := 1; i <= n; i++ {
				cn := fmt.Sprintf("K%dx%d", n, i)
				if i%3 == 0 {
					fmt.Fprintf(&sb, "  | %s of int\n", cn)
					arms = append(arms, Arm{cn, "v", B(BinOp{"+", Var{"v"}, IntLit{int64(1000 * i)}})})
				} else {
					fmt.Fprintf(&sb, "  | %s\n", cn)
					arms = append(arms, Arm{cn, "", B(IntLit{int64(i)})})
				}
			}
			pick := FuncDef{Name: fmt.Sprintf("pickBig%d", n), Params: []Param{{Name: "u", Type: fmt.Sprintf("Big%d", n)}}, Body: B(Match{Target: Var{"u"}, Arms: arms})}
			ctor := func(i int) Expr {
				cn := fmt.Sprintf("K%dx%d", n, i)
				if i%3 == 0 {
					return Ctor{Case: cn, Arg: trI(int64(i))}
				}
				return Ctor{Case: cn}
			}
			last3 := n - n%3
			if last3 == 0 {
				last3 = n
			}
			out = append(out, mk(nm("match-arms"), []Def{RawDef{sb.String()}, pick}, &Block{Stmts: []Stmt{
				pr(call(pick.Name, ctor(1))), pr(call(pick.Name, ctor(n))), pr(call(pick.Name, ctor(last3))),
			}, Final: done}))
		}
		// a function of n parameters: full call, and a partial application completed later
		if n <= 40 {
			var ps []Param
			var sum Expr
			var args, rest []Expr
			for i := 1; i <= n; i++ {
				p := fmt.Sprintf("p%d", i)
				ps = append(ps, Param{Name: p, Type: "int"})
				if sum == nil {
					sum = Var{p}
				} else {
					sum = BinOp{"-", BinOp{"*", sum, IntLit{2}}, Var{p}}
				}
				args = append(args, IntLit{int64(i)})
				if i > 1 {
					rest = append(rest, IntLit{int64(i)})
				}
			}
			fn := FuncDef{Name: fmt.Sprintf("wide%d", n), Params: ps, Body: B(sum)}
			st := []Stmt{pr(App{Fn: fn.Name, Args: args})}
			if n >= 2 {
				st = append(st, Let{"g", call(fn.Name, IntLit{1})}, pr(App{Fn: "g", Args: rest}))
			}
			out = append(out, mk(nm("parameters"), []Def{fn}, &Block{Stmts: st, Final: done}))
		}
		// a record with n fields, literal in reverse field order, two fields read
		if n <= 70 {
			var sb strings.Builder
			fmt.Fprintf(&sb, "type Wide%d = {", n)
			var fi []FieldInit
			for i := 1; i <= n; i++ {
				if i > 1 {
					sb.WriteString("; ")
				}
				fmt.Fprintf(&sb, "W%dx%d: int", n, i)
			}
			sb.WriteString("}\n")
			for i := n; i >= 1; i-- {
				var e Expr = IntLit{int64(i)}
				if i == 1 || i == n {
					e = trI(int64(i))
				}
				fi = append(fi, FieldInit{fmt.Sprintf("W%dx%d", n, i), e})
			}
			out = append(out, mk(nm("record-fields"), []Def{RawDef{sb.String()}}, &Block{Stmts: []Stmt{
				Let{"w", RecordLit{Rec: fmt.Sprintf("Wide%d", n), Fields: fi}},
				pr(Field{Var{"w"}, fmt.Sprintf("W%dx%d", n, 1)}), pr(Field{Var{"w"}, fmt.Sprintf("W%dx%d", n, n)}),
			}, Final: done}))
		}
		// an interpolated string with n holes
		if n <= 40 {
			var st []Stmt
			var parts []InterpPart
			for i := 1; i <= n; i++ {
				v := fmt.Sprintf("h%d", i)
				st = append(st, Let{v, IntLit{int64(i)}})
				parts = append(parts, InterpPart{Text: "|"}, InterpPart{Hole: v})
			}
			st = append(st, Let{"txt", Interp{Parts: parts}}, ExprStmt{call("say", Var{"txt"})})
			out = append(out, mk(nm("interp-holes"), nil, &Block{Stmts: st, Final: done}))
		}
	}
	return out
}
