package fo

import "fmt"

// Prelude shared by all generated programs of a batch (full profile).
const Prelude = `package main
import frt
import slice
import strings

type R = {A: int; B: string}

type U =
  | I of int
  | S of string
  | N

type Opt<T> =
  | Some of T
  | None

let trI (n:int) =
  frt.Printf1 "<%d>" n
  n

let trS (s:string) =
  frt.Printf1 "<%s>" s
  s

let trB (b:bool) =
  frt.Printf1 "<%v>" b
  b

let say (s:string) =
  frt.Printf1 "[%s]" s

let add (a:int) (b:int) =
  a + b

let add3 (a:int) (b:int) (c:int) =
  a + b * 10 + c * 100

let inc (a:int) =
  a + 1

let konst a b =
  a

let pair a b =
  (a, b)

let gv = 40 + 2

let zzUseImports () =
  [1] |> slice.Length |> frt.Sprintf1 "%d" |> strings.Length

`

// PreludeProgram is the prelude as definitions the evaluator understands
// (the traced leaves and say are builtins of the evaluator).
func PreludeProgram() *Program {
	return &Program{Defs: []Def{
		FuncDef{Name: "add", Params: []Param{{Name: "a"}, {Name: "b"}}, Body: B(BinOp{"+", Var{"a"}, Var{"b"}})},
		FuncDef{Name: "add3", Params: []Param{{Name: "a"}, {Name: "b"}, {Name: "c"}}, Body: B(BinOp{"+", BinOp{"+", Var{"a"}, BinOp{"*", Var{"b"}, IntLit{10}}}, BinOp{"*", Var{"c"}, IntLit{100}}})},
		FuncDef{Name: "inc", Params: []Param{{Name: "a"}}, Body: B(BinOp{"+", Var{"a"}, IntLit{1}})},
		FuncDef{Name: "konst", Params: []Param{{Name: "a"}, {Name: "b"}}, Body: B(Var{"a"})},
		FuncDef{Name: "pair", Params: []Param{{Name: "a"}, {Name: "b"}}, Body: B(Tuple{[]Expr{Var{"a"}, Var{"b"}}})},
		VarDef{Name: "gv", Rhs: BinOp{"+", IntLit{40}, IntLit{2}}},
	}}
}

func init() {
	builtins["say"] = builtin{1, func(ev *Evaluator, a []Value) Value { fmt.Fprintf(&ev.Out, "[%s]", a[0].(string)); return UnitV{} }}
}

// Case is one generated program.
type Case struct {
	Defs []Def  // auxiliary definitions + the run function, in order
	Run  string // name of the unit function to call
	Type Type
	Fuel int
	Root int
	Used map[string]int
	Term Expr
	Name string // corpus entries only
}

// BuildCase enumerates (through g.C) one program whose term has result type t
// and exactly `fuel` constructs, wrapped as a runnable group with suffix g.Suffix.
func BuildCase(g *Gen, t Type, fuel int) *Case {
	cs := &Case{Type: t, Fuel: fuel, Run: "run" + g.Suffix}
	pf := func(e Expr) Expr { return call("frt.Printf1", StrLit{"=" + fmtOf[t] + "\n"}, e) }
	var run FuncDef
	if t == "unit" {
		cs.Root = g.C.Choose(2)
		g.InBlock = true
		b := g.blk("unit", nil, fuel)
		g.InBlock = false
		cs.Term = b
		if cs.Root == 0 {
			// non-final statement(s) of the run body
			stmts := append(append([]Stmt{}, b.Stmts...), ExprStmt{b.Final})
			run = FuncDef{Name: cs.Run, Params: []Param{{Unit: true}}, Body: &Block{Stmts: stmts, Final: call("frt.Println", StrLit{"=u"})}}
		} else {
			stmts := append([]Stmt{ExprStmt{call("frt.Println", StrLit{"=u"})}}, b.Stmts...)
			run = FuncDef{Name: cs.Run, Params: []Param{{Unit: true}}, Body: &Block{Stmts: stmts, Final: b.Final}}
		}
	} else {
		cs.Root = g.C.Choose(3)
		switch cs.Root {
		case 0: // let-bound, then printed
			e := g.Gen(t, nil, fuel, PosExpr)
			cs.Term = e
			run = FuncDef{Name: cs.Run, Params: []Param{{Unit: true}}, Body: &Block{Stmts: []Stmt{Let{"r", e}}, Final: pf(Var{"r"})}}
		case 1: // argument position
			e := g.Gen(t, nil, fuel, PosExpr)
			cs.Term = e
			run = FuncDef{Name: cs.Run, Params: []Param{{Unit: true}}, Body: B(pf(e))}
		case 2: // body of its own function, piped into the printer
			g.InBlock = true
			b := g.blk(t, nil, fuel)
			g.InBlock = false
			cs.Term = b
			bn := "body" + g.Suffix
			g.Aux = append(g.Aux, FuncDef{Name: bn, Params: []Param{{Unit: true}}, Body: b})
			run = FuncDef{Name: cs.Run, Params: []Param{{Unit: true}}, Body: B(BinOp{"|>", call(bn, UnitLit{}), call("frt.Printf1", StrLit{"=" + fmtOf[t] + "\n"})})}
		}
	}
	cs.Defs = append(append([]Def{}, g.Aux...), run)
	cs.Used = g.Used
	return cs
}

// Expected evaluates the case with the reference semantics.
func (cs *Case) Expected(partialReeval bool) (out string, ood string) {
	ev := NewEvaluator()
	ev.PartialReeval = partialReeval
	ev.Load(PreludeProgram())
	ev.Load(&Program{Defs: cs.Defs})
	return ev.Run(cs.Run)
}

// Source prints the definitions with the given layout.
func (cs *Case) Source(l Layout) string { return cs.SourceOpt(l, false) }

// SourceOpt: parenSlice parenthesises slice literals in argument position (tinyfo profile).
func (cs *Case) SourceOpt(l Layout, parenSlice bool) string {
	p := NewPrinter(l)
	p.ParenSliceArgs = parenSlice
	s := ""
	for _, d := range cs.Defs {
		for _, ln := range p.Def(d) {
			s += ln + "\n"
		}
		s += "\n"
	}
	return s
}
