package fo

import "fmt"

// Prelude shared by all generated programs of a batch (full profile).
const Prelude = `package main
import frt
import slice
import strings
import dict
import buf

type R = {A: int; B: string}

// never used: its fields contain R's and its name sorts before R - an unqualified {A=..; B=..} is still an R
type Pq = {A: int; B: string; C: bool}

// the same fields as R, its name sorts after R: an unqualified {A=..; B=..} is an R; {Rz.A=..; B=..} names this one
type Rz = {A: int; B: string}

type G<T> = {V: T; Vs: []T}

type Tq = {Fb: Tr; Fn: int}
and Tr = {Fa: int}

type U =
  | I of int
  | S of string
  | N

type Opt<T> =
  | Some of T
  | None

type Tag<T> =
  | TagA
  | TagB

// fields / cases mention the type parameters in ANOTHER order than the parameter list
type Pr2<A, B> = {Rr: B; Ll: A}

type Rs2<T, E> =
  | Er2 of E
  | Ok2 of T

type V =
  | P of int*string
  | Q of R
  | L of []int

let trI (n:int) =
  frt.Printf1 "<%d>" n
  n

let trS (s:string) =
  frt.Printf1 "<%s>" s
  s

let trB (b:bool) =
  frt.Printf1 "<%v>" b
  b

let say (s:string) =
  frt.Printf1 "[%s]" s

let add (a:int) (b:int) =
  a + b

let add3 (a:int) (b:int) (c:int) =
  a + b * 10 + c * 100

let inc (a:int) =
  a + 1

let konst a b =
  a

let pair a b =
  (a, b)

let both a b =
  (Some a, Some b)

let bothG a b =
  ({V=a; Vs=[a]}, {V=b; Vs=[b; b]})

let getGI (g:G<int>) =
  g.V

let getGS (g:G<string>) =
  slice.Length g.Vs |> frt.Sprintf1 "%d" |> strings.AppendHead g.V

let nestO a b =
  Some (Some a, Some b)

let gv = 40 + 2

let gz = 0

let zzUseImports () =
  let d = dict.New<string, int> ()
  dict.Add d "k" 1
  let b = buf.New ()
  buf.Write b "x"
  [1] |> slice.Length |> frt.Sprintf1 "%d" |> strings.Length

`

// PreludeProgram is the prelude as definitions the evaluator understands
// (the traced leaves and say are builtins of the evaluator).
func PreludeProgram() *Program {
	return &Program{Defs: []Def{
		FuncDef{Name: "add", Params: []Param{{Name: "a"}, {Name: "b"}}, Body: B(BinOp{"+", Var{"a"}, Var{"b"}})},
		FuncDef{Name: "add3", Params: []Param{{Name: "a"}, {Name: "b"}, {Name: "c"}}, Body: B(BinOp{"+", BinOp{"+", Var{"a"}, BinOp{"*", Var{"b"}, IntLit{10}}}, BinOp{"*", Var{"c"}, IntLit{100}}})},
		FuncDef{Name: "inc", Params: []Param{{Name: "a"}}, Body: B(BinOp{"+", Var{"a"}, IntLit{1}})},
		FuncDef{Name: "konst", Params: []Param{{Name: "a"}, {Name: "b"}}, Body: B(Var{"a"})},
		FuncDef{Name: "pair", Params: []Param{{Name: "a"}, {Name: "b"}}, Body: B(Tuple{[]Expr{Var{"a"}, Var{"b"}}})},
		FuncDef{Name: "both", Params: []Param{{Name: "a"}, {Name: "b"}}, Body: B(Tuple{[]Expr{Ctor{Case: "Some", Arg: Var{"a"}}, Ctor{Case: "Some", Arg: Var{"b"}}}})},
		FuncDef{Name: "bothG", Params: []Param{{Name: "a"}, {Name: "b"}}, Body: B(Tuple{[]Expr{
			RecordLit{Rec: "G", Fields: []FieldInit{{"V", Var{"a"}}, {"Vs", SliceLit{[]Expr{Var{"a"}}}}}},
			RecordLit{Rec: "G", Fields: []FieldInit{{"V", Var{"b"}}, {"Vs", SliceLit{[]Expr{Var{"b"}, Var{"b"}}}}}}}})},
		FuncDef{Name: "getGI", Params: []Param{{Name: "g"}}, Body: B(Field{Var{"g"}, "V"})},
		FuncDef{Name: "getGS", Params: []Param{{Name: "g"}}, Body: B(BinOp{"|>", BinOp{"|>", call("slice.Length", Field{Var{"g"}, "Vs"}), call("frt.Sprintf1", StrLit{"%d"})}, call("strings.AppendHead", Field{Var{"g"}, "V"})})},
		FuncDef{Name: "nestO", Params: []Param{{Name: "a"}, {Name: "b"}}, Body: B(Ctor{Case: "Some", Arg: Tuple{[]Expr{Ctor{Case: "Some", Arg: Var{"a"}}, Ctor{Case: "Some", Arg: Var{"b"}}}}})},
		VarDef{Name: "gv", Rhs: BinOp{"+", IntLit{40}, IntLit{2}}},
		VarDef{Name: "gz", Rhs: IntLit{0}},
	}}
}

func init() {
	builtins["say"] = builtin{1, func(ev *Evaluator, a []Value) Value { fmt.Fprintf(&ev.Out, "[%s]", a[0].(string)); return UnitV{} }}
}

// Case is one generated program.
type Case struct {
	Defs []Def  // auxiliary definitions + the run function, in order
	Run  string // name of the unit function to call
	Type Type
	Fuel int
	Root int
	Used map[string]int
	Term Expr
	Name string // corpus entries only
}

// BuildCase enumerates (through g.C) one program whose term has result type t
// and exactly `fuel` constructs, wrapped as a runnable group with suffix g.Suffix.
func BuildCase(g *Gen, t Type, fuel int) *Case {
	cs := &Case{Type: t, Fuel: fuel, Run: "run" + g.Suffix}
	pf := func(e Expr) Expr { return call("frt.Printf1", StrLit{"=" + fmtOf[t] + "\n"}, e) }
	var run FuncDef
	if t == "unit" {
		cs.Root = g.C.Choose(2)
		g.InBlock = true
		b := g.blk("unit", nil, fuel)
		g.InBlock = false
		cs.Term = b
		if cs.Root == 0 {
			// non-final statement(s) of the run body
			stmts := append(append([]Stmt{}, b.Stmts...), ExprStmt{b.Final})
			run = FuncDef{Name: cs.Run, Params: []Param{{Unit: true}}, Body: &Block{Stmts: stmts, Final: call("frt.Println", StrLit{"=u"})}}
		} else {
			stmts := append([]Stmt{ExprStmt{call("frt.Println", StrLit{"=u"})}}, b.Stmts...)
			run = FuncDef{Name: cs.Run, Params: []Param{{Unit: true}}, Body: &Block{Stmts: stmts, Final: b.Final}}
		}
	} else {
		cs.Root = g.C.Choose(3)
		switch cs.Root {
		case 0: // let-bound, then printed
			e := g.Gen(t, nil, fuel, PosExpr)
			cs.Term = e
			run = FuncDef{Name: cs.Run, Params: []Param{{Unit: true}}, Body: &Block{Stmts: []Stmt{Let{"r", e}}, Final: pf(Var{"r"})}}
		case 1: // argument position
			e := g.Gen(t, nil, fuel, PosExpr)
			cs.Term = e
			run = FuncDef{Name: cs.Run, Params: []Param{{Unit: true}}, Body: B(pf(e))}
		case 2: // body of its own function, piped into the printer
			g.InBlock = true
			b := g.blk(t, nil, fuel)
			g.InBlock = false
			cs.Term = b
			bn := "body" + g.Suffix
			g.Aux = append(g.Aux, FuncDef{Name: bn, Params: []Param{{Unit: true}}, Body: b})
			run = FuncDef{Name: cs.Run, Params: []Param{{Unit: true}}, Body: B(BinOp{"|>", call(bn, UnitLit{}), call("frt.Printf1", StrLit{"=" + fmtOf[t] + "\n"})})}
		}
	}
	cs.Defs = append(append([]Def{}, g.Aux...), run)
	cs.Used = g.Used
	return cs
}

// Expected evaluates the case with the reference semantics.
func (cs *Case) Expected(partialReeval bool) (out string, ood string) {
	return cs.ExpectedUnder(partialReeval, false)
}

// ExpectedUnder evaluates the case under the defect models of the recorded findings: partialReeval (the
// supplied arguments of a partial application are re-evaluated at every call) and smatchVarLeak (the variable
// of a string match's last rule is in scope in the literal arms too).
func (cs *Case) ExpectedUnder(partialReeval, smatchVarLeak bool) (out string, ood string) {
	ev := NewEvaluator()
	ev.SMatchVarLeak = smatchVarLeak
	ev.PartialReeval = partialReeval
	ev.Load(PreludeProgram())
	ev.Load(&Program{Defs: cs.Defs})
	return ev.Run(cs.Run)
}

// Source prints the definitions with the given layout.
func (cs *Case) Source(l Layout) string { return cs.SourceOpt(l, false) }

// SourceOpt: parenSlice parenthesises slice literals in argument position (tinyfo profile).
func (cs *Case) SourceOpt(l Layout, parenSlice bool) string {
	p := NewPrinter(l)
	p.ParenSliceArgs = parenSlice
	s := ""
	for _, d := range cs.Defs {
		for _, ln := range p.Def(d) {
			s += ln + "\n"
		}
		s += "\n"
	}
	return s
}

// ---- C02: function definitions with parameters ----

var FuncParamTypes = []Type{"int", "string", "bool", "U", "R", "int*string", "[]int", "int->int", "Opt<int>"}
var FuncRetTypes = []Type{"int", "string", "bool", "unit", "[]int", "int*string", "R", "U", "Opt<int>"}

// FuncCase is one generated top-level function (fully annotated form).
type FuncCase struct {
	Def  FuncDef
	Used map[string]int
	Ret  Type // the result type the body was generated at (not written as an annotation in Def)
}

// BuildFuncCase enumerates a function with up to maxParams annotated parameters
// whose body has exactly `fuel` constructs and uses every parameter.
func BuildFuncCase(g *Gen, fuel, maxParams int) *FuncCase {
	n := g.C.Choose(maxParams + 1)
	var env Env2
	fd := FuncDef{Name: "f"}
	names := []string{"a", "b", "c"}
	for i := 0; i < n; i++ {
		t := FuncParamTypes[g.C.Choose(len(FuncParamTypes))]
		fd.Params = append(fd.Params, Param{Name: names[i], Type: t})
		env = env.with(names[i], t)
	}
	if n == 0 {
		fd.Params = []Param{{Unit: true}}
	}
	rt := FuncRetTypes[g.C.Choose(len(FuncRetTypes))]
	g.InBlock = true
	fd.Body = g.blk(rt, env, fuel)
	g.InBlock = false
	for i := 0; i < n; i++ {
		if !Uses(fd.Body, names[i]) {
			g.C.Skip("unused parameter")
		}
	}
	return &FuncCase{Def: fd, Used: g.Used, Ret: rt}
}

// ParamRoles reports, per parameter name, the syntactic roles that need the
// parameter's type at parse time or fall under the documented inference limits.
func ParamRoles(b *Block) map[string]map[string]bool {
	roles := map[string]map[string]bool{}
	mark := func(e Expr, role string) {
		if v, ok := e.(Var); ok {
			if roles[v.Name] == nil {
				roles[v.Name] = map[string]bool{}
			}
			roles[v.Name][role] = true
		}
	}
	var walk func(x interface{})
	walk = func(x interface{}) {
		switch v := x.(type) {
		case nil:
		case App:
			// the applied function itself
			if roles[v.Fn] == nil {
				roles[v.Fn] = map[string]bool{}
			}
			roles[v.Fn]["applied"] = true
			for _, a := range v.Args {
				walk(a)
			}
		case BinOp:
			switch v.Op {
			case "&&", "||":
				mark(v.L, "logic-operand")
				mark(v.R, "logic-operand")
			case "+", "-", "*", "/", "<", ">", "<=", ">=":
				_, lv := v.L.(Var)
				_, rv := v.R.(Var)
				if lv && rv {
					mark(v.L, "arith-both-variables")
					mark(v.R, "arith-both-variables")
				}
			}
			walk(v.L)
			walk(v.R)
		case Not:
			mark(v.E, "logic-operand")
			walk(v.E)
		case Paren:
			walk(v.E)
		case If:
			walk(v.Cond)
			walk(v.Then)
			for _, ea := range v.Elifs {
				walk(ea.Cond)
				walk(ea.Body)
			}
			if v.Else != nil {
				walk(v.Else)
			}
		case Match:
			mark(v.Target, "match-target")
			walk(v.Target)
			for _, a := range v.Arms {
				walk(a.Body)
			}
			if v.Default != nil {
				walk(v.Default)
			}
		case SMatch:
			mark(v.Target, "string-match-target")
			walk(v.Target)
			for _, a := range v.Lits {
				walk(a.Body)
			}
			walk(v.Last)
		case *Block:
			if v == nil {
				return
			}
			for _, s := range v.Stmts {
				switch st := s.(type) {
				case Let:
					walk(st.Rhs)
				case LetDestr:
					walk(st.Rhs)
				case LetFun:
					walk(st.Body)
				case ExprStmt:
					walk(st.E)
				}
			}
			walk(v.Final)
		case Lambda:
			walk(v.Body)
		case Tuple:
			for _, a := range v.Es {
				walk(a)
			}
		case SliceLit:
			for _, a := range v.Es {
				walk(a)
			}
		case RecordLit:
			for _, f := range v.Fields {
				walk(f.E)
			}
		case Field:
			mark(v.E, "field-target")
			walk(v.E)
		case Ctor:
			walk(v.Arg)
		case Interp:
			for _, p := range v.Parts {
				if p.Hole != "" {
					if roles[p.Hole] == nil {
						roles[p.Hole] = map[string]bool{}
					}
					roles[p.Hole]["interpolated"] = true
				}
			}
		}
	}
	walk(b)
	return roles
}

// Walk visits every expression node under x (pre-order).
func Walk(x interface{}, f func(e Expr)) {
	var blk func(b *Block)
	var w func(e Expr)
	blk = func(b *Block) {
		if b == nil {
			return
		}
		for _, s := range b.Stmts {
			switch st := s.(type) {
			case Let:
				w(st.Rhs)
			case LetDestr:
				w(st.Rhs)
			case LetFun:
				blk(st.Body)
			case ExprStmt:
				w(st.E)
			}
		}
		w(b.Final)
	}
	w = func(e Expr) {
		if e == nil {
			return
		}
		f(e)
		switch v := e.(type) {
		case App:
			for _, a := range v.Args {
				w(a)
			}
		case BinOp:
			w(v.L)
			w(v.R)
		case Not:
			w(v.E)
		case Paren:
			w(v.E)
		case If:
			w(v.Cond)
			blk(v.Then)
			for _, ea := range v.Elifs {
				w(ea.Cond)
				blk(ea.Body)
			}
			blk(v.Else)
		case Match:
			w(v.Target)
			for _, a := range v.Arms {
				blk(a.Body)
			}
			blk(v.Default)
		case SMatch:
			w(v.Target)
			for _, a := range v.Lits {
				blk(a.Body)
			}
			blk(v.Last)
		case *Block:
			blk(v)
		case Lambda:
			blk(v.Body)
		case Tuple:
			for _, a := range v.Es {
				w(a)
			}
		case SliceLit:
			for _, a := range v.Es {
				w(a)
			}
		case RecordLit:
			for _, fl := range v.Fields {
				w(fl.E)
			}
		case Field:
			w(v.E)
		case Ctor:
			w(v.Arg)
		}
	}
	switch v := x.(type) {
	case *Block:
		blk(v)
	default:
		w(v)
	}
}

// CountApps counts the applications whose head is name.
func CountApps(b *Block, name string) int {
	n := 0
	Walk(b, func(e Expr) {
		if a, ok := e.(App); ok && a.Fn == name && len(a.Args) > 0 {
			n++
		}
	})
	return n
}
