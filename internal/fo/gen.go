package fo

import (
	"fmt"
	"regexp"
	"sort"
	"strings"
)

// Chooser is what the generator needs from the explorer.
type Chooser interface {
	Choose(n int) int
	Skip(why string)
}

// Binding of a local variable.
type Binding struct {
	Name string
	Type Type
}

type Env2 []Binding

func (g Env2) with(n string, t Type) Env2 {
	return append(append(Env2{}, g...), Binding{n, t})
}

// visible variables of type t (innermost binding of each name wins)
func (g Env2) ofType(t Type) []string {
	seen := map[string]bool{}
	var out []string
	for i := len(g) - 1; i >= 0; i-- {
		if seen[g[i].Name] {
			continue
		}
		seen[g[i].Name] = true
		if g[i].Type == t {
			out = append(out, g[i].Name)
		}
	}
	sort.Strings(out)
	return out
}

func (g Env2) typeOf(n string) (Type, bool) {
	for i := len(g) - 1; i >= 0; i-- {
		if g[i].Name == n {
			return g[i].Type, true
		}
	}
	return "", false
}

const (
	PosExpr  = 0 // expression position: no statements
	PosBlock = 1 // block position: let / sequencing allowed
)

// Profile selects the alphabet.
type Profile struct {
	Tiny     bool // the tinyfo subset (C17)
	RepsOnly bool // one representative per lowering class (thorough k=3)
	// ExtWithReps: a round-3 production (ext) combines only with representatives: a term may contain a
	// production p inside a production a only if neither is ext or the other one is a representative (quick tier, k = 2)
	ExtWithReps bool
	Only        map[string]bool
}

type Gen struct {
	C       Chooser
	P       Profile
	Suffix  string
	leaf    int
	fresh   int
	Aux     []Def          // lifted top-level functions, in definition order
	Used    map[string]int // constructs used in this term
	lifted  int
	stack   []*prod
	InBlock bool
	steer   bool // the next hole steers control flow: offer every leaf (true/false, every constructor)
}

// Steer generates a hole whose value decides what is evaluated next.
func (g *Gen) Steer(t Type, env Env2, fuel int) Expr {
	g.steer = true
	return g.Gen(t, env, fuel, PosExpr)
}

func NewGen(c Chooser, p Profile, suffix string) *Gen {
	return &Gen{C: c, P: p, Suffix: suffix, Used: map[string]int{}}
}

var leafInts = []int64{2, 3, 5, 7, 11, 13, 17, 19, 23, 29, 31, 37}

func (g *Gen) nextInt() int64 {
	v := leafInts[g.leaf%len(leafInts)]
	g.leaf++
	return v
}

func (g *Gen) nextStr() string {
	g.leaf++
	return fmt.Sprintf("s%d", g.leaf)
}

func (g *Gen) freshName(prefix string) string {
	g.fresh++
	return fmt.Sprintf("%s%d", prefix, g.fresh)
}

func trI(n int64) Expr              { return App{Fn: "trI", Args: []Expr{IntLit{n}}} }
func trS(s string) Expr             { return App{Fn: "trS", Args: []Expr{StrLit{s}}} }
func trB(b bool) Expr               { return App{Fn: "trB", Args: []Expr{BoolLit{b}}} }
func call(f string, a ...Expr) Expr { return App{Fn: f, Args: a} }

// leaves of a type: traced constants (canonical, free) and the variables in scope.
func (g *Gen) leafOptions(t Type, env Env2, all bool) []func() Expr {
	var out []func() Expr
	v := func(name string) func() Expr { return func() Expr { return Var{name} } }
	switch t {
	case "int":
		out = append(out, func() Expr { return trI(g.nextInt()) })
		if !g.P.Tiny {
			out = append(out, func() Expr { return Var{"gv"} })
		}
	case "string":
		out = append(out, func() Expr { return trS(g.nextStr()) })
	case "bool":
		out = append(out, func() Expr { return trB(true) }, func() Expr { return trB(false) })
	case "unit":
		out = append(out, func() Expr { return call("say", StrLit{g.nextStr()}) })
	case "U":
		out = append(out, func() Expr { return Ctor{Case: "I", Arg: trI(g.nextInt())} },
			func() Expr { return Ctor{Case: "S", Arg: trS(g.nextStr())} },
			func() Expr { return Ctor{Case: "N"} })
	case "R":
		out = append(out, func() Expr {
			return RecordLit{Rec: "R", Fields: []FieldInit{{"A", trI(g.nextInt())}, {"B", trS(g.nextStr())}}}
		})
	case "int*string":
		out = append(out, func() Expr { return Tuple{[]Expr{trI(g.nextInt()), trS(g.nextStr())}} })
	case "[]int":
		out = append(out, func() Expr { return SliceLit{[]Expr{trI(g.nextInt()), trI(g.nextInt())}} })
	case "int->int":
		out = append(out, func() Expr { return Var{"inc"} })
	case "V":
		out = append(out, func() Expr { return Ctor{Case: "P", Arg: Tuple{[]Expr{trI(g.nextInt()), trS(g.nextStr())}}} },
			func() Expr {
				return Ctor{Case: "Q", Arg: RecordLit{Rec: "R", Fields: []FieldInit{{"A", trI(g.nextInt())}, {"B", trS(g.nextStr())}}}}
			},
			func() Expr { return Ctor{Case: "L", Arg: SliceLit{[]Expr{trI(g.nextInt()), trI(g.nextInt())}}} })
	case "Opt<int>":
		out = append(out, func() Expr { return Ctor{Case: "Some", Arg: trI(g.nextInt())} },
			func() Expr { return Ctor{Case: "None", TypeArgs: []Type{"int"}, UnitCall: true} })
	default:
		panic("fo: gen: no leaves for type " + t)
	}
	if !all && len(out) > 1 {
		// positions whose value does not steer control flow get the canonical constant only
		out = out[:1]
	}
	for _, n := range env.ofType(t) {
		out = append(out, v(n))
	}
	return out
}

type prod struct {
	name  string
	rep   bool
	tiny  bool
	block bool // only in block position
	// noTarget: not as the target of a match / condition: the value's type is only known after inference (a
	// generic call's result), and fc needs the target's type where the match is written (DESIGN: C02 domain rules, C09 forms 4/5)
	noTarget bool
	ext      bool // round 3 (see Profile.ExtWithReps)
	app      func(t Type) bool
	mk       func(g *Gen, t Type, env Env2, fuel int, pos int) Expr
}

func any_(Type) bool { return true }
func is(ts ...Type) func(Type) bool {
	return func(t Type) bool {
		for _, x := range ts {
			if x == t {
				return true
			}
		}
		return false
	}
}

// split distributes fuel over n holes in every possible way (choice points).
func (g *Gen) split(fuel, n int) []int {
	out := make([]int, n)
	rest := fuel
	for i := 0; i < n-1; i++ {
		out[i] = g.C.Choose(rest + 1)
		rest -= out[i]
	}
	if n > 0 {
		out[n-1] = rest
	} else if rest != 0 {
		g.C.Skip("fuel left over")
	}
	return out
}

func (g *Gen) blk(t Type, env Env2, fuel int) *Block {
	e := g.Gen(t, env, fuel, PosBlock)
	if b, ok := e.(*Block); ok {
		return b
	}
	return B(e)
}

var binderTypes = []Type{"int", "string", "U", "R", "int*string", "[]int", "int->int"}
var binderTypesTiny = []Type{"int", "string", "U", "R", "int*string", "[]int"}

// Uses reports whether name occurs free in e.
func Uses(e interface{}, name string) bool {
	fv := map[string]bool{}
	freeVars(e, map[string]bool{}, fv)
	return fv[name]
}

func freeVars(x interface{}, bound map[string]bool, out map[string]bool) {
	with := func(names ...string) map[string]bool {
		m := map[string]bool{}
		for k := range bound {
			m[k] = true
		}
		for _, n := range names {
			m[n] = true
		}
		return m
	}
	switch v := x.(type) {
	case nil:
	case IntLit, IntSrc, StrLit, StrSrc, BoolLit, UnitLit, RawStr:
	case Var:
		if !bound[v.Name] && !strings.HasPrefix(v.Name, "_.") {
			out[v.Name] = true
		}
	case App:
		if !bound[v.Fn] {
			out[v.Fn] = true
		}
		for _, a := range v.Args {
			freeVars(a, bound, out)
		}
	case BinOp:
		freeVars(v.L, bound, out)
		freeVars(v.R, bound, out)
	case Not:
		freeVars(v.E, bound, out)
	case Paren:
		freeVars(v.E, bound, out)
	case If:
		freeVars(v.Cond, bound, out)
		freeVars(v.Then, bound, out)
		for _, ea := range v.Elifs {
			freeVars(ea.Cond, bound, out)
			freeVars(ea.Body, bound, out)
		}
		if v.Else != nil {
			freeVars(v.Else, bound, out)
		}
	case Match:
		freeVars(v.Target, bound, out)
		for _, a := range v.Arms {
			if a.Bind != "" && a.Bind != "_" {
				freeVars(a.Body, with(a.Bind), out)
			} else {
				freeVars(a.Body, bound, out)
			}
		}
		if v.Default != nil {
			freeVars(v.Default, bound, out)
		}
	case SMatch:
		freeVars(v.Target, bound, out)
		for _, a := range v.Lits {
			freeVars(a.Body, bound, out)
		}
		if v.VarName != "" {
			freeVars(v.Last, with(v.VarName), out)
		} else {
			freeVars(v.Last, bound, out)
		}
	case *Block:
		if v == nil {
			return
		}
		b := bound
		for _, s := range v.Stmts {
			switch st := s.(type) {
			case Let:
				freeVars(st.Rhs, b, out)
				b = withIn(b, st.Name)
			case LetDestr:
				freeVars(st.Rhs, b, out)
				b = withIn(b, st.Names...)
			case LetFun:
				ps := []string{}
				for _, p := range st.Params {
					ps = append(ps, p.Name)
				}
				freeVars(st.Body, withIn(b, ps...), out)
				b = withIn(b, st.Name)
			case ExprStmt:
				freeVars(st.E, b, out)
			}
		}
		freeVars(v.Final, b, out)
	case Lambda:
		ps := []string{}
		for _, p := range v.Params {
			ps = append(ps, p.Name)
		}
		freeVars(v.Body, with(ps...), out)
	case Tuple:
		for _, a := range v.Es {
			freeVars(a, bound, out)
		}
	case SliceLit:
		for _, a := range v.Es {
			freeVars(a, bound, out)
		}
	case RecordLit:
		for _, f := range v.Fields {
			freeVars(f.E, bound, out)
		}
	case Field:
		freeVars(v.E, bound, out)
	case Ctor:
		freeVars(v.Arg, bound, out)
	case Interp:
		for _, p := range v.Parts {
			if p.Hole != "" && !bound[p.Hole] {
				out[p.Hole] = true
			}
		}
	default:
		panic(fmt.Sprintf("fo: freeVars %T", x))
	}
}

func withIn(b map[string]bool, names ...string) map[string]bool {
	m := map[string]bool{}
	for k := range b {
		m[k] = true
	}
	for _, n := range names {
		m[n] = true
	}
	return m
}

var placeholder = regexp.MustCompile(`^f[ab]\d+$`)

var fmtOf = map[Type]string{"int": "%d", "string": "%s", "bool": "%v"}

var prods []prod

func init() {
	add := func(p prod) { prods = append(prods, p) }
	bin := func(name, op string, res Type, operand Type, rep, tiny bool) {
		add(prod{name: name, rep: rep, tiny: tiny, app: is(res), mk: func(g *Gen, t Type, env Env2, fuel, pos int) Expr {
			f := g.split(fuel-1, 2)
			return BinOp{op, g.Gen(operand, env, f[0], PosExpr), g.Gen(operand, env, f[1], PosExpr)}
		}})
	}
	// 1 arithmetic
	bin("arith:-", "-", "int", "int", true, true)
	bin("arith:+", "+", "int", "int", false, true)
	bin("arith:*", "*", "int", "int", false, false)
	bin("arith:/", "/", "int", "int", false, false)
	// 2 string concat
	bin("concat", "+", "string", "string", true, true)
	// 3 ordering
	bin("order:<", "<", "bool", "int", true, true)
	bin("order:>", ">", "bool", "int", false, true)
	bin("order:<=", "<=", "bool", "int", false, true)
	bin("order:>=", ">=", "bool", "int", false, true)
	// 4 equality
	for _, sg := range []Type{"int", "string", "[]int", "R", "U"} {
		bin("eq:"+sg, "=", "bool", sg, sg == "[]int", sg == "int" || sg == "string")
		bin("neq:"+sg, "<>", "bool", sg, false, sg == "int")
	}
	// 5 logic
	for _, op := range []string{"&&", "||"} {
		op := op
		add(prod{name: "logic:" + op, rep: true, tiny: true, app: is("bool"), mk: func(g *Gen, t Type, env Env2, fuel, pos int) Expr {
			f := g.split(fuel-1, 2)
			return BinOp{op, g.Steer("bool", env, f[0]), g.Steer("bool", env, f[1])}
		}})
	}
	add(prod{name: "logic:not", rep: true, tiny: true, app: is("bool"), mk: func(g *Gen, t Type, env Env2, fuel, pos int) Expr {
		return Not{g.Gen("bool", env, fuel-1, PosExpr)}
	}})
	// 6 if/else
	add(prod{name: "if-else", rep: true, tiny: true, app: any_, mk: func(g *Gen, t Type, env Env2, fuel, pos int) Expr {
		f := g.split(fuel-1, 3)
		return If{Cond: g.Steer("bool", env, f[0]), Then: g.blk(t, env, f[1]), Else: g.blk(t, env, f[2])}
	}})
	// 7 if only
	add(prod{name: "if-only", rep: true, tiny: true, app: is("unit"), mk: func(g *Gen, t Type, env Env2, fuel, pos int) Expr {
		f := g.split(fuel-1, 2)
		return If{Cond: g.Steer("bool", env, f[0]), Then: g.blk("unit", env, f[1])}
	}})
	// 8 elif
	add(prod{name: "elif", rep: true, tiny: true, app: any_, mk: func(g *Gen, t Type, env Env2, fuel, pos int) Expr {
		f := g.split(fuel-1, 5)
		return If{Cond: g.Steer("bool", env, f[0]), Then: g.blk(t, env, f[1]),
			Elifs: []ElifArm{{g.Steer("bool", env, f[2]), g.blk(t, env, f[3])}}, Else: g.blk(t, env, f[4])}
	}})
	// 9 union match: three variants (declaration order, permuted order, default arm)
	armI := func(g *Gen, t Type, env Env2, fuel int) Arm {
		b := g.blk(t, env.with("i", "int"), fuel)
		bind := "i"
		if !Uses(b, "i") {
			bind = "_"
		}
		return Arm{"I", bind, b}
	}
	armS := func(g *Gen, t Type, env Env2, fuel int) Arm {
		b := g.blk(t, env.with("s", "string"), fuel)
		bind := "s"
		if !Uses(b, "s") {
			bind = "" // no pattern at all
		}
		return Arm{"S", bind, b}
	}
	add(prod{name: "match-union", rep: true, tiny: true, app: any_, mk: func(g *Gen, t Type, env Env2, fuel, pos int) Expr {
		f := g.split(fuel-1, 4)
		tg := g.Steer("U", env, f[0])
		return Match{Target: tg, Arms: []Arm{armI(g, t, env, f[1]), armS(g, t, env, f[2]), {"N", "", g.blk(t, env, f[3])}}}
	}})
	add(prod{name: "match-union-permuted", app: any_, tiny: true, mk: func(g *Gen, t Type, env Env2, fuel, pos int) Expr {
		f := g.split(fuel-1, 4)
		tg := g.Steer("U", env, f[0])
		n := Arm{"N", "", g.blk(t, env, f[1])}
		return Match{Target: tg, Arms: []Arm{n, armS(g, t, env, f[2]), armI(g, t, env, f[3])}}
	}})
	add(prod{name: "match-union-default", rep: true, tiny: true, app: any_, mk: func(g *Gen, t Type, env Env2, fuel, pos int) Expr {
		f := g.split(fuel-1, 3)
		tg := g.Steer("U", env, f[0])
		return Match{Target: tg, Arms: []Arm{armS(g, t, env, f[1])}, Default: g.blk(t, env, f[2])}
	}})
	// 10 generic union match
	add(prod{name: "match-generic-union", rep: true, app: any_, mk: func(g *Gen, t Type, env Env2, fuel, pos int) Expr {
		f := g.split(fuel-1, 3)
		tg := g.Steer("Opt<int>", env, f[0])
		b := g.blk(t, env.with("v", "int"), f[1])
		bind := "v"
		if !Uses(b, "v") {
			bind = "_"
		}
		return Match{Target: tg, Arms: []Arm{{"Some", bind, b}, {"None", "", g.blk(t, env, f[2])}}}
	}})
	// one generic union at two instantiations inside one inferred type (both: T0->T1->Opt<T0>*Opt<T1>), the
	// second one matched
	add(prod{name: "generic-union-two-instances", block: true, app: is("string"), mk: func(g *Gen, t Type, env Env2, fuel, pos int) Expr {
		f := g.split(fuel-1, 3)
		q := g.freshName("o")
		rhs := call("both", g.Gen("int", env, f[0], PosExpr), g.Gen("string", env, f[1], PosExpr))
		m := Match{Target: Var{q}, Arms: []Arm{{"Some", "w", B(Var{"w"})}, {"None", "", g.blk(t, env, f[2])}}}
		return &Block{Stmts: []Stmt{LetDestr{[]string{"_", q}, rhs}}, Final: m}
	}})
	// destructuring of an UN-ANNOTATED parameter whose components have different types
	add(prod{name: "destr-unannotated-param", app: is("int"), mk: func(g *Gen, t Type, env Env2, fuel, pos int) Expr {
		f := g.split(fuel-1, 2)
		lam := Lambda{[]Param{{Name: "p"}}, &Block{Stmts: []Stmt{LetDestr{[]string{"da", "db"}, Var{"p"}}},
			Final: BinOp{"+", Var{"da"}, call("strings.Length", Var{"db"})}}}
		return call("slice.Head", call("slice.Map", lam, SliceLit{[]Expr{Tuple{[]Expr{g.Gen("int", env, f[0], PosExpr), g.Gen("string", env, f[1], PosExpr)}}}}))
	}})
	// 11 string match
	add(prod{name: "match-string-var", rep: true, app: any_, mk: func(g *Gen, t Type, env Env2, fuel, pos int) Expr {
		f := g.split(fuel-1, 3)
		tg := g.Gen("string", env, f[0], PosExpr)
		lit := SArm{"s1", g.blk(t, env, f[1])}
		b := g.blk(t, env.with("w", "string"), f[2])
		if !Uses(b, "w") {
			return SMatch{Target: tg, Lits: []SArm{lit}, Last: b}
		}
		return SMatch{Target: tg, Lits: []SArm{lit}, VarName: "w", Last: b}
	}})
	// a literal pattern with escapes (quote, tab, backslash): pattern and expression must denote the same text
	add(prod{name: "match-string-escapes", app: any_, mk: func(g *Gen, t Type, env Env2, fuel, pos int) Expr {
		f := g.split(fuel-1, 2)
		special := "q\"t\tb\\n"
		tg := []Expr{trS(special), trS("q")}[g.C.Choose(2)]
		return SMatch{Target: tg, Lits: []SArm{{special, g.blk(t, env, f[0])}, {"q\\", g.blk(t, env, 0)}}, Last: g.blk(t, env, f[1])}
	}})
	// 12 let (every binder type)
	for _, bt := range binderTypes {
		bt := bt
		add(prod{name: "let:" + bt, rep: bt == "int" || bt == "int->int", tiny: bt != "int->int", block: true, app: any_, mk: func(g *Gen, t Type, env Env2, fuel, pos int) Expr {
			f := g.split(fuel-1, 2)
			x := g.freshName("a")
			rhs := g.Gen(bt, env, f[0], PosExpr)
			body := g.blk(t, env.with(x, bt), f[1])
			if !Uses(body, x) {
				g.C.Skip("unused let")
			}
			return &Block{Stmts: append([]Stmt{Let{x, rhs}}, body.Stmts...), Final: body.Final}
		}})
	}
	// 13 destructuring
	add(prod{name: "let-destr", rep: true, tiny: true, block: true, app: any_, mk: func(g *Gen, t Type, env Env2, fuel, pos int) Expr {
		f := g.split(fuel-1, 2)
		a, b := g.freshName("p"), g.freshName("q")
		rhs := g.Gen("int*string", env, f[0], PosExpr)
		body := g.blk(t, env.with(a, "int").with(b, "string"), f[1])
		names := []string{a, b}
		if !Uses(body, a) {
			names[0] = "_"
		}
		if !Uses(body, b) {
			names[1] = "_"
		}
		if names[0] == "_" && names[1] == "_" {
			g.C.Skip("destructuring binds nothing")
		}
		return &Block{Stmts: append([]Stmt{LetDestr{names, rhs}}, body.Stmts...), Final: body.Final}
	}})
	add(prod{name: "let-destr3", block: true, app: any_, mk: func(g *Gen, t Type, env Env2, fuel, pos int) Expr {
		f := g.split(fuel-1, 2)
		a, c := g.freshName("p"), g.freshName("q")
		rhs := Tuple{[]Expr{g.Gen("int", env, f[0], PosExpr), trS(g.nextStr()), trI(g.nextInt())}}
		body := g.blk(t, env.with(a, "int").with(c, "int"), f[1])
		if !Uses(body, a) || !Uses(body, c) {
			g.C.Skip("unused destructured name")
		}
		return &Block{Stmts: append([]Stmt{LetDestr{[]string{a, "_", c}, rhs}}, body.Stmts...), Final: body.Final}
	}})
	// 14 local function (closure over enclosing locals); only as a direct statement of a function body
	add(prod{name: "local-fun", rep: true, block: true, app: any_, mk: func(g *Gen, t Type, env Env2, fuel, pos int) Expr {
		if !g.InBlock {
			g.C.Skip("local function let only directly in a function body")
		}
		f := g.split(fuel-1, 2)
		fn := g.freshName("lf")
		annotated := g.C.Choose(2) == 0
		pm := Param{Name: "y", Type: "int"}
		if !annotated {
			pm.Type = ""
		}
		// the body must determine y's type when it is not annotated: y + e
		inner := g.Gen("int", env.with("y", "int"), f[0], PosExpr)
		fb := B(BinOp{"+", Var{"y"}, inner})
		save := g.InBlock
		body := g.blk(t, env.with(fn, "int->int"), f[1])
		g.InBlock = save
		if !Uses(body, fn) {
			g.C.Skip("unused local function")
		}
		return &Block{Stmts: append([]Stmt{LetFun{fn, []Param{pm}, fb}}, body.Stmts...), Final: body.Final}
	}})
	// 15 lambda: let-bound and applied; through slice.Map / Filter / Fold; through a pipe
	add(prod{name: "lambda-let", rep: true, block: true, app: any_, mk: func(g *Gen, t Type, env Env2, fuel, pos int) Expr {
		f := g.split(fuel-1, 2)
		fn := g.freshName("fn")
		// a lambda body is not a function body: no local function lets directly in it
		save := g.InBlock
		g.InBlock = false
		lam := Lambda{[]Param{{Name: "x", Type: "int"}}, g.blk("int", env.with("x", "int"), f[0])}
		g.InBlock = save
		body := g.blk(t, env.with(fn, "int->int"), f[1])
		if !Uses(body, fn) {
			g.C.Skip("unused lambda")
		}
		return &Block{Stmts: append([]Stmt{Let{fn, lam}}, body.Stmts...), Final: body.Final}
	}})
	add(prod{name: "lambda-map", rep: true, app: is("[]int"), mk: func(g *Gen, t Type, env Env2, fuel, pos int) Expr {
		f := g.split(fuel-1, 2)
		lam := Lambda{[]Param{{Name: "x"}}, g.blk("int", env.with("x", "int"), f[0])}
		return call("slice.Map", lam, g.Gen("[]int", env, f[1], PosExpr))
	}})
	add(prod{name: "lambda-filter", app: is("[]int"), mk: func(g *Gen, t Type, env Env2, fuel, pos int) Expr {
		f := g.split(fuel-1, 2)
		lam := Lambda{[]Param{{Name: "x", Type: "int"}}, g.blk("bool", env.with("x", "int"), f[0])}
		return call("slice.Filter", lam, g.Gen("[]int", env, f[1], PosExpr))
	}})
	add(prod{name: "lambda-fold", rep: true, app: is("int"), mk: func(g *Gen, t Type, env Env2, fuel, pos int) Expr {
		f := g.split(fuel-1, 3)
		lam := Lambda{[]Param{{Name: "acc", Type: "int"}, {Name: "x", Type: "int"}}, g.blk("int", env.with("acc", "int").with("x", "int"), f[0])}
		return call("slice.Fold", lam, g.Gen("int", env, f[1], PosExpr), g.Gen("[]int", env, f[2], PosExpr))
	}})
	add(prod{name: "lambda-pipe", app: is("int"), mk: func(g *Gen, t Type, env Env2, fuel, pos int) Expr {
		f := g.split(fuel-1, 2)
		lam := Lambda{[]Param{{Name: "x", Type: "int"}}, g.blk("int", env.with("x", "int"), f[1])}
		return BinOp{"|>", g.Gen("int", env, f[0], PosExpr), lam}
	}})
	// 16 full application
	add(prod{name: "app-add", rep: true, tiny: true, app: is("int"), mk: func(g *Gen, t Type, env Env2, fuel, pos int) Expr {
		f := g.split(fuel-1, 2)
		return call("add", g.Gen("int", env, f[0], PosExpr), g.Gen("int", env, f[1], PosExpr))
	}})
	add(prod{name: "app-add3", app: is("int"), mk: func(g *Gen, t Type, env Env2, fuel, pos int) Expr {
		f := g.split(fuel-1, 3)
		return call("add3", g.Gen("int", env, f[0], PosExpr), g.Gen("int", env, f[1], PosExpr), g.Gen("int", env, f[2], PosExpr))
	}})
	add(prod{name: "app-fnvalue", rep: true, tiny: true, app: is("int"), mk: func(g *Gen, t Type, env Env2, fuel, pos int) Expr {
		// application of a function-typed local (parameter, let-bound closure)
		fs := env.ofType("int->int")
		if len(fs) == 0 {
			g.C.Skip("no function value in scope")
		}
		fn := fs[g.C.Choose(len(fs))]
		return call(fn, g.Gen("int", env, fuel-1, PosExpr))
	}})
	add(prod{name: "app-say", rep: true, tiny: true, app: is("unit"), mk: func(g *Gen, t Type, env Env2, fuel, pos int) Expr {
		return call("say", g.Gen("string", env, fuel-1, PosExpr))
	}})
	add(prod{name: "app-printf", app: is("unit"), tiny: true, mk: func(g *Gen, t Type, env Env2, fuel, pos int) Expr {
		return call("frt.Printf1", StrLit{"(%d)"}, g.Gen("int", env, fuel-1, PosExpr))
	}})
	add(prod{name: "app-konst", rep: true, app: is("int", "string"), mk: func(g *Gen, t Type, env Env2, fuel, pos int) Expr {
		f := g.split(fuel-1, 2)
		other := "string"
		if t == "string" {
			other = "int"
		}
		return call("konst", g.Gen(t, env, f[0], PosExpr), g.Gen(other, env, f[1], PosExpr))
	}})
	// 17 partial application
	add(prod{name: "partial-let", rep: true, tiny: true, block: true, app: any_, mk: func(g *Gen, t Type, env Env2, fuel, pos int) Expr {
		f := g.split(fuel-1, 2)
		fn := g.freshName("pa")
		rhs := call("add", g.Gen("int", env, f[0], PosExpr))
		body := g.blk(t, env.with(fn, "int->int"), f[1])
		if !Uses(body, fn) {
			g.C.Skip("unused partial application")
		}
		return &Block{Stmts: append([]Stmt{Let{fn, rhs}}, body.Stmts...), Final: body.Final}
	}})
	add(prod{name: "partial-let2", block: true, app: any_, mk: func(g *Gen, t Type, env Env2, fuel, pos int) Expr {
		// two missing arguments, then one more supplied, then the last
		f := g.split(fuel-1, 2)
		fn, fn2 := g.freshName("pb"), g.freshName("pc")
		rhs := call("add3", g.Gen("int", env, f[0], PosExpr))
		rhs2 := call(fn, trI(g.nextInt()))
		body := g.blk(t, env.with(fn2, "int->int"), f[1])
		if !Uses(body, fn2) {
			g.C.Skip("unused partial application")
		}
		return &Block{Stmts: append([]Stmt{Let{fn, rhs}, Let{fn2, rhs2}}, body.Stmts...), Final: body.Final}
	}})
	add(prod{name: "partial-arg", rep: true, tiny: true, app: is("[]int"), mk: func(g *Gen, t Type, env Env2, fuel, pos int) Expr {
		f := g.split(fuel-1, 2)
		return call("slice.Map", call("add", g.Gen("int", env, f[0], PosExpr)), g.Gen("[]int", env, f[1], PosExpr))
	}})
	// 18 pipe
	add(prod{name: "pipe-fn", rep: true, tiny: true, app: is("int"), mk: func(g *Gen, t Type, env Env2, fuel, pos int) Expr {
		return BinOp{"|>", g.Gen("int", env, fuel-1, PosExpr), Var{"inc"}}
	}})
	add(prod{name: "pipe-partial", rep: true, tiny: true, app: is("int"), mk: func(g *Gen, t Type, env Env2, fuel, pos int) Expr {
		f := g.split(fuel-1, 2)
		return BinOp{"|>", g.Gen("int", env, f[0], PosExpr), call("add", g.Gen("int", env, f[1], PosExpr))}
	}})
	add(prod{name: "pipe-chain", app: is("string"), tiny: true, mk: func(g *Gen, t Type, env Env2, fuel, pos int) Expr {
		f := g.split(fuel-1, 2)
		return BinOp{"|>", BinOp{"|>", g.Gen("int", env, f[0], PosExpr), call("add", g.Gen("int", env, f[1], PosExpr))}, call("frt.Sprintf1", StrLit{"%d!"})}
	}})
	add(prod{name: "pipe-unit", rep: true, tiny: true, app: is("unit"), mk: func(g *Gen, t Type, env Env2, fuel, pos int) Expr {
		return BinOp{"|>", g.Gen("int", env, fuel-1, PosExpr), call("frt.Printf1", StrLit{"(%d)"})}
	}})
	add(prod{name: "pipe-slice", app: is("int"), tiny: true, mk: func(g *Gen, t Type, env Env2, fuel, pos int) Expr {
		return BinOp{"|>", g.Gen("[]int", env, fuel-1, PosExpr), Var{"slice.Length"}}
	}})
	// 19 tuples
	add(prod{name: "tuple", rep: true, tiny: true, app: is("int*string"), mk: func(g *Gen, t Type, env Env2, fuel, pos int) Expr {
		f := g.split(fuel-1, 2)
		return Tuple{[]Expr{g.Gen("int", env, f[0], PosExpr), g.Gen("string", env, f[1], PosExpr)}}
	}})
	add(prod{name: "fst", rep: true, tiny: true, app: is("int"), mk: func(g *Gen, t Type, env Env2, fuel, pos int) Expr {
		return call("frt.Fst", g.Gen("int*string", env, fuel-1, PosExpr))
	}})
	add(prod{name: "snd", app: is("string"), tiny: true, mk: func(g *Gen, t Type, env Env2, fuel, pos int) Expr {
		return call("frt.Snd", g.Gen("int*string", env, fuel-1, PosExpr))
	}})
	// generic library functions used bare as a pipe stage, and the same function again at a second
	// instantiation in the same term (string*int instead of int*string)
	add(prod{name: "fst-piped", tiny: true, app: is("int"), mk: func(g *Gen, t Type, env Env2, fuel, pos int) Expr {
		return BinOp{"|>", g.Gen("int*string", env, fuel-1, PosExpr), Var{"frt.Fst"}}
	}})
	add(prod{name: "snd-piped", tiny: true, app: is("string"), mk: func(g *Gen, t Type, env Env2, fuel, pos int) Expr {
		return BinOp{"|>", g.Gen("int*string", env, fuel-1, PosExpr), Var{"frt.Snd"}}
	}})
	add(prod{name: "snd-second-instance", tiny: true, app: is("int"), mk: func(g *Gen, t Type, env Env2, fuel, pos int) Expr {
		f := g.split(fuel-1, 2)
		return call("frt.Snd", Tuple{[]Expr{g.Gen("string", env, f[0], PosExpr), g.Gen("int", env, f[1], PosExpr)}})
	}})
	add(prod{name: "snd-second-instance-piped", tiny: true, app: is("int"), mk: func(g *Gen, t Type, env Env2, fuel, pos int) Expr {
		f := g.split(fuel-1, 2)
		return BinOp{"|>", Tuple{[]Expr{g.Gen("string", env, f[0], PosExpr), g.Gen("int", env, f[1], PosExpr)}}, Var{"frt.Snd"}}
	}})
	add(prod{name: "fst-second-instance", tiny: true, app: is("string"), mk: func(g *Gen, t Type, env Env2, fuel, pos int) Expr {
		f := g.split(fuel-1, 2)
		return call("frt.Fst", Tuple{[]Expr{g.Gen("string", env, f[0], PosExpr), g.Gen("int", env, f[1], PosExpr)}})
	}})
	add(prod{name: "pair-generic", rep: true, app: is("int*string"), mk: func(g *Gen, t Type, env Env2, fuel, pos int) Expr {
		f := g.split(fuel-1, 2)
		return call("pair", g.Gen("int", env, f[0], PosExpr), g.Gen("string", env, f[1], PosExpr))
	}})
	add(prod{name: "pair-generic-2nd-instance", app: is("string"), mk: func(g *Gen, t Type, env Env2, fuel, pos int) Expr {
		// pair used at a second instantiation in the same term
		f := g.split(fuel-1, 2)
		return call("frt.Fst", call("pair", g.Gen("string", env, f[0], PosExpr), g.Gen("int*string", env, f[1], PosExpr)))
	}})
	// 20 slices
	add(prod{name: "slice-lit", rep: true, tiny: true, app: is("[]int"), mk: func(g *Gen, t Type, env Env2, fuel, pos int) Expr {
		f := g.split(fuel-1, 2)
		return SliceLit{[]Expr{g.Gen("int", env, f[0], PosExpr), g.Gen("int", env, f[1], PosExpr)}}
	}})
	for _, fn := range []string{"slice.Length", "slice.Head", "slice.Last"} {
		fn := fn
		add(prod{name: fn, rep: fn == "slice.Head", tiny: fn != "slice.Last", app: is("int"), mk: func(g *Gen, t Type, env Env2, fuel, pos int) Expr {
			return call(fn, g.Gen("[]int", env, fuel-1, PosExpr))
		}})
	}
	for _, fn := range []string{"slice.Tail", "slice.Sort", "slice.Distinct"} {
		fn := fn
		add(prod{name: fn, rep: fn == "slice.Tail", app: is("[]int"), mk: func(g *Gen, t Type, env Env2, fuel, pos int) Expr {
			return call(fn, g.Gen("[]int", env, fuel-1, PosExpr))
		}})
	}
	for _, fn := range []string{"slice.PushHead", "slice.PushLast"} {
		fn := fn
		add(prod{name: fn, app: is("[]int"), mk: func(g *Gen, t Type, env Env2, fuel, pos int) Expr {
			f := g.split(fuel-1, 2)
			return call(fn, g.Gen("int", env, f[0], PosExpr), g.Gen("[]int", env, f[1], PosExpr))
		}})
	}
	add(prod{name: "slice.Take", rep: true, app: is("[]int"), mk: func(g *Gen, t Type, env Env2, fuel, pos int) Expr {
		return call("slice.Take", IntLit{1}, g.Gen("[]int", env, fuel-1, PosExpr))
	}})
	add(prod{name: "slice.Append", app: is("[]int"), mk: func(g *Gen, t Type, env Env2, fuel, pos int) Expr {
		f := g.split(fuel-1, 2)
		return call("slice.Append", g.Gen("[]int", env, f[0], PosExpr), g.Gen("[]int", env, f[1], PosExpr))
	}})
	add(prod{name: "slice.Item", app: is("int"), mk: func(g *Gen, t Type, env Env2, fuel, pos int) Expr {
		return call("slice.Item", IntLit{0}, g.Gen("[]int", env, fuel-1, PosExpr))
	}})
	add(prod{name: "slice.IsEmpty", app: is("bool"), mk: func(g *Gen, t Type, env Env2, fuel, pos int) Expr {
		return call("slice.IsEmpty", g.Gen("[]int", env, fuel-1, PosExpr))
	}})
	add(prod{name: "slice.New", app: is("[]int"), mk: func(g *Gen, t Type, env Env2, fuel, pos int) Expr {
		// costs a construct but has no hole
		if fuel != 1 {
			g.C.Skip("no hole")
		}
		return App{Fn: "slice.New", TypeArgs: []Type{"int"}, Args: []Expr{UnitLit{}}}
	}})
	// 21 records
	add(prod{name: "record-lit", rep: true, tiny: true, app: is("R"), mk: func(g *Gen, t Type, env Env2, fuel, pos int) Expr {
		f := g.split(fuel-1, 2)
		return RecordLit{Rec: "R", Fields: []FieldInit{{"A", g.Gen("int", env, f[0], PosExpr)}, {"B", g.Gen("string", env, f[1], PosExpr)}}}
	}})
	add(prod{name: "record-lit-reordered", app: is("R"), tiny: true, mk: func(g *Gen, t Type, env Env2, fuel, pos int) Expr {
		f := g.split(fuel-1, 2)
		return RecordLit{Rec: "R", Fields: []FieldInit{{"B", g.Gen("string", env, f[0], PosExpr)}, {"A", g.Gen("int", env, f[1], PosExpr)}}}
	}})
	add(prod{name: "record-lit-qualified", app: is("R"), mk: func(g *Gen, t Type, env Env2, fuel, pos int) Expr {
		f := g.split(fuel-1, 2)
		return RecordLit{Rec: "R", Qualified: true, Fields: []FieldInit{{"A", g.Gen("int", env, f[0], PosExpr)}, {"B", g.Gen("string", env, f[1], PosExpr)}}}
	}})
	add(prod{name: "field-of-var", rep: true, tiny: true, block: true, app: any_, mk: func(g *Gen, t Type, env Env2, fuel, pos int) Expr {
		// let r = <R> ; body may use r.A / r.B (field access needs a variable target)
		f := g.split(fuel-1, 2)
		r := g.freshName("r")
		rhs := g.Gen("R", env, f[0], PosExpr)
		a, b := g.freshName("fa"), g.freshName("fb")
		body := g.blk(t, env.with(a, "int").with(b, "string"), f[1])
		if !Uses(body, a) && !Uses(body, b) {
			g.C.Skip("record unused")
		}
		// fa / fb are not variables but projections r.A / r.B: substitute
		sub := substVars(body, map[string]Expr{a: Field{Var{r}, "A"}, b: Field{Var{r}, "B"}}).(*Block)
		return &Block{Stmts: append([]Stmt{Let{r, rhs}}, sub.Stmts...), Final: sub.Final}
	}})
	add(prod{name: "us-field-map", app: is("[]int"), mk: func(g *Gen, t Type, env Env2, fuel, pos int) Expr {
		f := g.split(fuel-1, 2)
		return call("slice.Map", Var{"_.A"}, SliceLit{[]Expr{g.Gen("R", env, f[0], PosExpr), g.Gen("R", env, f[1], PosExpr)}})
	}})
	// generic record: literal with inferred instantiation and field access through a variable
	add(prod{name: "generic-record", block: true, app: any_, mk: func(g *Gen, t Type, env Env2, fuel, pos int) Expr {
		f := g.split(fuel-1, 3)
		r := g.freshName("g")
		lit := RecordLit{Rec: "G", Fields: []FieldInit{{"V", g.Gen("int", env, f[0], PosExpr)}, {"Vs", SliceLit{[]Expr{g.Gen("int", env, f[1], PosExpr)}}}}}
		a, b := g.freshName("fa"), g.freshName("fb")
		body := g.blk(t, env.with(a, "int").with(b, "[]int"), f[2])
		if !Uses(body, a) && !Uses(body, b) {
			g.C.Skip("record unused")
		}
		sub := substVars(body, map[string]Expr{a: Field{Var{r}, "V"}, b: Field{Var{r}, "Vs"}}).(*Block)
		return &Block{Stmts: append([]Stmt{Let{r, lit}}, sub.Stmts...), Final: sub.Final}
	}})
	// nested field access x.Fb.Fa on a record of a `type ... and ...` group
	add(prod{name: "nested-field", block: true, app: any_, mk: func(g *Gen, t Type, env Env2, fuel, pos int) Expr {
		f := g.split(fuel-1, 3)
		r := g.freshName("q")
		lit := RecordLit{Rec: "Tq", Fields: []FieldInit{{"Fb", RecordLit{Rec: "Tr", Fields: []FieldInit{{"Fa", g.Gen("int", env, f[0], PosExpr)}}}}, {"Fn", g.Gen("int", env, f[1], PosExpr)}}}
		a, b := g.freshName("fa"), g.freshName("fb")
		body := g.blk(t, env.with(a, "int").with(b, "int"), f[2])
		if !Uses(body, a) {
			g.C.Skip("nested field unused")
		}
		sub := substVars(body, map[string]Expr{a: Field{Field{Var{r}, "Fb"}, "Fa"}, b: Field{Var{r}, "Fn"}}).(*Block)
		return &Block{Stmts: append([]Stmt{Let{r, lit}}, sub.Stmts...), Final: sub.Final}
	}})
	// 24 dict / buf: mutable library values used in sequence
	add(prod{name: "dict-roundtrip", block: true, app: any_, mk: func(g *Gen, t Type, env Env2, fuel, pos int) Expr {
		f := g.split(fuel-1, 3)
		d := g.freshName("d")
		a := g.freshName("fa")
		body := g.blk(t, env.with(a, "int"), f[2])
		if !Uses(body, a) {
			g.C.Skip("dictionary unused")
		}
		sub := substVars(body, map[string]Expr{a: call("dict.Item", Var{d}, StrLit{"k"})}).(*Block)
		stmts := []Stmt{
			Let{d, App{Fn: "dict.New", TypeArgs: []Type{"string", "int"}, Args: []Expr{UnitLit{}}}},
			ExprStmt{call("dict.Add", Var{d}, StrLit{"k"}, g.Gen("int", env, f[0], PosExpr))},
			ExprStmt{call("dict.Add", Var{d}, StrLit{"k"}, g.Gen("int", env, f[1], PosExpr))}, // overwrites
		}
		return &Block{Stmts: append(stmts, sub.Stmts...), Final: sub.Final}
	}})
	add(prod{name: "buf-writes", block: true, app: any_, mk: func(g *Gen, t Type, env Env2, fuel, pos int) Expr {
		f := g.split(fuel-1, 3)
		b := g.freshName("bf")
		s := g.freshName("t")
		body := g.blk(t, env.with(s, "string"), f[2])
		if !Uses(body, s) {
			g.C.Skip("buffer unused")
		}
		stmts := []Stmt{
			Let{b, call("buf.New", UnitLit{})},
			ExprStmt{call("buf.Write", Var{b}, g.Gen("string", env, f[0], PosExpr))},
			ExprStmt{BinOp{"|>", g.Gen("string", env, f[1], PosExpr), call("buf.Write", Var{b})}},
			Let{s, call("buf.String", Var{b})},
		}
		return &Block{Stmts: append(stmts, body.Stmts...), Final: body.Final}
	}})
	// 22 constructors
	add(prod{name: "ctor-I", rep: true, tiny: true, app: is("U"), mk: func(g *Gen, t Type, env Env2, fuel, pos int) Expr {
		return Ctor{Case: "I", Arg: g.Gen("int", env, fuel-1, PosExpr)}
	}})
	add(prod{name: "ctor-S", app: is("U"), tiny: true, mk: func(g *Gen, t Type, env Env2, fuel, pos int) Expr {
		return Ctor{Case: "S", Arg: g.Gen("string", env, fuel-1, PosExpr)}
	}})
	add(prod{name: "ctor-Some", rep: true, app: is("Opt<int>"), mk: func(g *Gen, t Type, env Env2, fuel, pos int) Expr {
		return Ctor{Case: "Some", Arg: g.Gen("int", env, fuel-1, PosExpr)}
	}})
	// 23 strings
	add(prod{name: "interp", rep: true, block: true, app: any_, mk: func(g *Gen, t Type, env Env2, fuel, pos int) Expr {
		// let n = <int>; let s = $"n={n}!" ; body uses s
		f := g.split(fuel-1, 2)
		n, s := g.freshName("n"), g.freshName("t")
		rhs := g.Gen("int", env, f[0], PosExpr)
		body := g.blk(t, env.with(s, "string"), f[1])
		if !Uses(body, s) {
			g.C.Skip("unused interpolated string")
		}
		ip := Interp{Parts: []InterpPart{{Text: "n="}, {Hole: n}, {Text: "!"}}}
		return &Block{Stmts: append([]Stmt{Let{n, rhs}, Let{s, ip}}, body.Stmts...), Final: body.Final}
	}})
	add(prod{name: "interp-first-in-statement", app: is("unit"), mk: func(g *Gen, t Type, env Env2, fuel, pos int) Expr {
		// a unit statement that begins with an interpolated string: $"n={n}!" |> say  (n must be a variable in scope)
		var ns []string
		for _, n := range env.ofType("int") {
			// projections r.A travel as placeholder variables (field-of-var) and cannot be written in a hole
			if !placeholder.MatchString(n) {
				ns = append(ns, n)
			}
		}
		if len(ns) == 0 || fuel != 1 {
			g.C.Skip("needs an int variable and exactly one construct")
		}
		n := ns[g.C.Choose(len(ns))]
		return BinOp{"|>", Interp{Parts: []InterpPart{{Text: "n="}, {Hole: n}, {Text: "!"}}}, Var{"say"}}
	}})
	add(prod{name: "sprintf", rep: true, tiny: true, app: is("string"), mk: func(g *Gen, t Type, env Env2, fuel, pos int) Expr {
		return call("frt.Sprintf1", StrLit{"<%d>"}, g.Gen("int", env, fuel-1, PosExpr))
	}})
	add(prod{name: "strings.Length", app: is("int"), mk: func(g *Gen, t Type, env Env2, fuel, pos int) Expr {
		return call("strings.Length", g.Gen("string", env, fuel-1, PosExpr))
	}})
	add(prod{name: "strings.HasPrefix", app: is("bool"), mk: func(g *Gen, t Type, env Env2, fuel, pos int) Expr {
		return call("strings.HasPrefix", StrLit{"s"}, g.Gen("string", env, fuel-1, PosExpr))
	}})
	add(prod{name: "strings.Concat", app: is("string"), mk: func(g *Gen, t Type, env Env2, fuel, pos int) Expr {
		f := g.split(fuel-1, 2)
		return call("strings.Concat", StrLit{","}, SliceLit{[]Expr{g.Gen("string", env, f[0], PosExpr), g.Gen("string", env, f[1], PosExpr)}})
	}})
	// ---- round 3: lowering classes the first alphabet did not reach ----
	// 27 recursion: a top-level function that calls itself (result type annotated, as fc's own sources do);
	// the step runs k times, then the base
	add(prod{ext: true, rep: true, name: "rec-fun", app: any_, mk: func(g *Gen, t Type, env Env2, fuel, pos int) Expr {
		f := g.split(fuel-1, 2)
		k := g.freshName("k")
		saveBlock := g.InBlock
		g.InBlock = true
		base := g.blk(t, env.with(k, "int"), f[0])
		g.InBlock = false
		step := g.Gen("unit", env.with(k, "int"), f[1], PosExpr)
		g.InBlock = saveBlock
		g.lifted++
		fn := fmt.Sprintf("lift%d%s", g.lifted, g.Suffix)
		fv := map[string]bool{}
		freeVars(base, map[string]bool{k: true}, fv)
		freeVars(step, map[string]bool{k: true}, fv)
		var names []string
		for n := range fv {
			if _, ok := env.typeOf(n); ok {
				names = append(names, n)
			}
		}
		sort.Strings(names)
		fd := FuncDef{Name: fn, Params: []Param{{Name: k, Type: "int"}}, Ret: t}
		kn := g.freshName("kn")
		self := []Expr{Var{kn}}
		args := []Expr{IntLit{2}}
		for _, n := range names {
			ty, _ := env.typeOf(n)
			fd.Params = append(fd.Params, Param{Name: n, Type: ty})
			self = append(self, Var{n})
			args = append(args, Var{n})
		}
		fd.Body = B(If{Cond: BinOp{"<", Var{k}, IntLit{1}}, Then: base,
			Else: &Block{Stmts: []Stmt{Let{kn, BinOp{"-", Var{k}, IntLit{1}}}, ExprStmt{step}}, Final: App{Fn: fn, Args: self}}})
		g.Aux = append(g.Aux, fd)
		return App{Fn: fn, Args: args}
	}})
	// 28 a top-level function that returns a lambda capturing its parameter; the closure is created once and called twice
	add(prod{ext: true, rep: true, name: "closure-returned", block: true, app: is("int"), mk: func(g *Gen, t Type, env Env2, fuel, pos int) Expr {
		f := g.split(fuel-1, 3)
		c, h := g.freshName("c"), g.freshName("h")
		save := g.InBlock
		g.InBlock = false
		lamBody := g.blk("int", env.with(c, "int").with("x", "int"), f[1])
		g.InBlock = save
		g.lifted++
		fn := fmt.Sprintf("lift%d%s", g.lifted, g.Suffix)
		fv := map[string]bool{}
		freeVars(lamBody, map[string]bool{c: true, "x": true}, fv)
		var names []string
		for n := range fv {
			if _, ok := env.typeOf(n); ok {
				names = append(names, n)
			}
		}
		sort.Strings(names)
		fd := FuncDef{Name: fn, Params: []Param{{Name: c, Type: "int"}}}
		args := []Expr{g.Gen("int", env, f[0], PosExpr)}
		for _, n := range names {
			ty, _ := env.typeOf(n)
			fd.Params = append(fd.Params, Param{Name: n, Type: ty})
			args = append(args, Var{n})
		}
		fd.Body = B(Lambda{[]Param{{Name: "x", Type: "int"}}, &Block{Stmts: lamBody.Stmts, Final: BinOp{"+", BinOp{"+", Var{"x"}, Var{c}}, lamBody.Final}}})
		g.Aux = append(g.Aux, fd)
		return &Block{Stmts: []Stmt{Let{h, App{Fn: fn, Args: args}}},
			Final: BinOp{"-", call(h, g.Gen("int", env, f[2], PosExpr)), call(h, trI(g.nextInt()))}}
	}})
	// 29 union whose payloads are a tuple, a record and a slice
	add(prod{ext: true, rep: true, name: "match-union-payload-shapes", app: is("int", "string", "unit"), mk: func(g *Gen, t Type, env Env2, fuel, pos int) Expr {
		f := g.split(fuel-1, 4)
		tg := g.Steer("V", env, f[0])
		pa, pb, pv := g.freshName("p"), g.freshName("q"), g.freshName("pv")
		bp := g.blk(t, env.with(pa, "int").with(pb, "string"), f[1])
		names := []string{pa, pb}
		if !Uses(bp, pa) {
			names[0] = "_"
		}
		if !Uses(bp, pb) {
			names[1] = "_"
		}
		armP := Arm{"P", pv, &Block{Stmts: append([]Stmt{LetDestr{names, Var{pv}}}, bp.Stmts...), Final: bp.Final}}
		if names[0] == "_" && names[1] == "_" {
			armP = Arm{"P", "_", bp}
		}
		r := g.freshName("r")
		a, b := g.freshName("fa"), g.freshName("fb")
		bq := g.blk(t, env.with(a, "int").with(b, "string"), f[2])
		armQ := Arm{"Q", r, substVars(bq, map[string]Expr{a: Field{Var{r}, "A"}, b: Field{Var{r}, "B"}}).(*Block)}
		if !Uses(bq, a) && !Uses(bq, b) {
			armQ = Arm{"Q", "_", bq}
		}
		xs := g.freshName("xs")
		bl := g.blk(t, env.with(xs, "[]int"), f[3])
		armL := Arm{"L", xs, bl}
		if !Uses(bl, xs) {
			armL = Arm{"L", "_", bl}
		}
		return Match{Target: tg, Arms: []Arm{armP, armQ, armL}}
	}})
	// 30 a unit-valued lambda handed to slice.Iter, applied or as a pipe stage
	add(prod{ext: true, rep: true, name: "iter-lambda", app: is("unit"), mk: func(g *Gen, t Type, env Env2, fuel, pos int) Expr {
		f := g.split(fuel-1, 2)
		piped := g.C.Choose(2) == 1
		xs := g.Gen("[]int", env, f[0], PosExpr)
		save := g.InBlock
		g.InBlock = false
		lam := Lambda{[]Param{{Name: "x"}}, g.blk("unit", env.with("x", "int"), f[1])}
		g.InBlock = save
		if !Uses(lam.Body, "x") {
			g.C.Skip("the element must be used: its type is not annotated")
		}
		if piped {
			return BinOp{"|>", xs, call("slice.Iter", lam)}
		}
		return call("slice.Iter", lam, xs)
	}})
	// 31 constructors as function values
	add(prod{name: "ctor-piped", noTarget: true, app: is("U"), mk: func(g *Gen, t Type, env Env2, fuel, pos int) Expr {
		return BinOp{"|>", g.Gen("int", env, fuel-1, PosExpr), Var{"I"}}
	}})
	add(prod{name: "ctor-mapped", noTarget: true, app: is("U"), mk: func(g *Gen, t Type, env Env2, fuel, pos int) Expr {
		return call("slice.Last", call("slice.Map", Var{"I"}, g.Gen("[]int", env, fuel-1, PosExpr)))
	}})
	// 32 ordering on strings
	bin("order-string:<", "<", "bool", "string", false, false)
	bin("order-string:>=", ">=", "bool", "string", false, false)
	prods[len(prods)-1].ext, prods[len(prods)-2].ext = true, true
	// 33 partial application of a function VALUE (a let-bound two-parameter lambda)
	add(prod{ext: true, rep: true, name: "partial-fnvalue", block: true, app: any_, mk: func(g *Gen, t Type, env Env2, fuel, pos int) Expr {
		f := g.split(fuel-1, 2)
		f2, pg := g.freshName("ff"), g.freshName("pg")
		lam := Lambda{[]Param{{Name: "a", Type: "int"}, {Name: "b", Type: "int"}}, B(BinOp{"-", Var{"a"}, BinOp{"*", Var{"b"}, IntLit{2}}})}
		body := g.blk(t, env.with(pg, "int->int"), f[1])
		if !Uses(body, pg) {
			g.C.Skip("unused partial application")
		}
		return &Block{Stmts: append([]Stmt{Let{f2, lam}, Let{pg, call(f2, g.Gen("int", env, f[0], PosExpr))}}, body.Stmts...), Final: body.Final}
	}})
	// 34 if / elif without else
	add(prod{ext: true, name: "elif-only", app: is("unit"), mk: func(g *Gen, t Type, env Env2, fuel, pos int) Expr {
		f := g.split(fuel-1, 4)
		return If{Cond: g.Steer("bool", env, f[0]), Then: g.blk("unit", env, f[1]),
			Elifs: []ElifArm{{g.Steer("bool", env, f[2]), g.blk("unit", env, f[3])}}}
	}})
	// 35 a named function as an argument; index-taking and two-parameter un-annotated lambdas; zipped pairs
	add(prod{ext: true, name: "map-fn", app: is("[]int"), mk: func(g *Gen, t Type, env Env2, fuel, pos int) Expr {
		return call("slice.Map", Var{"inc"}, g.Gen("[]int", env, fuel-1, PosExpr))
	}})
	add(prod{ext: true, name: "lambda-mapi", app: is("[]int"), mk: func(g *Gen, t Type, env Env2, fuel, pos int) Expr {
		f := g.split(fuel-1, 2)
		lam := Lambda{[]Param{{Name: "i"}, {Name: "x"}}, B(BinOp{"+", BinOp{"*", Var{"i"}, IntLit{10}}, BinOp{"+", Var{"x"}, g.Gen("int", env.with("i", "int").with("x", "int"), f[0], PosExpr)}})}
		return call("slice.Mapi", lam, g.Gen("[]int", env, f[1], PosExpr))
	}})
	add(prod{ext: true, name: "lambda-fold-unannotated", app: is("int"), mk: func(g *Gen, t Type, env Env2, fuel, pos int) Expr {
		f := g.split(fuel-1, 2)
		lam := Lambda{[]Param{{Name: "acc"}, {Name: "x"}}, B(BinOp{"-", BinOp{"*", Var{"acc"}, IntLit{2}}, Var{"x"}})}
		return call("slice.Fold", lam, g.Gen("int", env, f[0], PosExpr), g.Gen("[]int", env, f[1], PosExpr))
	}})
	add(prod{ext: true, name: "zip-map-pair", app: is("[]int"), mk: func(g *Gen, t Type, env Env2, fuel, pos int) Expr {
		f := g.split(fuel-1, 2)
		lam := Lambda{[]Param{{Name: "tp"}}, B(BinOp{"-", call("frt.Fst", Var{"tp"}), call("frt.Snd", Var{"tp"})})}
		return BinOp{"|>", call("slice.Zip", g.Gen("[]int", env, f[0], PosExpr), g.Gen("[]int", env, f[1], PosExpr)), call("slice.Map", lam)}
	}})
	// 36 a lambda whose un-annotated parameter is a record (field access decides its type), piped and applied
	add(prod{ext: true, name: "filter-field", app: is("int"), mk: func(g *Gen, t Type, env Env2, fuel, pos int) Expr {
		f := g.split(fuel-1, 3)
		piped := g.C.Choose(2) == 1
		rs := SliceLit{[]Expr{g.Gen("R", env, f[0], PosExpr), g.Gen("R", env, f[1], PosExpr)}}
		rx := g.freshName("rx") // fresh: the hole beside it is generated in the outer scope and must not be captured
		lam := Lambda{[]Param{{Name: rx}}, B(BinOp{">", Field{Var{rx}, "A"}, g.Gen("int", env, f[2], PosExpr)})}
		if piped {
			return BinOp{"|>", BinOp{"|>", rs, call("slice.Filter", lam)}, Var{"slice.Length"}}
		}
		return call("slice.Length", call("slice.Filter", lam, rs))
	}})
	// 37 a pipeline over slices: partial application, lambda and bare function as stages
	add(prod{ext: true, name: "pipe-chain-slices", app: is("int"), mk: func(g *Gen, t Type, env Env2, fuel, pos int) Expr {
		f := g.split(fuel-1, 2)
		lam := Lambda{[]Param{{Name: "x"}}, B(BinOp{">", Var{"x"}, IntLit{3}})}
		return BinOp{"|>", BinOp{"|>", BinOp{"|>", g.Gen("[]int", env, f[0], PosExpr), call("slice.Map", call("add3", IntLit{1}, g.Gen("int", env, f[1], PosExpr)))}, call("slice.Filter", lam)}, Var{"slice.Length"}}
	}})
	// 38 a string match with several literal arms, one of them with a block body
	add(prod{ext: true, name: "match-string-multi", app: any_, mk: func(g *Gen, t Type, env Env2, fuel, pos int) Expr {
		f := g.split(fuel-1, 3)
		tg := []Expr{trS("s1"), trS("b"), trS("zz")}[g.C.Choose(3)]
		sb := g.blk(t, env, f[1])
		withSay := &Block{Stmts: append([]Stmt{ExprStmt{call("say", StrLit{"arm-b"})}}, sb.Stmts...), Final: sb.Final}
		return SMatch{Target: tg, Lits: []SArm{{"s1", g.blk(t, env, f[0])}, {"b", withSay}, {"c", g.blk(t, env, 0)}}, Last: g.blk(t, env, f[2])}
	}})
	// 39 tuple-returning library calls destructured: dict.TryFind (present / missing key), slice.TryFind
	add(prod{ext: true, name: "tryfind-destr", block: true, app: any_, mk: func(g *Gen, t Type, env Env2, fuel, pos int) Expr {
		f := g.split(fuel-1, 2)
		which := g.C.Choose(3)
		v, ok := g.freshName("tv"), g.freshName("ok")
		body := g.blk(t, env.with(v, "int").with(ok, "bool"), f[1])
		if !Uses(body, v) && !Uses(body, ok) {
			g.C.Skip("result unused")
		}
		names := []string{v, ok}
		if !Uses(body, v) {
			names[0] = "_"
		}
		if !Uses(body, ok) {
			names[1] = "_"
		}
		var stmts []Stmt
		if which < 2 {
			d := g.freshName("d")
			key := []string{"k", "missing"}[which]
			stmts = []Stmt{
				Let{d, App{Fn: "dict.New", TypeArgs: []Type{"string", "int"}, Args: []Expr{UnitLit{}}}},
				ExprStmt{call("dict.Add", Var{d}, StrLit{"k"}, g.Gen("int", env, f[0], PosExpr))},
				LetDestr{names, call("dict.TryFind", Var{d}, StrLit{key})}}
		} else {
			lam := Lambda{[]Param{{Name: "x"}}, B(BinOp{">", Var{"x"}, IntLit{2}})}
			stmts = []Stmt{LetDestr{names, call("slice.TryFind", lam, SliceLit{[]Expr{IntLit{1}, g.Gen("int", env, f[0], PosExpr), IntLit{9}}})}}
		}
		return &Block{Stmts: append(stmts, body.Stmts...), Final: body.Final}
	}})
	// 40 a local function with two parameters that captures a local, called fully and partially applied
	add(prod{ext: true, rep: true, name: "local-fun2", block: true, app: any_, mk: func(g *Gen, t Type, env Env2, fuel, pos int) Expr {
		if !g.InBlock {
			g.C.Skip("local function let only directly in a function body")
		}
		f := g.split(fuel-1, 3)
		kk, fn, pl := g.freshName("kk"), g.freshName("lg"), g.freshName("pl")
		fb := &Block{Stmts: []Stmt{ExprStmt{call("say", Var{"lb"})}}, Final: BinOp{"+", BinOp{"+", Var{"la"}, Var{kk}}, g.Gen("int", env.with("la", "int").with(kk, "int"), f[1], PosExpr)}}
		save := g.InBlock
		body := g.blk(t, env.with(pl, "int->int"), f[2])
		g.InBlock = save
		if !Uses(body, pl) {
			g.C.Skip("unused local function")
		}
		stmts := []Stmt{Let{kk, g.Gen("int", env, f[0], PosExpr)},
			LetFun{fn, []Param{{Name: "lb", Type: "string"}, {Name: "la", Type: "int"}}, fb},
			Let{pl, call(fn, StrLit{"lg"})}}
		return &Block{Stmts: append(stmts, body.Stmts...), Final: body.Final}
	}})
	// 41 laziness with PURE operands: branches / arms / right operands that contain no call at all (a literal, a
	// top-level variable, arithmetic on them).  The poison gv / gz (gz = 0) panics when evaluated and is out of
	// domain where the reference evaluates it; in an untaken branch, an unmatched arm or a short-circuited
	// operand it must not be evaluated.  (Traced leaves are calls, so they never exercise a lowering that
	// treats call-free operands specially.)
	pures := func() []Expr {
		return []Expr{IntLit{7}, Var{"gv"}, BinOp{"/", Var{"gv"}, Var{"gz"}}, BinOp{"-", Var{"gv"}, IntLit{1}}}
	}
	// (then, else) / (then, elif, else): at most one poisoned branch, beside literals, variables and arithmetic
	add(prod{ext: true, rep: true, name: "if-pure-branches", app: is("int"), mk: func(g *Gen, t Type, env Env2, fuel, pos int) Expr {
		cond := g.Steer("bool", env, fuel-1)
		m := pures()
		pairs := [][2]int{{0, 1}, {1, 2}, {2, 1}, {0, 2}, {2, 0}, {3, 2}, {2, 3}, {3, 1}}
		pr := pairs[g.C.Choose(len(pairs))]
		return If{Cond: cond, Then: B(m[pr[0]]), Else: B(m[pr[1]])}
	}})
	add(prod{ext: true, name: "elif-pure-branches", app: is("int"), mk: func(g *Gen, t Type, env Env2, fuel, pos int) Expr {
		f := g.split(fuel-1, 2)
		m := pures()
		triples := [][3]int{{2, 1, 0}, {1, 2, 0}, {1, 3, 2}, {2, 3, 1}, {3, 2, 1}, {0, 1, 3}}
		tr := triples[g.C.Choose(len(triples))]
		return If{Cond: g.Steer("bool", env, f[0]), Then: B(m[tr[0]]), Elifs: []ElifArm{{g.Steer("bool", env, f[1]), B(m[tr[1]])}}, Else: B(m[tr[2]])}
	}})
	add(prod{ext: true, name: "logic-pure-poison", app: is("bool"), mk: func(g *Gen, t Type, env Env2, fuel, pos int) Expr {
		op := []string{"&&", "||"}[g.C.Choose(2)]
		return BinOp{op, g.Steer("bool", env, fuel-1), Paren{BinOp{">", BinOp{"/", Var{"gv"}, Var{"gz"}}, IntLit{0}}}}
	}})
	add(prod{ext: true, name: "match-pure-arms", app: is("int"), mk: func(g *Gen, t Type, env Env2, fuel, pos int) Expr {
		tg := g.Steer("U", env, fuel-1)
		return Match{Target: tg, Arms: []Arm{{"I", "i", B(BinOp{"/", Var{"i"}, Var{"gz"}})}, {"S", "_", B(IntLit{7})}, {"N", "", B(Var{"gv"})}}}
	}})
	// 42 a binder that reuses the name of an enclosing local of ANOTHER type; the outer one is used again afterwards
	add(prod{ext: true, rep: true, name: "shadow-match-binder", tiny: true, block: true, app: is("string"), mk: func(g *Gen, t Type, env Env2, fuel, pos int) Expr {
		// the outer local is used again in a LATER ARM and, after the match, as the value of an if branch (where a
		// translator needs its type, not only its name)
		f := g.split(fuel-1, 2)
		m := g.freshName("m")
		rhs := g.Gen("string", env, f[0], PosExpr)
		tg := g.Steer("U", env.with("sh", "string"), f[1])
		laterArm := B(If{Cond: BinOp{"=", If{Cond: BoolLit{true}, Then: B(Var{"sh"}), Else: B(StrLit{"q"})}, StrLit{"zz"}}, Then: B(IntLit{5}), Else: B(IntLit{0})})
		mt := Match{Target: tg, Arms: []Arm{{"I", "sh", B(BinOp{"+", Var{"sh"}, IntLit{1}})}, {"S", "_", laterArm}, {"N", "", B(IntLit{2})}}}
		return &Block{Stmts: []Stmt{Let{"sh", rhs}, Let{m, mt}},
			Final: If{Cond: BinOp{">", Var{m}, IntLit{1}}, Then: B(Var{"sh"}), Else: B(BinOp{"+", Var{"sh"}, StrLit{"x"}})}}
	}})
	add(prod{ext: true, name: "shadow-inner-let", tiny: true, block: true, app: is("int"), mk: func(g *Gen, t Type, env Env2, fuel, pos int) Expr {
		f := g.split(fuel-1, 2)
		r := g.freshName("r")
		rhs := g.Gen("int", env, f[0], PosExpr)
		inner := &Block{Stmts: []Stmt{Let{"sh", StrLit{"str"}}}, Final: If{Cond: BinOp{"=", Var{"sh"}, StrLit{"str"}}, Then: B(IntLit{1}), Else: B(IntLit{2})}}
		cond := If{Cond: g.Steer("bool", env.with("sh", "int"), f[1]), Then: inner, Else: B(IntLit{0})}
		return &Block{Stmts: []Stmt{Let{"sh", rhs}, Let{r, cond}},
			Final: If{Cond: BinOp{">", Var{r}, IntLit{0}}, Then: B(Var{"sh"}), Else: B(BinOp{"+", Var{"sh"}, IntLit{1}})}}
	}})
	// 43 the variable of a string match's last rule has the NAME of an enclosing local that a literal arm uses
	add(prod{ext: true, name: "match-string-var-shadows", block: true, app: is("string"), mk: func(g *Gen, t Type, env Env2, fuel, pos int) Expr {
		f := g.split(fuel-1, 2)
		rhs := g.Gen("string", env, f[0], PosExpr)
		tg := []Expr{trS("s1"), trS("zz")}[g.C.Choose(2)]
		m := SMatch{Target: tg, Lits: []SArm{{"s1", B(BinOp{"+", Var{"sw"}, StrLit{"!"}})}}, VarName: "sw",
			Last: B(BinOp{"+", Var{"sw"}, g.Gen("string", env.with("sw", "string"), f[1], PosExpr)})}
		// the outer variable is also used before the match: Go would otherwise reject it as unused (it is
		// shadowed in the whole switch), a louder form of the same defect
		return &Block{Stmts: []Stmt{Let{"sw", rhs}, ExprStmt{call("say", Var{"sw"})}}, Final: m}
	}})
	// 44 a string literal with escapes beyond the documented four: both transpilers hand the literal's text to Go
	add(prod{ext: true, name: "string-go-escapes", tiny: true, app: is("string"), mk: func(g *Gen, t Type, env Env2, fuel, pos int) Expr {
		lits := []StrSrc{{`\x41\u00e9`, "A\u00e9"}, {`a\x1b[1m`, "a\x1b[1m"}, {`\101\a\v`, "A\a\v"}, {`t\tq\"b\\`, "t\tq\"b\\"}}
		l := lits[g.C.Choose(len(lits))]
		return BinOp{"+", g.Gen("string", env, fuel-1, PosExpr), l}
	}})
	// 45 a statement whose NON-UNIT value is discarded (fc's own sources do that): a call, a match, an if/else
	add(prod{ext: true, name: "seq-discard", block: true, app: any_, mk: func(g *Gen, t Type, env Env2, fuel, pos int) Expr {
		f := g.split(fuel-1, 2)
		var st Expr
		switch g.C.Choose(4) {
		case 0:
			st = call("add", g.Gen("int", env, f[0], PosExpr), trI(g.nextInt()))
		case 1:
			st = Match{Target: g.Steer("U", env, f[0]), Arms: []Arm{{"I", "i", B(call("add", Var{"i"}, trI(g.nextInt())))}, {"S", "_", B(trI(g.nextInt()))}, {"N", "", B(trI(g.nextInt()))}}}
		case 2:
			st = If{Cond: g.Steer("bool", env, f[0]), Then: B(trI(g.nextInt())), Else: B(trI(g.nextInt()))}
		case 3:
			st = SMatch{Target: trS("s1"), Lits: []SArm{{"s1", B(call("strings.Length", g.Gen("string", env, f[0], PosExpr)))}}, Last: B(trI(g.nextInt()))}
		}
		body := g.blk(t, env, f[1])
		return &Block{Stmts: append([]Stmt{ExprStmt{st}}, body.Stmts...), Final: body.Final}
	}})
	// 46 a GENERIC package_info function applied partially and handed on as an argument
	add(prod{ext: true, name: "partial-generic-pkg-arg", tiny: true, app: is("int"), mk: func(g *Gen, t Type, env Env2, fuel, pos int) Expr {
		return call("slice.Length", call("slice.Map", call("frt.Sprintf1", StrLit{"<%d>"}), g.Gen("[]int", env, fuel-1, PosExpr)))
	}})
	// 47 slice values persist: several values derived from one base (a Map result has spare capacity) - each
	// keeps its own contents whatever is derived from the base afterwards (after seed C01i)
	add(prod{ext: true, name: "slice-values-persist", block: true, app: any_, mk: func(g *Gen, t Type, env Env2, fuel, pos int) Expr {
		f := g.split(fuel-1, 2)
		bs, pa, pb, pc := g.freshName("bs"), g.freshName("pa"), g.freshName("pb"), g.freshName("pc")
		var base Expr
		switch g.C.Choose(3) {
		case 0:
			base = call("slice.Map", Var{"inc"}, SliceLit{[]Expr{IntLit{1}, g.Gen("int", env, f[0], PosExpr), IntLit{3}}})
		case 1:
			base = call("slice.PopLast", SliceLit{[]Expr{IntLit{2}, g.Gen("int", env, f[0], PosExpr), IntLit{4}, IntLit{9}}})
		case 2:
			base = call("slice.PushLast", IntLit{4}, SliceLit{[]Expr{IntLit{2}, g.Gen("int", env, f[0], PosExpr)}})
		}
		mul := func(a Expr, k int64) Expr { return BinOp{"*", a, IntLit{k}} }
		sum := BinOp{"+", BinOp{"+", BinOp{"+", mul(call("slice.Item", IntLit{1}, Var{pa}), 1000), mul(call("slice.Item", IntLit{1}, Var{pb}), 100)}, mul(call("slice.Last", Var{bs}), 10)}, BinOp{"+", call("slice.Last", Var{pa}), call("slice.Head", Var{pc})}}
		body := g.blk(t, env, f[1])
		stmts := []Stmt{
			Let{bs, base},
			Let{pa, call("slice.PushHead", IntLit{10}, Var{bs})},
			Let{pb, call("slice.PushHead", IntLit{20}, Var{bs})},
			Let{pc, call("slice.PushLast", IntLit{30}, call("slice.PopLast", Var{bs}))},
			ExprStmt{call("say", call("frt.Sprintf1", StrLit{"%d"}, sum))},
		}
		return &Block{Stmts: append(stmts, body.Stmts...), Final: body.Final}
	}})
	// 48 two records with the same fields: a literal that NAMES the later-sorted one, directly followed by an unqualified
	// literal (an R: the first by name), which then meets an explicitly qualified R in one slice (after seed C17i: a
	// transpiler that remembers the record of the previous literal)
	add(prod{ext: true, name: "record-twin-literals", tiny: true, block: true, app: any_, mk: func(g *Gen, t Type, env Env2, fuel, pos int) Expr {
		f := g.split(fuel-1, 2)
		rq, ru := g.freshName("rq"), g.freshName("ru")
		body := g.blk(t, env, f[1])
		mkR := func(rec string, q bool, a Expr, b string) Expr {
			return RecordLit{Rec: rec, Qualified: q, Fields: []FieldInit{{"A", a}, {"B", StrLit{b}}}}
		}
		sum := BinOp{"+", BinOp{"+", Field{Var{rq}, "A"}, Field{Var{ru}, "A"}}, call("slice.Length", SliceLit{[]Expr{Var{ru}, mkR("R", true, IntLit{2}, "w")}})}
		stmts := []Stmt{
			Let{rq, mkR("Rz", true, IntLit{100}, "q")},
			Let{ru, mkR("R", false, g.Gen("int", env, f[0], PosExpr), "u")},
			ExprStmt{call("say", call("frt.Sprintf1", StrLit{"%d"}, sum))},
		}
		return &Block{Stmts: append(stmts, body.Stmts...), Final: body.Final}
	}})
	// 49 a union value displayed with %v: the text of the String method of its case
	add(prod{ext: true, name: "print-union-v", tiny: true, app: is("unit"), mk: func(g *Gen, t Type, env Env2, fuel, pos int) Expr {
		return call("frt.Printf1", StrLit{"=%v;"}, g.Gen("U", env, fuel-1, PosExpr))
	}})
	// 25 sequencing
	add(prod{name: "seq", rep: true, tiny: true, block: true, app: any_, mk: func(g *Gen, t Type, env Env2, fuel, pos int) Expr {
		f := g.split(fuel-1, 2)
		u := g.Gen("unit", env, f[0], PosExpr)
		body := g.blk(t, env, f[1])
		return &Block{Stmts: append([]Stmt{ExprStmt{u}}, body.Stmts...), Final: body.Final}
	}})
	// 26 lifted function: the sub-term becomes the body of a new top-level function
	for _, variant := range []string{"annotated", "unannotated", "result-annotated"} {
		variant := variant
		add(prod{name: "lifted-" + variant, rep: variant != "result-annotated", tiny: variant == "annotated", app: any_, mk: func(g *Gen, t Type, env Env2, fuel, pos int) Expr {
			saveBlock := g.InBlock
			g.InBlock = true
			body := g.blk(t, env, fuel-1)
			g.InBlock = saveBlock
			return g.lift(body, t, env, variant)
		}})
	}
}

// lift makes body a new top-level function whose parameters are its free
// local variables, and returns the call that replaces it.
func (g *Gen) lift(body *Block, t Type, env Env2, variant string) Expr {
	fv := map[string]bool{}
	freeVars(body, map[string]bool{}, fv)
	var names []string
	for n := range fv {
		if _, ok := env.typeOf(n); ok {
			names = append(names, n)
		}
	}
	sort.Strings(names)
	g.lifted++
	fn := fmt.Sprintf("lift%d%s", g.lifted, g.Suffix)
	fd := FuncDef{Name: fn, Body: body}
	var args []Expr
	for _, n := range names {
		ty, _ := env.typeOf(n)
		fd.Params = append(fd.Params, Param{Name: n, Type: ty})
		args = append(args, Var{n})
	}
	if variant == "unannotated" && len(names) > 0 {
		// drop every annotation that the documentation promises to be inferable: the parse-time reference
		// inference (match arms not unified, targets evident) must give the same signature without it
		full := sigOf(fd)
		for i := range fd.Params {
			if !g.inferable(body, fd.Params[i].Name, fd.Params[i].Type) || full == "" {
				continue
			}
			saved := fd.Params[i].Type
			fd.Params[i].Type = ""
			if sigOf(fd) != full {
				fd.Params[i].Type = saved
			}
		}
	}
	if len(names) == 0 {
		fd.Params = []Param{{Unit: true}}
		args = []Expr{UnitLit{}}
	}
	if variant == "result-annotated" {
		fd.Ret = t
	}
	g.Aux = append(g.Aux, fd)
	return App{Fn: fn, Args: args}
}

// FoiText is the text of pkg/pkg_all.foi (set by the checks); without it no annotation is dropped.
var FoiText string

// sigOf: the reference signature of fd under the parse-time inference mode ("" if it fails or is out of the promises).
func sigOf(fd FuncDef) string {
	if FoiText == "" {
		return ""
	}
	in := NewInferer()
	in.LoadFoi(FoiText)
	in.NoArmUnify = true
	ft, err := in.InferFunc(fd)
	if err != nil || in.ArithUndetermined() {
		return ""
	}
	return GoSig(ft, false)
}

// inferable: may the annotation of parameter n (of type ty) be dropped?  Only
// when the documentation promises that the body determines it: the parameter
// occurs as an operand of an arithmetic/comparison operator whose other side is
// typed, as an argument of a monomorphic function, or is simply passed through
// (then it becomes a type parameter - still a valid program).
func (g *Gen) inferable(body *Block, n string, ty Type) bool {
	if ty == "int->int" || ty == "R" || ty == "U" || ty == "Opt<int>" {
		// field access / match on an un-annotated parameter needs the type at parse time
		return false
	}
	return true
}

// substVars replaces variables by expressions (used for field projections).
func substVars(x interface{}, m map[string]Expr) interface{} {
	sub := func(e Expr) Expr {
		if e == nil {
			return nil
		}
		return substVars(e, m).(Expr)
	}
	subB := func(b *Block) *Block {
		if b == nil {
			return nil
		}
		return substVars(b, m).(*Block)
	}
	switch v := x.(type) {
	case IntLit, IntSrc, StrLit, StrSrc, BoolLit, UnitLit, RawStr:
		return v
	case Var:
		if r, ok := m[v.Name]; ok {
			return r
		}
		return v
	case App:
		args := make([]Expr, len(v.Args))
		for i, a := range v.Args {
			args[i] = sub(a)
		}
		return App{v.Fn, v.TypeArgs, args}
	case BinOp:
		return BinOp{v.Op, sub(v.L), sub(v.R)}
	case Not:
		return Not{sub(v.E)}
	case Paren:
		return Paren{sub(v.E)}
	case If:
		n := If{Cond: sub(v.Cond), Then: subB(v.Then), Else: subB(v.Else)}
		for _, ea := range v.Elifs {
			n.Elifs = append(n.Elifs, ElifArm{sub(ea.Cond), subB(ea.Body)})
		}
		return n
	case Match:
		n := Match{Target: sub(v.Target), Default: subB(v.Default)}
		for _, a := range v.Arms {
			n.Arms = append(n.Arms, Arm{a.Case, a.Bind, subB(a.Body)})
		}
		return n
	case SMatch:
		n := SMatch{Target: sub(v.Target), VarName: v.VarName, Last: subB(v.Last)}
		for _, a := range v.Lits {
			n.Lits = append(n.Lits, SArm{a.Lit, subB(a.Body)})
		}
		return n
	case *Block:
		n := &Block{Final: sub(v.Final)}
		for _, s := range v.Stmts {
			switch st := s.(type) {
			case Let:
				n.Stmts = append(n.Stmts, Let{st.Name, sub(st.Rhs)})
			case LetDestr:
				n.Stmts = append(n.Stmts, LetDestr{st.Names, sub(st.Rhs)})
			case LetFun:
				n.Stmts = append(n.Stmts, LetFun{st.Name, st.Params, subB(st.Body)})
			case ExprStmt:
				n.Stmts = append(n.Stmts, ExprStmt{sub(st.E)})
			}
		}
		return n
	case Lambda:
		return Lambda{v.Params, subB(v.Body)}
	case Tuple:
		es := make([]Expr, len(v.Es))
		for i, a := range v.Es {
			es[i] = sub(a)
		}
		return Tuple{es}
	case SliceLit:
		es := make([]Expr, len(v.Es))
		for i, a := range v.Es {
			es[i] = sub(a)
		}
		return SliceLit{es}
	case RecordLit:
		n := RecordLit{Rec: v.Rec, Qualified: v.Qualified}
		for _, f := range v.Fields {
			n.Fields = append(n.Fields, FieldInit{f.Name, sub(f.E)})
		}
		return n
	case Field:
		return Field{sub(v.E), v.Name}
	case Ctor:
		return Ctor{v.Case, v.TypeArgs, sub(v.Arg), v.UnitCall}
	case Interp:
		return v
	}
	panic(fmt.Sprintf("fo: substVars %T", x))
}

// Gen enumerates all terms of type t with exactly `fuel` constructs.
func (g *Gen) Gen(t Type, env Env2, fuel int, pos int) Expr {
	if fuel == 0 {
		opts := g.leafOptions(t, env, g.steer)
		g.steer = false
		return opts[g.C.Choose(len(opts))]()
	}
	steering := g.steer
	g.steer = false
	var ps []*prod
	for i := range prods {
		p := &prods[i]
		if !p.app(t) {
			continue
		}
		if p.noTarget && steering {
			continue
		}
		if g.P.ExtWithReps {
			bad := false
			for _, a := range g.stack {
				if (p.ext && !a.rep) || (a.ext && !p.rep) {
					bad = true
				}
			}
			if bad {
				continue
			}
		}
		if p.block && pos != PosBlock {
			continue
		}
		if g.P.Tiny && !p.tiny {
			continue
		}
		if g.P.RepsOnly && !p.rep {
			continue
		}
		if g.P.Only != nil && !g.P.Only[strings.SplitN(p.name, ":", 2)[0]] {
			continue
		}
		ps = append(ps, p)
	}
	if len(ps) == 0 {
		g.C.Skip("no production for " + t)
	}
	p := ps[g.C.Choose(len(ps))]
	g.Used[p.name]++
	// InBlock is true only for the direct statements of a function body
	inBlock := g.InBlock
	if !p.block {
		g.InBlock = false
	}
	g.stack = append(g.stack, p)
	e := p.mk(g, t, env, fuel, pos)
	g.stack = g.stack[:len(g.stack)-1]
	g.InBlock = inBlock
	return e
}

// ProdNames lists the alphabet (for the evidence histogram).
func ProdNames(p Profile) []string {
	var out []string
	for _, pr := range prods {
		if p.Tiny && !pr.tiny {
			continue
		}
		if p.RepsOnly && !pr.rep {
			continue
		}
		out = append(out, pr.name)
	}
	return out
}
